"""C07 - packet variables access exactly their declared bytes and byte order.

Bounded exhaustive enumeration of (access path, guard size, format, offset,
operation) programs, written with the real DSL on real ``XDP`` subclasses (the
DSL itself emits the packet-size guard).  The assembled bytes run in the
independent interpreter on packets of every length around the guard with
several content patterns; a deterministic subset also runs in the real kernel
(BPF_PROG_TEST_RUN) and must agree with the interpreter.  The oracle is
``struct.unpack_from`` / ``struct.pack`` on a Python copy of the packet.

Constants written into a variable come, per format, from the boundary values
2^k - 1, 2^k, -2^k, -2^k - 1 for k in 7, 8, 15, 16, 31, 32, 63 (where the
format's range allows) and, for formats with a byte order prefix, the values
whose byte-swapped image is such a boundary: every place where the encoding
of a constant (store-immediate, 32-bit move, 64-bit load) can change.

A second family has two or three packet-size guards per program (``forests``
/ ``guard_cases``): every ordered forest of guards where a guard sits in the
with-body or in the Else body of another one or follows it, each guard
written without ``as``, with ``as p`` or with ``as p`` and ``with p.Else:``
(the Else of an outer guard comes after the guards nested in its body), also
under ``minimumPacketSize``.  Every body stores a marker and a tag byte into
the last packet byte its guards promise; the oracle evaluates the
comparisons on the packet length, for every length around every guard value.

Operands and results travel through one array-map value (raw instructions
only, register r6): bytes [0,64) inputs, bytes [64,128) outputs.
"""
import operator
import os
import random
import struct

from mc import bpfvm, core, kern
from mc.dsl import Raw
from ebpfcat.ebpf import Instruction, LocalVar
from ebpfcat.xdp import XDP, PacketVar

PROP = "C07"
LEVEL = "model_checking"
RULE = ("programs = access path (PacketVar under minimumPacketSize, pB/pH/pI/pQ "
        "under minimumPacketSize, pX arrays under packetSize > >= < <=) x guard "
        "x format x offset x operation (read into registers/locals, write of "
        "constant/register/local, in-place += -= |= &=); each program runs on "
        "every packet length around the guard x content pattern x operand "
        "value; constants written = per format the boundaries 2^k-1, 2^k, "
        "-2^k, -2^k-1 (k = 7 8 15 16 31 32 63, within the format's range) plus "
        "for byte-order-prefixed formats their byte-swapped images, in-place "
        "amounts include the 32-bit immediate boundaries; second family: all "
        "ordered forests of 1-3 packetSize guards (guard in the with-body / in "
        "the Else body of / after another guard) x comparison x {no as, as p, "
        "as p + p.Else} x guard values, with and without minimumPacketSize, "
        "each body leaving a marker and a tag in the last promised packet "
        "byte, run on every length within 2 of every guard value (and 1, 14, "
        "1514) x 2 contents, judged by evaluating the comparisons on the "
        "length; a run is non-trivial when a guarded body executed and the "
        "oracle judged the accessed bytes (counted as judged_runs); distinct = "
        "distinct (program, content pattern)")

M64 = (1 << 64) - 1
LETTERS = "BHIQbhiq"
SIZE = {"B": 1, "b": 1, "H": 2, "h": 2, "I": 4, "i": 4, "Q": 8, "q": 8, "x": 8}
ORDERS = ["", "<", ">", "!"]
REGBITS = {"r": (64, False), "sr": (64, True), "w": (32, False),
           "sw": (32, True), "x": (64, True)}
IPOPS = {"+=": (operator.iadd, operator.add), "-=": (operator.isub, operator.sub),
         "|=": (operator.ior, operator.or_), "&=": (operator.iand, operator.and_)}

IN, OUT, IOSIZE = 0, 64, 128
O_VAL, O_BODY, O_ELSE = OUT, OUT + 8, OUT + 16
MARK = 0x600D
KEYOFF = -512

KF_SIGN = "C07-signed-endian-zero-extended"
KF_BYTE = "C07-endian-prefix-1byte"

XLOC_Q = [">H", ">i", "!Q", "<h", "<I"]
XLOC = [o + c for o in "><!" for c in "BHIQbhiq"]

PATHS = ["var", "minarr", "gt", "ge", "lt", "le"]
CMP = {"gt": operator.gt, "ge": operator.ge, "lt": operator.lt,
       "le": operator.le}


def letter(fmt):
    return fmt[-1]


def signed(fmt):
    return letter(fmt).islower()


def fmt_range(fmt):
    bits = 8 * SIZE[letter(fmt)]
    if signed(fmt):
        return -(1 << (bits - 1)), (1 << (bits - 1)) - 1
    return 0, (1 << bits) - 1


def sfmt(fmt):
    """struct format of a packet format ('x' is ebpfcat's 64-bit fixed point,
    stored as a signed 64-bit integer)"""
    return fmt[:-1] + "q" if letter(fmt) == "x" else fmt


def sx(v, bits):
    v &= (1 << bits) - 1
    return v - (1 << bits) if v >> (bits - 1) else v


# ------------------------------------------------------------ i/o map
_io = {}


def io_fd():
    """one array map per process: a real one when bpf() works (so that the
    same program bytes serve interpreter and kernel), else a made-up fd"""
    pid = os.getpid()
    if _io.get("pid") != pid:
        _io.clear()
        _io["pid"] = pid
        if kern.available():
            _io["fd"] = kern.map_create(2, 4, IOSIZE, 1)
            _io["real"] = True
        else:
            _io["fd"] = 1000
            _io["real"] = False
    return _io["fd"], _io["real"]


# ------------------------------------------------------------ programs
class Prog:
    """one compiled case = (path, guard, fmt, offset, op)"""

    def __init__(self, case):
        self.case = case
        path, G, fmt, off, op = case
        attrs = {}
        if path in ("var", "minarr"):
            attrs["minimumPacketSize"] = G
        if path == "var":
            attrs["pv"] = PacketVar(off, fmt)
        self.locfmt = None
        if op[0] == "rd" and op[1] == "loc":
            self.locfmt = op[2]
        elif op[0] == "wv":
            self.locfmt = op[1]
        elif op[0] == "ip" and op[2] == "loc":
            self.locfmt = op[3]
        if self.locfmt is not None:
            attrs["lv"] = LocalVar(self.locfmt)
        self.build(attrs)

    def build(self, attrs):
        """the XDP subclass of this case, instantiated and assembled"""
        self.fd, self.real = io_fd()
        prog = self

        def program(e):
            prog.emit(e)
        attrs["program"] = program
        cls = type("C07P", (XDP,), attrs)
        e = self.e = cls(license="GPL")
        self.preamble()
        self.code = e.assemble()
        self.insns = bpfvm.decode(self.code)
        self.kfd = None

    # raw instructions, never through the DSL under test
    def raw(self, op, dst, src, off, imm):
        self.e.opcodes.append(Instruction(Raw(op), dst, src, off, imm))

    def preamble(self):
        a = self.raw
        a(0xbf, 6, 1, 0, 0)               # r6 = ctx
        a(0x62, 10, 0, KEYOFF, 0)         # *(u32 *)(r10 - 512) = 0
        self.e.opcodes.append(Instruction(Raw(0x18), 1, 1, 0, self.fd))
        self.e.opcodes.append(Instruction(Raw(0), 0, 0, 0, 0))
        a(0xbf, 2, 10, 0, 0)
        a(0x07, 2, 0, 0, KEYOFF)          # r2 = r10 - 512
        a(0x85, 0, 0, 0, 1)               # map_lookup_elem
        a(0x55, 0, 0, 2, 0)               # if r0 != 0 goto +2
        a(0xb7, 0, 0, 0, 0)
        a(0x95, 0, 0, 0, 0)
        a(0xbf, 1, 6, 0, 0)               # r1 = ctx
        a(0xbf, 6, 0, 0, 0)               # r6 = i/o area
        self.e.owners.add(6)

    def mark(self, where):
        self.raw(0xb7, 0, 0, 0, MARK)
        self.raw(0x7b, 6, 0, where, 0)

    def emit(self, e):
        path, G, fmt, off, op = self.case
        if path in ("var", "minarr"):
            self.mark(O_BODY)
            self.statement(e, e)
            return
        cm = {"gt": lambda: e.packetSize > G, "ge": lambda: e.packetSize >= G,
              "lt": lambda: e.packetSize < G, "le": lambda: e.packetSize <= G
              }[path]()
        with cm as p:
            self.mark(O_BODY)
            if path in ("gt", "ge"):
                self.statement(e, p)
        with p.Else:
            self.mark(O_ELSE)
            if path in ("lt", "le"):
                self.statement(e, p)
        self.raw(0xb7, 0, 0, 0, 2)
        self.raw(0x95, 0, 0, 0, 0)

    # the variable under test
    def get(self, e, p):
        path, G, fmt, off, op = self.case
        if path == "var":
            return e.pv
        return getattr(p, "p" + fmt)[off]

    def put(self, e, p, value):
        path, G, fmt, off, op = self.case
        if path == "var":
            e.pv = value
        else:
            getattr(p, "p" + fmt)[off] = value

    def plant_reg(self, e, kind, no, slot=0):
        bits = REGBITS[kind][0]
        self.raw(0x79 if bits == 64 else 0x61, no, 6, IN + 8 * slot, 0)
        e.owners.add(no)
        return getattr(e, kind)[no]

    def plant_local(self, e, slot=0):
        d = type(e).__dict__["lv"]
        self.raw(0x79, 0, 6, IN + 8 * slot, 0)
        self.raw({1: 0x73, 2: 0x6b, 4: 0x63, 8: 0x7b}[SIZE[letter(d.fmt)]],
                 10, 0, d.relative_addr, 0)
        return e.lv

    def statement(self, e, p):
        path, G, fmt, off, op = self.case
        k = op[0]
        if k == "rd":
            if op[1] == "reg":
                getattr(e, op[2])[7] = self.get(e, p)
                self.raw(0x7b, 6, 7, O_VAL, 0)
            else:
                e.lv = self.get(e, p)
                d = type(e).__dict__["lv"]
                self.raw({1: 0x71, 2: 0x69, 4: 0x61,
                          8: 0x79}[SIZE[letter(d.fmt)]],
                         0, 10, d.relative_addr, 0)
                self.raw(0x7b, 6, 0, O_VAL, 0)
        elif k == "wc":
            self.put(e, p, op[1])
        elif k == "wr":
            self.put(e, p, self.plant_reg(e, op[1], 7))
        elif k == "wv":
            self.put(e, p, self.plant_local(e))
        elif k == "ip":
            if op[2] == "const":
                amount = op[3]
            elif op[2] == "reg":
                amount = self.plant_reg(e, op[3], 7)
            else:
                amount = self.plant_local(e)
            self.put(e, p, IPOPS[op[1]][0](self.get(e, p), amount))
        else:
            raise core.Internal(f"unknown operation {op!r}")

    # ---------------------------------------------------------- running
    def run_vm(self, pkt, inp):
        """-> (retval, io area bytes, steps); raises bpfvm.Trap"""
        k = bpfvm.Kernel()
        m = bpfvm.BpfMap(bpfvm.BpfMap.ARRAY, 4, IOSIZE, 1)
        k.maps[self.fd] = m
        struct.pack_into("<Q", m.area, IN, inp & M64)
        vm = bpfvm.VM(k, self.insns, pkt)
        self.vm = vm
        vm.run()
        return vm.retval, bytes(m.area), vm.steps

    def load_kernel(self):
        if not self.real:
            return False
        try:
            self.kfd = kern.prog_load(self.code)
            return True
        except kern.LoadError:
            return False

    def run_kernel(self, pkt, inp):
        area = bytearray(IOSIZE)
        struct.pack_into("<Q", area, IN, inp & M64)
        kern.map_update(self.fd, bytes(4), area)
        ret, out = kern.test_run(self.kfd, pkt)
        return ret, out, kern.map_lookup(self.fd, bytes(4), IOSIZE)

    def close(self):
        if self.kfd is not None:
            os.close(self.kfd)
            self.kfd = None


# ------------------------------------------------------------ alphabets
def content(cid, n, seed):
    if cid == "pos":
        return bytes((i * 0x1d + 0x81) & 0xff for i in range(n))
    if cid == "ff":
        return b"\xff" * n
    if cid == "80":
        return b"\x80" * n
    if cid == "8000":
        return bytes(0x80 if i & 1 else 0 for i in range(n))
    if cid == "0080":
        return bytes(0 if i & 1 else 0x80 for i in range(n))
    if cid == "7fff":
        return bytes(0xff if i & 1 else 0x7f for i in range(n))
    if cid == "fe":
        return bytes((0xfe - i) & 0xff for i in range(n))
    if cid == "seed":
        return random.Random(seed * 7919 + 13).randbytes(n)
    raise core.Internal(f"content {cid}")


CONTENTS = ["pos", "ff", "80", "8000", "0080", "7fff", "fe", "seed"]


def lengths(G):
    return sorted(set(range(G - 2, G + 10)) | {14, 1514})


def target_values(fmt, seed):
    """raw 64-bit operand patterns for writes into a variable of this format"""
    lo, hi = fmt_range(fmt)
    n = SIZE[letter(fmt)]
    pat = int.from_bytes(bytes(range(1, n + 1)), "big")
    vs = [0, 1, hi, hi - 1, pat, 1 << (8 * n - 1), (1 << (8 * n)) + 0x34]
    if signed(fmt):
        vs += [lo, -2, -pat]
    vs.append(random.Random(seed * 31 + n).getrandbits(8 * n))
    out = []
    for v in vs:
        v &= M64
        if v not in out:
            out.append(v)
    return out


def amount_values(fmt, seed):
    n = SIZE[letter(fmt)]
    vs = [1, 3, 0x80, (1 << (8 * n - 1)) - 1, (1 << (8 * n)) - 1, -1,
          int.from_bytes(bytes(range(0x11, 0x11 + n)), "big"),
          random.Random(seed * 37 + n).getrandbits(8 * n)]
    out = []
    for v in vs:
        v &= M64
        if v not in out:
            out.append(v)
    return out


POWERS = (7, 8, 15, 16, 31, 32, 63)


def base_consts(fmt, seed):
    lo, hi = fmt_range(fmt)
    n = SIZE[letter(fmt)]
    pat = int.from_bytes(bytes(range(1, n + 1)), "big")
    vs = [0, 1, hi, pat]
    if signed(fmt):
        vs += [lo, -2]
    else:
        vs += [1 << (8 * n - 1)]
    vs.append(random.Random(seed * 41 + n).randint(lo, hi))
    return sorted(set(vs))


def boundary_values(fmt):
    """2^k - 1, 2^k, -2^k, -2^k - 1 for the powers of two at which some
    encoding of a constant changes (sign bits of 1/2/4/8-byte quantities,
    32-bit immediates that are sign-extended, ...), as far as the format's
    range allows"""
    lo, hi = fmt_range(fmt)
    vs = set()
    for k in POWERS:
        for v in ((1 << k) - 1, 1 << k, -(1 << k), -(1 << k) - 1):
            if lo <= v <= hi:
                vs.add(v)
    return vs


def swapped_image(v, fmt):
    """the number whose bytes in the format's width are those of v reversed"""
    n = SIZE[letter(fmt)]
    raw = (v & ((1 << (8 * n)) - 1)).to_bytes(n, "little")
    return int.from_bytes(raw, "big", signed=signed(fmt))


def extra_consts(fmt, seed):
    """boundary constants beyond base_consts; for formats with a byte order
    prefix also the values whose byte-swapped image is a boundary"""
    vs = boundary_values(fmt)
    if len(fmt) > 1:
        vs |= {swapped_image(v, fmt) for v in vs}
    return sorted(vs - set(base_consts(fmt, seed)))


def const_values(fmt, seed):
    return sorted(set(base_consts(fmt, seed)) | set(extra_consts(fmt, seed)))


def ip_consts(fmt, quick):
    """constant amounts of in-place updates: small ones and, where the
    variable is wide enough to hold them, the 32-bit immediate boundaries"""
    n = SIZE[letter(fmt)]
    cs = [3, 0x81] if quick else [1, 3, 0x81, -2]
    big = [0x80000000] if quick else [
        0x7fffffff, 0x80000000, 0xffffffff, 0x100000000, -0x80000001]
    return cs + [c for c in big if n >= 4 and abs(c) < 1 << (8 * n)]


def operations(fmt, seed, quick):
    ops = []
    if letter(fmt) == "x":
        return [("rd", "reg", "x"), ("wr", "x")]
    for k in ("r", "sr", "w", "sw"):
        ops.append(("rd", "reg", k))
    for f in ("BhIq" if quick else LETTERS):
        ops.append(("rd", "loc", f))
    # copies between variables that both carry a byte order
    for f in XLOC_Q if quick else XLOC:
        ops.append(("rd", "loc", f))
        ops.append(("wv", f))
    for c in const_values(fmt, seed):
        ops.append(("wc", c))
    for k in ("r", "sr", "w", "sw"):
        ops.append(("wr", k))
    for f in ("bHiQ" if quick else LETTERS):
        ops.append(("wv", f))
    for o in IPOPS:
        for c in ip_consts(fmt, quick):
            ops.append(("ip", o, "const", c))
        for k in ("r", "w"):
            ops.append(("ip", o, "reg", k))
        for f in ("I",) if quick else ("B", "h", "I", "q"):
            ops.append(("ip", o, "loc", f))
    return ops


def offsets(G, fmt, ctx_quick, seed):
    top = G - SIZE[letter(fmt)]
    if not ctx_quick:
        return list(range(top + 1))
    pick = {0, 1, 3, top // 2, top - 1, top, (seed * 5 + 2) % (top + 1)}
    return sorted(o for o in pick if 0 <= o <= top)


# ------------------------------------------------------------ the oracle
def source_value(kind, what, raw):
    """the Python integer a source operand denotes, from its planted bits"""
    if kind == "reg":
        bits, sg = REGBITS[what]
        return sx(raw, bits) if sg else raw & ((1 << bits) - 1)
    n = SIZE[letter(what)]
    # the planted bits are the variable's bytes in memory order
    return struct.unpack(what if len(what) > 1 else "<" + what,
                         (raw & M64).to_bytes(8, "little")[:n])[0]


def judge(case, pkt0, pkt1, area, raw_in, ran, res):
    """compare one completed run with the oracle -> list of (what, expected,
    observed, kf)"""
    path, G, fmt, off, op = case
    n = SIZE[letter(fmt)]
    bad = []
    if not ran:
        if pkt1 != pkt0:
            bad.append(("packet changed although the guarded body did not run",
                        pkt0.hex(), pkt1.hex(), None))
        return bad, False
    k = op[0]
    old = struct.unpack_from(sfmt(fmt), pkt0, off)[0]
    judged = True
    if k == "rd":
        if pkt1 != pkt0:
            bad.append(("read changed the packet", pkt0.hex(), pkt1.hex(),
                        None))
        dbits = REGBITS[op[2]][0] if op[1] == "reg" \
            else 8 * SIZE[letter(op[2])]
        obs = struct.unpack_from("<Q", area, O_VAL)[0] & ((1 << dbits) - 1)
        exp = old & ((1 << dbits) - 1)
        if op[1] == "loc" and op[2][0] in ">!":
            # the local's bytes, read back as a little-endian number
            obs = int.from_bytes(obs.to_bytes(dbits // 8, "little"), "big")
        if obs != exp:
            kf = None
            if len(fmt) > 1 and signed(fmt) and 8 * n < dbits and old < 0 \
                    and obs == old & ((1 << (8 * n)) - 1):
                kf = KF_SIGN
            bad.append(("read value", hex(exp), hex(obs), kf))
        return bad, True
    # writes: every byte outside the variable must be unchanged
    if pkt1[:off] != pkt0[:off] or pkt1[off + n:] != pkt0[off + n:]:
        bad.append(("write touched bytes outside the variable",
                    pkt0.hex(), pkt1.hex(), None))
    if k == "wc":
        new = op[1]
    elif k == "wr":
        new = source_value("reg", op[1], raw_in)
        if op[1] == "sw" and new < 0 and n == 8:
            # widening a negative 32-bit signed register is C01's subject
            res.count("left_to_C01")
            return bad, False
    elif k == "wv":
        new = source_value("loc", op[1], raw_in)
    else:
        if op[2] == "const":
            amt = op[3]
        else:
            amt = source_value(op[2], op[3], raw_in)
        new = IPOPS[op[1]][1](old, amt)
    lo, hi = fmt_range(fmt)
    if not lo <= new <= hi:
        res.count("outside_precondition")
        judged = False
    else:
        exp = struct.pack(sfmt(fmt), new)
        obs = pkt1[off:off + n]
        if obs != exp:
            bad.append(("stored bytes", exp.hex(), obs.hex(), None))
    return bad, judged


def expected_run(path, G, length, need):
    """-> (branch that must execute: 'body'/'else'/None=either allowed,
           whether the statement executes)"""
    if path in ("var", "minarr"):
        if length > G:
            return True
        if length < need:
            return False
        return None     # neither demanded nor forbidden by the statement
    return CMP[path](length, G)


def ran_len(length, G):
    return G - 1 <= length <= G + 1


def opsig(op):
    if op[0] == "wc":
        return ["wc"]
    if op[0] == "ip" and op[2] == "const":
        return ["ip", op[1], "const"]
    return list(op)


_stored = {}
KEEP = 2


def violation(res, case, expected, observed, kf, sig, note):
    """store at most KEEP violations per signature and work item (the
    counter is reset per item, so the stored set is deterministic)"""
    n = _stored[sig] = _stored.get(sig, 0) + 1
    if n > KEEP:
        res.count("violations_not_stored")
        if kf is not None:
            res.count("not_stored:" + kf)
        return
    res.violation(case, expected, observed, kf=kf, sig=sig, note=note)


def run_case(case, plan, seed, res, caseno, kernel_every):
    path, G, fmt, off, op = case
    n = SIZE[letter(fmt)]
    cj = dict(path=path, guard=G, fmt=fmt, off=off, op=list(op))
    try:
        p = Prog(case)
    except core.Internal:
        raise
    except Exception as e:
        res.count("rejected_by_generator")
        res.outcomes.add("rejected:" + type(e).__name__)
        return
    res.count("programs")
    use_kernel = bool(kernel_every) and caseno % kernel_every == 0 \
        and p.real and p.load_kernel()
    if kernel_every and caseno % kernel_every == 0 and p.real \
            and not use_kernel:
        res.count("kernel_rejected")
    try:
        for runno, (length, cid, raw_in) in enumerate(plan):
            pkt0 = content(cid, length, seed)
            pkt = bytearray(pkt0)
            res.count("evaluations")
            rj = dict(cj, length=length, content=cid, input=raw_in)
            want = expected_run(path, G, length, off + n)
            try:
                ret, area, steps = p.run_vm(pkt, raw_in)
            except bpfvm.Trap as t:
                res.count("transitions", p.vm.steps)
                reason = str(t)
                if use_kernel and length >= 14:
                    raise core.Internal(
                        f"interpreter traps ({reason}) on a program the "
                        f"kernel accepted: {rj}")
                kf = None
                if len(fmt) > 1 and n == 1 and \
                        reason.startswith("invalid endian width 8"):
                    kf = KF_BYTE
                res.outcomes.add(("trap", reason.split(":")[0][:40], str(kf)))
                violation(res, rj, "program runs to completion", reason, kf,
                          core.digest(["trap", path in ("var", "minarr"),
                                       fmt, opsig(op),
                                       reason.split(" at ")[0][:30]]),
                          "generated program traps in the interpreter")
                continue
            res.count("transitions", steps)
            body = struct.unpack_from("<Q", area, O_BODY)[0] == MARK
            els = struct.unpack_from("<Q", area, O_ELSE)[0] == MARK
            if use_kernel and length >= 14 and (runno % 2 == 0 or ran_len(
                    length, G)):
                kret, kout, karea = p.run_kernel(pkt0, raw_in)
                res.count("kernel_validated")
                if (kret, bytes(kout), bytes(karea)[OUT:]) != \
                        (ret, bytes(pkt), area[OUT:]):
                    raise core.Internal(
                        f"VM/kernel disagreement on {rj}: vm=({ret}, "
                        f"{bytes(pkt)[:40].hex()}, {area[OUT:OUT+24].hex()}) "
                        f"kernel=({kret}, {bytes(kout)[:40].hex()}, "
                        f"{bytes(karea)[OUT:OUT+24].hex()})")
            # ---- which branch ran
            if path in ("var", "minarr"):
                ran = body
                if want is not None and body != want:
                    violation(
                        res, rj, f"body {'runs' if want else 'does not run'} "
                        f"(length {length}, minimumPacketSize {G})",
                        f"body {'ran' if body else 'did not run'}", None,
                        core.digest(["guard", "min"]),
                        "minimumPacketSize guard")
                    continue
            else:
                ran = body if path in ("gt", "ge") else els
                if (body, els) != (want, not want):
                    violation(
                        res, rj, f"with-body runs: {want}, Else runs: "
                        f"{not want} (packetSize {path} {G}, length {length})",
                        f"with-body ran: {body}, Else ran: {els}", None,
                        core.digest(["guard", path]),
                        "packetSize comparison")
                    continue
            bad, judged = judge(case, pkt0, bytes(pkt), area, raw_in, ran, res)
            if ran and judged:
                res.count("judged_runs")
                res.nontrivial.add((caseno << 4) | CONTENTS.index(cid))
            res.outcomes.add((path in ("var", "minarr"), bool(ran), op[0],
                              bool(bad)))
            for what, exp, obs, kf in bad:
                violation(res, rj, exp, obs, kf,
                          core.digest([what, path in ("var", "minarr"),
                                       fmt, opsig(op), str(kf)]), what)
    finally:
        p.close()


def plan_for(case, seed, quick):
    """the (length, content, operand) runs of one program"""
    path, G, fmt, off, op = case
    if op[0] in ("wr", "wv"):
        vals = target_values(fmt, seed)
    elif op[0] == "ip" and op[2] != "const":
        vals = amount_values(fmt, seed)
    else:
        vals = [0]
    if op[0] == "wc" and op[1] not in base_consts(fmt, seed):
        # the additional boundary constants: every length once, the other
        # contents only where the body certainly runs
        return [(length, "pos", 0) for length in lengths(G)] + \
            [(G + 1, "ff", 0), (1514, "ff", 0), (G + 1, "seed", 0)]
    plan = []
    for length in lengths(G):
        for cid in ("pos", "ff"):
            plan.append((length, cid, vals[min(4, len(vals) - 1)]))
    conts = CONTENTS if not quick else ["pos", "ff", "8000", "0080", "seed"]
    for length in (G, G + 1, 1514):
        for cid in conts:
            for v in vals:
                if (length, cid, v) not in plan:
                    plan.append((length, cid, v))
    return plan


# ------------------------------------------- several guards in one program
GOPTS = ("anon", "as", "else")
SYM = {"gt": ">", "ge": ">=", "lt": "<", "le": "<="}
TAG = 0xA0
GUARD_MIN = 20
GCONTENTS = ["pos", "seed"]
MAXBLOCKS = (IOSIZE - OUT) // 8


def annotate(case):
    """number the bodies of a guard program in program order -> (id of the
    minimumPacketSize body or None, top-level nodes, names of the blocks);
    a node [op, G, opt, body nodes, Else nodes] becomes (op, G, opt, body id,
    body nodes, Else id or None, Else nodes)"""
    names = []
    guards = [0]

    def new(name):
        names.append(name)
        return len(names) - 1

    def node(t):
        op, G, opt, body, els = t
        if op not in CMP or opt not in GOPTS or (els and opt != "else"):
            raise core.Internal(f"malformed guard node {t!r}")
        guards[0] += 1
        me = f"guard {guards[0]} (packetSize {SYM[op]} {G})"
        bid = new("with-body of " + me)
        body = [node(c) for c in body]
        eid = new("Else of " + me) if opt == "else" else None
        return (op, G, opt, bid, body, eid, [node(c) for c in els])

    mid = None
    if case["min"] is not None:
        mid = new(f"body under minimumPacketSize {case['min']}")
    top = [node(t) for t in case["top"]]
    if len(names) > MAXBLOCKS:
        raise core.Internal(f"too many blocks in {case!r}")
    return mid, top, names


def guard_values(case):
    vs = set() if case["min"] is None else {case["min"]}

    def walk(nodes):
        for op, G, opt, body, els in nodes:
            vs.add(G)
            walk(body)
            walk(els)
    walk(case["top"])
    return sorted(vs)


def guard_lengths(case):
    ls = {1, 14, 1514}
    for g in guard_values(case):
        ls |= set(range(g - 2, g + 3))
    return sorted(ls)


def shape_of(nodes):
    return "".join("g(" + shape_of(body) + ")" + (
        "e(" + shape_of(els) + ")" if opt == "else" else "")
        for op, G, opt, body, els in nodes)


class GuardProg(Prog):
    """one program with several packet-size guards: case = dict(min=M or None,
    top=[node...]), node = [op, G, opt, [nodes in the with-body], [nodes in
    the Else body]], opt = 'anon' (``with e.packetSize > G:``), 'as'
    (``... as p:``) or 'else' (``... as p:`` followed by ``with p.Else:``).
    Every with-body and Else body first stores MARK into its own slot of the
    output area and then, if the guards around it promise any packet bytes,
    a tag into the last promised byte - through the nearest enclosing ``p``
    (or the arrays minimumPacketSize provides), else through a PacketVar."""

    def __init__(self, case):
        self.case = case
        self.mid, self.top, self.names = annotate(case)
        self.access = {}        # block id -> (offset, tag) the block writes
        # guards (numbered in program order, from 1) right before which the
        # program uses r9 for something else: a guard has to work whatever
        # the registers held before it
        self.clobber = set(case.get("clobber") or ())
        self.gno = 0
        attrs = {}
        if case["min"] is not None:
            attrs["minimumPacketSize"] = case["min"]
        for v in guard_values(case):
            attrs[f"pv{v - 1}"] = PacketVar(v - 1, "B")
        self.build(attrs)

    def emit(self, e):
        if self.mid is not None:
            self.block(e, self.mid, self.case["min"], e, self.top)
            return
        for t in self.top:
            self.node(e, t, 0, None)
        self.raw(0xb7, 0, 0, 0, 2)
        self.raw(0x95, 0, 0, 0, 0)

    def block(self, e, bid, known, acc, nodes):
        """known = the number of packet bytes the guards around promise"""
        self.mark(OUT + 8 * bid)
        if known >= 1:
            off, tag = known - 1, TAG + bid
            self.access[bid] = (off, tag)
            if acc is None:
                setattr(e, f"pv{off}", tag)
            else:
                acc.pB[off] = tag
        for t in nodes:
            self.node(e, t, known, acc)

    def node(self, e, t, known, acc):
        op, G, opt, bid, body, eid, els = t
        self.gno += 1
        if self.gno in self.clobber:
            e.r9 = 0
        cm = {"gt": lambda: e.packetSize > G, "ge": lambda: e.packetSize >= G,
              "lt": lambda: e.packetSize < G, "le": lambda: e.packetSize <= G
              }[op]()
        long_in_body = op in ("gt", "ge")
        kb = max(known, G) if long_in_body else known
        ke = known if long_in_body else max(known, G)
        if opt == "anon":
            with cm:
                self.block(e, bid, kb, acc, body)
            return
        with cm as p:
            self.block(e, bid, kb, p, body)
        if opt == "else":
            with p.Else:
                self.block(e, eid, ke, p, els)


def guard_expect(prog, length, min_runs):
    """the blocks that execute for a packet of this length, in program order:
    a with-body iff its comparison holds for the length, the Else body iff it
    does not (min_runs: whether the minimumPacketSize body executes)"""
    ran = []

    def block(bid, nodes):
        ran.append(bid)
        for t in nodes:
            node(t)

    def node(t):
        op, G, opt, bid, body, eid, els = t
        if CMP[op](length, G):
            block(bid, body)
        elif eid is not None:
            block(eid, els)

    if prog.mid is None:
        for t in prog.top:
            node(t)
    elif min_runs:
        block(prog.mid, prog.top)
    return ran


def run_guard_case(case, seed, res, caseno, kernel_every, only=None):
    M = case["min"]
    cj = dict(family="guards", min=M, top=case["top"])
    if case.get("clobber"):
        cj["clobber"] = list(case["clobber"])
    try:
        p = GuardProg(case)
    except core.Internal:
        raise
    except Exception as e:
        res.count("rejected_by_generator")
        res.outcomes.add("rejected:" + type(e).__name__)
        return
    res.count("programs")
    res.count("guard_programs")
    shape = shape_of(case["top"])
    wanted_kernel = bool(kernel_every) and caseno % kernel_every == 0 \
        and p.real
    use_kernel = wanted_kernel and p.load_kernel()
    if wanted_kernel and not use_kernel:
        res.count("kernel_rejected")
    nb = len(p.names)

    def names(ids):
        return [p.names[i] for i in ids] or ["nothing"]

    def sig(what):
        return core.digest(["guards", what, shape, M is not None,
                            bool(case.get("clobber"))])
    try:
        runs = only or [(length, cid) for length in guard_lengths(case)
                        for cid in GCONTENTS]
        for length, cid in runs:
            pkt0 = content(cid, length, seed)
            pkt = bytearray(pkt0)
            res.count("evaluations")
            rj = dict(cj, length=length, content=cid)
            try:
                ret, area, steps = p.run_vm(pkt, 0)
            except bpfvm.Trap as t:
                res.count("transitions", p.vm.steps)
                reason = str(t)
                if use_kernel and length >= 14:
                    raise core.Internal(
                        f"interpreter traps ({reason}) on a program the "
                        f"kernel accepted: {rj}")
                res.outcomes.add(("guards", "trap", reason.split(":")[0][:40]))
                violation(res, rj, "program runs to completion", reason, None,
                          sig("trap " + reason.split(" at ")[0][:30]),
                          "generated program traps in the interpreter")
                continue
            res.count("transitions", steps)
            if use_kernel and length >= 14:
                kret, kout, karea = p.run_kernel(pkt0, 0)
                res.count("kernel_validated")
                if (kret, bytes(kout), bytes(karea)[OUT:]) != \
                        (ret, bytes(pkt), area[OUT:]):
                    raise core.Internal(
                        f"VM/kernel disagreement on {rj}: vm=({ret}, "
                        f"{bytes(pkt)[:40].hex()}, {area[OUT:].hex()}) "
                        f"kernel=({kret}, {bytes(kout)[:40].hex()}, "
                        f"{bytes(karea)[OUT:].hex()})")
            slots = struct.unpack_from(f"<{MAXBLOCKS}Q", area, OUT)
            if any(s not in (0, MARK) for s in slots) or any(slots[nb:]):
                raise core.Internal(f"unexpected marker slots {slots} in {rj}")
            got = [i for i in range(nb) if slots[i] == MARK]
            min_runs = None
            if M is not None:
                min_runs = p.mid in got
                want = True if length > M else False if length < M else None
                if want is not None and min_runs != want:
                    violation(
                        res, rj, f"body {'runs' if want else 'does not run'} "
                        f"(length {length}, minimumPacketSize {M})",
                        f"body {'ran' if min_runs else 'did not run'}", None,
                        sig("min"), "minimumPacketSize guard")
                    continue
            exp = guard_expect(p, length, min_runs)
            res.outcomes.add(("guards", len(exp), got == sorted(exp)))
            if exp:
                res.count("judged_runs")
                res.nontrivial.add((caseno << 4) | CONTENTS.index(cid))
            if got != sorted(exp):
                violation(res, rj, f"for length {length} exactly these run: "
                          + "; ".join(names(exp)),
                          "ran: " + "; ".join(names(got)), None,
                          sig("bodies"), "which guarded bodies ran")
                continue
            want_pkt = bytearray(pkt0)
            for bid in exp:
                if bid in p.access:
                    off, tag = p.access[bid]
                    if off >= length:
                        raise core.Internal(
                            f"{p.names[bid]} is expected to run on length "
                            f"{length} but writes byte {off}: {rj}")
                    want_pkt[off] = tag
            if bytes(pkt) != bytes(want_pkt):
                violation(res, rj, bytes(want_pkt[:40]).hex(),
                          bytes(pkt[:40]).hex(), None, sig("bytes"),
                          "packet bytes written by the guarded bodies "
                          "(first 40)")
            elif ret != 2:
                violation(res, rj, "return value 2", f"return value {ret}",
                          None, sig("ret"), "return value")
    finally:
        p.close()


def forests(n):
    """all ordered forests with n guards; a tree = (forest in the with-body,
    forest in the Else body)"""
    if n == 0:
        yield []
        return
    for k in range(1, n + 1):
        for t in trees(k):
            for rest in forests(n - k):
                yield [t] + rest


def trees(k):
    for nb in range(k):
        for b in forests(nb):
            for e in forests(k - 1 - nb):
                yield (b, e)


class _Skip(Exception):
    pass


def fill(forest, it):
    out = []
    for body, els in forest:
        op, G, opt = next(it)
        if els and opt != "else":
            raise _Skip
        out.append([op, G, opt, fill(body, it), fill(els, it)])
    return out


def perms(xs):
    if len(xs) <= 1:
        return [tuple(xs)]
    return [(x,) + r for i, x in enumerate(xs)
            for r in perms(xs[:i] + xs[i + 1:])]


def tuples(alphabet, n):
    if n == 0:
        return [()]
    return [(a,) + r for a in alphabet for r in tuples(alphabet, n - 1)]


ALLOPS = ("gt", "ge", "lt", "le")


def guard_family(quick):
    """[(number of guards, guard value tuples, comparison alphabet,
    minimumPacketSize alphabet)]"""
    if quick:
        return [(1, [(16,), (24,)], ALLOPS, [None, GUARD_MIN]),
                (2, [(16, 24), (24, 16), (16, 16)], ALLOPS,
                 [None, GUARD_MIN]),
                (3, [(16, 24, 32)], ("gt", "le"), [None])]
    return [(1, [(16,), (24,)], ALLOPS, [None, GUARD_MIN]),
            (2, [(16, 24), (24, 16), (16, 16), (16, 17), (17, 16)], ALLOPS,
             [None, GUARD_MIN]),
            (3, perms((16, 24, 32)), ALLOPS, [None]),
            (3, [(16, 24, 32), (32, 24, 16)], ("gt", "le"), [GUARD_MIN])]


def guard_cases(quick):
    """every program of the multi-guard family, in a fixed order"""
    out = []
    for n, gsets, ops, mins in guard_family(quick):
        for forest in forests(n):
            for Gs in gsets:
                for opsel in tuples(ops, n):
                    for optsel in tuples(GOPTS, n):
                        try:
                            top = fill(forest, iter(zip(opsel, Gs, optsel)))
                        except _Skip:
                            continue
                        for M in mins:
                            out.append(dict(min=M, top=top))
                            if n > (2 if quick else 3):
                                continue
                            # r9 used for something else before one / all
                            # of the guards
                            for cl in [(k,) for k in range(1, n + 1)] + \
                                    ([tuple(range(1, n + 1))] if n > 1
                                     else []):
                                out.append(dict(min=M, top=top, clobber=cl))
    return out


GUARD_CHUNK = 120


def cases_of(item):
    path, G, fmt, quick, seed = item
    for off in offsets(G, fmt, quick, seed):
        for op in operations(fmt, seed, quick):
            yield (path, G, fmt, off, op)


def work(item, res):
    _stored.clear()
    if item[0] == "guards":
        _, cases, seed, kernel_every, base = item
        for i, case in enumerate(cases):
            run_guard_case(case, seed, res, base + i, kernel_every)
        return
    (path, G, fmt, quick, seed, kernel_every), base = item
    for i, case in enumerate(cases_of((path, G, fmt, quick, seed))):
        run_case(case, plan_for(case, seed, quick), seed, res, base + i,
                 kernel_every)


def formats_for(path):
    if path == "var":
        return [o + c for c in LETTERS for o in ORDERS] + ["x"]
    return list("BHIQ")     # the arrays a Packet offers


def run(ctx):
    items = []
    base = 0
    ke = 11 if ctx.quick else 7
    for path in PATHS:
        for G in (16, 24):
            for fmt in formats_for(path):
                it = (path, G, fmt, ctx.quick, ctx.seed, ke)
                n = sum(1 for _ in cases_of(it[:5]))
                items.append((it, base))
                base += n
    single = base
    gcases = guard_cases(ctx.quick)
    for i in range(0, len(gcases), GUARD_CHUNK):
        items.append(("guards", gcases[i:i + GUARD_CHUNK], ctx.seed, ke,
                      base + i))
    base += len(gcases)
    res = core.pmap(ctx, work, items, chunk=1)
    res.cov["states"] = len(res.nontrivial)
    res.cov["traces_validated_against_impl"] = res.cov.get("evaluations", 0)
    res.cov["kernel_available"] = kern.available()
    res.cov["alphabet"] = dict(
        paths=PATHS, guards=[16, 24], formats=len(formats_for("var")),
        programs_enumerated=base, contents=len(CONTENTS),
        lengths=len(lengths(16)), single_access_programs=single,
        multi_guard_programs=len(gcases),
        multi_guard_family=[
            dict(guards=n, guard_values=[list(g) for g in gs], comparisons=list(
                ops), minimumPacketSize=mins, shapes=sum(1 for _ in forests(n)))
            for n, gs, ops, mins in guard_family(ctx.quick)],
        write_constants={f: len(const_values(f, ctx.seed))
                         for f in ("B", "b", "H", ">h", "I", "<i", "Q", "q",
                                   ">Q", "!q")})
    res.sample(dict(path="var", guard=16, fmt=">h", off=3,
                    op=["rd", "reg", "r"]))
    res.sample(dict(path="le", guard=24, fmt="I", off=20,
                    op=["ip", "+=", "reg", "w"]))
    res.sample(dict(path="var", guard=16, fmt=">Q", off=8,
                    op=["wc", 0x8000000000]))
    res.sample(dict(family="guards", min=None, top=[
        ["gt", 16, "else", [["gt", 24, "anon", [], []]], []]]))
    res.assumptions += [
        "a value read into a destination of n bits must equal the "
        "struct.unpack value modulo 2^n (two's complement); for 32-bit "
        "registers only the low 32 bits are judged",
        "a write is judged against struct.pack only when the source value "
        "(in the source's own signedness) or the in-place result is inside "
        "the format's range; otherwise only the untouched bytes are judged "
        "(counted as outside_precondition)",
        "minimumPacketSize = n: the body must run for length > n and must not "
        "run for length < offset + size; for the lengths in between either is "
        "accepted.  packetSize > >= < <= n: the with-body runs exactly when "
        "the comparison of the packet length with n holds, the Else part "
        "otherwise",
        "programs with several guards: a with-body runs exactly when its "
        "comparison holds for the packet length and control reaches it, its "
        "Else body exactly when the comparison does not hold; a body accesses "
        "only byte n-1 where n is the largest size promised by the guards "
        "around it (packetSize > n and >= n in the with-body, < n and <= n in "
        "the Else body, minimumPacketSize n: n bytes, as documented, although "
        "> n would allow n+1); under minimumPacketSize n the length n itself "
        "may or may not run the body.  Whether the kernel verifier accepts a "
        "program that uses an outer guard's promise after an inner guard "
        "reloaded r9 is not judged (counted as kernel_rejected); in the "
        "'clobber' variants the program assigns 0 to r9 right before one or "
        "all of its guards (the guard statement, not the code before it, is "
        "what makes the packet accessible)",
        "32-bit signed registers (sw) as write sources are C01's subject "
        "(known finding there) and are only judged through the range rule",
        "native byte order and standard sizes are those of this machine "
        "(little endian); '@'/'=' prefixes are not enumerated",
    ]
    return res


def replay(ctx, rep):
    res = core.Result()
    c = rep["case"]
    if c.get("family") == "guards":
        case = dict(min=c["min"], top=c["top"], clobber=c.get("clobber"))
        run_guard_case(case, rep.get("seed", ctx.seed), res, 0, 0,
                       only=[(c["length"], c["content"])])
        try:
            p = GuardProg(case)
            for bid, name in enumerate(p.names):
                print(f"block {bid}: {name}; marker slot {OUT + 8 * bid}; "
                      f"writes {p.access.get(bid)}")
            print(bpfvm.disasm(p.insns))
        except Exception as e:
            print("generator:", repr(e))
        return res.violations
    op = tuple(c["op"])
    case = (c["path"], c["guard"], c["fmt"], c["off"], op)
    run_case(case, [(c["length"], c["content"], c["input"])], rep.get(
        "seed", ctx.seed), res, 0, 0)
    try:
        print(bpfvm.disasm(Prog(case).insns))
    except Exception as e:
        print("generator:", repr(e))
    return res.violations
