"""C20 - a terminal's FMMUs are never shared by two live mappings.

Explicit-state search over sequences of map-read / map-write / unmap
operations, each executed through the real Terminal.map_fmmu context manager
(__aenter__/__aexit__) over the roundtrip stack against the ESC model.  A state
is its operation history (rebuilt by replay); dedup on (slot table, live
mappings, FMMU registers of the model).
"""
import asyncio
import struct

from mc import bussim, core, vloop

from ebpfcat.ebpfcat import SyncGroupBase
from ebpfcat.ethercat import EtherCat, SyncManager, Terminal

PROP = "C20"
LEVEL = "model_checking"
RULE = ("all sequences of map(read) / map(write) / unmap(i-th live mapping) / "
        "at most one end of a mapping by an exception in its body "
        "(cancellation, error) "
        "up to the length bound on terminals with 1..4 FMMUs, logical "
        "addresses starting at 0 or 0x100, at most one (thorough: two) "
        "operations per sequence with an injected bus fault (its first FMMU "
        "register write is not processed) and at most one (two) steps in "
        "which two operations are in flight at once, in both start orders; "
        "non-trivial = "
        "at least two mappings were live at some point; distinct = distinct "
        "canonical state (FMMU registers, live set)")
KF = "C20-write-slot-formula"


def is_faulted(op):
    return op[0] != "par" and len(op) > 2 and bool(op[2])


class World:
    def __init__(self, n_fmmu, base=0x100, sizes=(4, 6)):
        self.base = base
        self.sizes = sizes      # (input bytes, output bytes); 0 is legal
        self.loop = vloop.VLoop()
        self.loop.__enter__()
        self.t = bussim.Terminal("t", station=77, n_fmmu=n_fmmu)
        self.m = bussim.Master(bussim.Bus([self.t]), lambda: EtherCat("sim"),
                               self.loop)
        term = self.term = Terminal(self.m.ec)
        term.position = 77
        term.fmmu_used = [None] * n_fmmu
        term.pdo_in_off, term.pdo_in_sz = 0x1100, sizes[0]
        term.pdo_out_off, term.pdo_out_sz = 0x1000, sizes[1]
        self.live = []      # (logical, write, cm, slot)
        self.counter = 0
        self.everlive = 0
        self.faults = 0
        self.failed = 0     # mappings that ended by an exception
        self.fail_next = False
        orig = self.t.write

        def write(ado, data):
            # injected bus fault: the next write to an FMMU register is not
            # processed by the terminal (working counter stays 0)
            if self.fail_next and 0x600 <= ado < 0x700:
                self.fail_next = False
                return False
            return orig(ado, data)
        self.t.write = write

    def close(self):
        self.loop.shutdown()
        self.loop.__exit__(None, None, None)

    def do(self, op):
        """-> (kind, detail)"""
        if is_faulted(op):
            self.fail_next = True
            self.faults += 1
        try:
            return self._do(op)
        finally:
            self.fail_next = False

    def _start(self, op):
        """start one operation -> (future, completion function)"""
        if op[0] in ("map", "mapsame"):
            self.counter += 1
            logical = self.base + 0x10000 * (self.counter - 1)
            if op[0] == "mapsame":
                # the logical address of a live mapping of the other
                # direction (inputs and outputs at one address, as a
                # combined read/write datagram wants them)
                other = [l for l in self.live if l[1] != op[1]
                         and not any(m[0] == l[0] and m[1] == op[1]
                                     for m in self.live)]
                if other:       # else: like a plain map
                    logical = other[-1][0]
            try:
                cm = self.term.map_fmmu(logical, op[1])
                coro = cm.__aenter__()
            except Exception as e:
                # refused where the mapping was requested
                async def refuse(e=e):
                    raise e
                coro = refuse()
            fut = asyncio.ensure_future(coro)

            def done():
                if fut.exception() is not None:
                    return ("failed", type(fut.exception()).__name__)
                slot = fut.result()
                self.live.append((logical, op[1], cm, slot))
                self.everlive = max(self.everlive, len(self.live))
                return ("mapped", slot)
            return fut, done
        if op[0] == "group":
            # both directions of the terminal through the sync group's own
            # map_fmmu (SyncGroupBase.map_fmmu on a group that knows only
            # its FMMU addresses)
            self.counter += 2
            lo = self.base + 0x10000 * (self.counter - 2)
            li = self.base + 0x10000 * (self.counter - 1)
            group = type("G", (), {})()
            group.fmmu_maps = {self.term: {SyncManager.OUT: lo,
                                           SyncManager.IN: li}}
            cm = SyncGroupBase.map_fmmu(group)
            fut = asyncio.ensure_future(cm.__aenter__())

            def done():
                if fut.exception() is not None:
                    # the group's first mapping was unwound by the
                    # exception: its FMMU is freed, but (as with every
                    # mapping left by an exception) not switched off
                    self.failed += 1
                    return ("failed", type(fut.exception()).__name__)
                self.live.append((lo, True, cm, None))
                self.live.append((li, False, cm, None))
                self.everlive = max(self.everlive, len(self.live))
                return ("mapped", "group")
            return fut, done
        logical, write, cm, slot = self.live[op[1]]
        # a group's two mappings end together
        self.leaving += [l for l in self.live if l[2] is cm]
        if op[0] == "unmapx":
            # the body of the mapping's with-block ends by an exception: the
            # task using it was cancelled, or it failed
            exc = asyncio.CancelledError() if op[2] == "cancel" \
                else RuntimeError("the body failed")
            self.failed += 1

            async def leave():
                try:
                    r = await cm.__aexit__(type(exc), exc, None)
                except BaseException as e:
                    return e is exc
                return not r
            fut = asyncio.ensure_future(leave())

            def done():
                if fut.exception() is not None or not fut.result():
                    return ("unmap raised", "exception of the body lost")
                return ("unmapped", slot)
            return fut, done
        fut = asyncio.ensure_future(cm.__aexit__(None, None, None))

        def done():
            if fut.exception() is not None:
                return ("unmap raised", type(fut.exception()).__name__)
            return ("unmapped", slot)
        return fut, done

    def _do(self, op):
        self.leaving = []
        if op[0] == "par":
            # two operations in flight at once: both are started before
            # the first frame is delivered (their datagrams share a frame)
            started = [self._start(o) for o in op[1:3]]
        else:
            started = [self._start(op)]
        both = asyncio.gather(*[f for f, _ in started],
                              return_exceptions=True)
        hang = not self.m.run(both, max_frames=50)
        for entry in self.leaving:
            self.live.remove(entry)
        if hang:
            return ("hang", None)
        results = [done() for _, done in started]
        if len(results) == 1:
            return results[0]
        bad = [r for r in results if r[0] == "unmap raised"]
        return bad[0] if bad else ("par", tuple(results))

    def fmmu_regs(self):
        out = []
        for i in range(self.t.n_fmmu):
            lstart, length, _, _, pstart, _, typ, act = struct.unpack_from(
                "<IHBBHBBB", self.t.mem, 0x600 + 16 * i)
            out.append((lstart, length, pstart, typ, act & 1))
        return tuple(out)

    def check(self):
        """the invariant; returns None or (expected, observed, what, kf)"""
        regs = self.fmmu_regs()
        slots = []
        for logical, write, cm, slot in self.live:
            off, size = (0x1000, self.sizes[1]) if write \
                else (0x1100, self.sizes[0])
            hit = [i for i, r in enumerate(regs)
                   if r == (logical, size, off, 2 if write else 1, 1)]
            if (self.faults or self.failed) and len(hit) > 1 and slot in hit:
                # an injected fault left an ended mapping's registers
                # behind; they may equal those of a new mapping at the same
                # address: the mapping's own FMMU is the one it was given
                hit = [slot]
            if len(hit) != 1:
                kf = None
                if any(l[1] for l in self.live):
                    kf = KF     # a write mapping is involved
                return ("live mapping %#x (%s) programmed in exactly one "
                        "active FMMU" % (logical, "write" if write else
                                         "read"), dict(regs=regs, hit=hit),
                        "a live mapping lost its FMMU", kf)
            slots.append(hit[0])
        if len(set(slots)) != len(slots):
            return ("distinct FMMUs", slots, "two live mappings share an FMMU",
                    None)
        # the master's slot table: live mappings hold exactly their slots,
        # everything else is free (an ended mapping frees its own FMMU even
        # if the switch-off datagram was not processed)
        table = list(self.term.fmmu_used)
        want = [None] * len(table)
        for (logical, write, cm, slot), at in zip(self.live, slots):
            want[at] = logical
        if table != want:
            return (want, table, "slot table: an ended mapping still holds "
                    "its FMMU / a live one lost it", None)
        active = [i for i, r in enumerate(regs) if r[4]]
        if self.faults == 0 and self.failed == 0 and \
                sorted(active) != sorted(slots):
            return ("only live mappings active: %s" % sorted(slots),
                    active, "an ended mapping's FMMU is still active / a "
                    "foreign one was switched off", KF if any(
                        l[1] for l in self.live) else None)
        return None

    def canon(self):
        return (self.fmmu_regs(),
                tuple((l[1], l[3]) for l in self.live),
                tuple(self.term.fmmu_used), self.faults, self.failed)


def build(conf, hist):
    w = World(*conf)
    results = []
    for op in hist:
        results.append(w.do(op))
    return w, results


def work(conf, res):
    n_fmmu = conf
    # the empty-sync-manager terminals one step less deep
    depth = work.depth - (1 if len(conf) > 2 else 0)
    if work.depth > 5 and conf[0] >= 3:
        # thorough tier: the 3- and 4-FMMU terminals one step less deep
        # (depth 7 with concurrent steps, faults and group mappings takes
        # more than an hour for them)
        depth -= 1
    seen = set()
    frontier = [()]
    w, _ = build(n_fmmu, ())
    seen.add(w.canon())
    w.close()
    while frontier:
        nxt = []
        for hist in frontier:
            w, _ = build(n_fmmu, hist)
            nlive = len(w.live)
            live_keys = [(l[0], l[1]) for l in w.live]
            dup = {j for j, l in enumerate(w.live)
                   if any(m[2] is l[2] for m in w.live[:j])}
            w.close()
            basic = [("map", False), ("map", True)] + \
                [("unmap", j) for j in range(nlive) if j not in dup]
            if not any("group" in str(o) for o in hist):
                basic.append(("group",))    # at most one per sequence
            for wr in (False, True):
                if any(d != wr and (a, wr) not in live_keys
                       for a, d in live_keys):
                    basic.append(("mapsame", wr))
            ops = list(basic)
            if not any(o[0] == "unmapx" for o in hist):
                # at most one mapping per sequence ends by an exception in
                # its body (cancellation of the task, an error)
                ops += [("unmapx", j, how) for j in range(nlive)
                        if j not in dup for how in ("cancel", "error")]
            if sum(1 for o in hist if is_faulted(o)) < work.faults:
                ops += [(o[0], o[1], True) for o in basic
                        if o[0] in ("map", "mapsame")][2:] + \
                    [("map", False, True), ("map", True, True)] + \
                    [("unmap", j, True) for j in range(nlive)
                     if j not in dup]
            if sum(1 for o in hist if o[0] == "par") < work.pars:
                ops += [("par", a, b) for a in basic for b in basic
                        if not (a[0] == b[0] == "unmap" and a[1] == b[1])
                        and not (a[0] == b[0] == "mapsame" and a[1] == b[1])]
            for op in ops:
                h2 = hist + (op,)
                w, results = build(n_fmmu, h2)
                res.count("evaluations")
                res.count("transitions")
                kind, detail = results[-1]
                res.outcomes.add((kind, len(w.live)))
                case = dict(n_fmmu=n_fmmu[0], base=n_fmmu[1], hist=h2)
                if len(n_fmmu) > 2:
                    case["sizes"] = list(n_fmmu[2])
                bad = None
                faulted = is_faulted(op)
                if kind == "hang" or (kind == "unmap raised"
                                      and not faulted):
                    bad = ("operation completes", (kind, detail),
                           "map/unmap did not complete", None)
                elif kind == "unmap raised":
                    bad = w.check()
                elif kind == "mapped":
                    # reference: a mapping succeeds only onto a free FMMU
                    bad = w.check()
                elif kind == "failed":
                    # failing is always allowed by the statement; the
                    # failed attempt must leave the others intact
                    bad = w.check()
                    if bad is None and detail not in ("ValueError",
                                                      "EtherCatError"):
                        pass
                else:
                    bad = w.check()
                k = w.canon()
                ever = w.everlive
                w.close()
                if bad is not None:
                    exp, obs, what, kf = bad
                    res.violation(case, exp, obs, kf=kf,
                                  sig=core.digest([what, str(kf)]), note=what)
                    continue
                if k in seen:
                    continue
                seen.add(k)
                if ever >= 2:
                    res.nontrivial.add(core.digest([list(n_fmmu), k]))
                if len(h2) < depth:
                    nxt.append(h2)
        frontier = nxt
    res.count("states", len(seen))


def run(ctx):
    work.depth = 5 if ctx.quick else 7
    work.faults = 1 if ctx.quick else 2
    work.pars = 1 if ctx.quick else 2
    # base: logical address of the first mapping (0 is a legal one)
    confs = [(n, base) for n in (1, 2, 3, 4) for base in (0, 0x100)]
    # a direction whose sync manager exists but is empty
    confs += [(n, 0x100, sz) for n in (2, 3, 4) for sz in ((0, 6), (4, 0))]
    res = core.pmap(ctx, work, confs, chunk=1)
    res.cov["traces_validated_against_impl"] = res.cov.get("evaluations", 0)
    res.cov["depth"] = work.depth
    res.sample(dict(n_fmmu=3, hist=[["map", True], ["map", True],
                                    ["unmap", 0], ["map", False]]))
    res.assumptions += [
        "a mapping attempt may fail for any reason (the statement only "
        "forbids reusing an FMMU); a failed attempt must not disturb live "
        "mappings",
        "observed through the FMMU registers of the terminal model: a live "
        "mapping must stay programmed (logical start, length, physical "
        "start, type, active) in exactly one FMMU, and only live mappings "
        "may be active"]
    return res


def replay(ctx, rep):
    res = core.Result()
    c = rep["case"]
    def tup(op):
        return tuple(tup(x) if isinstance(x, list) else x for x in op)
    hist = tuple(tup(op) for op in c["hist"])
    conf = (c["n_fmmu"], c.get("base", 0x100))
    if c.get("sizes"):
        conf += (tuple(c["sizes"]),)
    w, results = build(conf, hist)
    for op, r in zip(hist, results):
        print("  ", op, "->", r)
    print("regs", w.fmmu_regs(), "table", w.term.fmmu_used)
    bad = w.check()
    w.close()
    if bad:
        res.violation(c, bad[0], bad[1], kf=bad[3], note=bad[2])
    return res.violations
