"""C01 - integer DSL expressions compute the exact value.

Bounded exhaustive enumeration of expression trees x destinations x boundary
operand vectors.  Each tree is compiled by the real DSL, the assembled bytes
are executed in the independent interpreter (and, for a deterministic subset,
by the kernel through BPF_PROG_TEST_RUN) and the stored result is compared
with exact big-integer arithmetic under the statement's precondition.
"""
import itertools
import operator

from mc import bpfvm, core, dsl, kern
from ebpfcat.ebpf import LocalVar

PROP = "C01"
LEVEL = "model_checking"
RULE = ("programs = expression tree x destination over the stated leaf/operator "
        "alphabet up to the depth bound; each is run on every operand vector "
        "from the boundary alphabet; a case (program, vector) is non-trivial "
        "when the generator accepted the program and the oracle had an "
        "obligation (precondition met, or ring-only tree); distinct = distinct "
        "(tree, destination, vector)")

M64 = (1 << 64) - 1
RING = {"+", "-", "*", "&", "|", "^", "<<", "neg"}
OPS = {"+": operator.add, "-": operator.sub, "*": operator.mul,
       "//": operator.floordiv, "%": operator.mod, "&": operator.and_,
       "|": operator.or_, "^": operator.xor, "<<": operator.lshift,
       ">>": operator.rshift}
REGKIND = {"r": (8, False), "sr": (8, True), "w": (4, False), "sw": (4, True)}
FMT = {"B": (1, False), "b": (1, True), "H": (2, False), "h": (2, True),
       "I": (4, False), "i": (4, True), "Q": (8, False), "q": (8, True)}

KF_DIV = "C01-signed-div-unsigned"
KF_SX = "C01-sw-operand-zero-extended"


def sx(v, bits):
    v &= (1 << bits) - 1
    return v - (1 << bits) if v >> (bits - 1) else v


def leaf_type(leaf):
    k = leaf[0]
    if k == "reg":
        return REGKIND[leaf[1]]
    if k in ("loc", "pkt", "arr", "idx"):
        return FMT[leaf[1]]
    return None


def values_for(size, signed, seed, small=False):
    bits = size * 8
    if signed:
        lo, hi = -(1 << (bits - 1)), (1 << (bits - 1)) - 1
        vs = [0, 1, 2, -1, lo, lo + 1, hi, hi - 1, -7, 0x55 if bits == 8
              else int("55" * size, 16) >> 1, 13]
    else:
        hi = (1 << bits) - 1
        vs = [0, 1, 2, hi, 1 << (bits - 1), (1 << (bits - 1)) - 1, hi - 1,
              7, int("55" * size, 16), 13, 3]
    if small:
        vs = vs[:5] + [vs[7]]
    if bits == 64:
        # the 32-bit boundaries matter as soon as a 4-byte operand makes the
        # narrowest width 32
        vs += [-(1 << 31)] if signed else [(1 << 32) - 1]
    import random
    rnd = random.Random(seed * 1000 + bits + signed)
    for _ in range(1 if small else 2):
        v = rnd.getrandbits(bits)
        vs.append(sx(v, bits) if signed else v)
    out = []
    for v in vs:
        if v not in out:
            out.append(v)
    return out


# --------------------------------------------------------------- the oracle
def leaves_of(tree, out=None):
    if out is None:
        out = []
    if tree[0] in ("reg", "loc", "pkt", "arr", "idx", "const"):
        out.append(tree)
    elif tree[0] in ("neg", "abs"):
        leaves_of(tree[1], out)
    else:
        leaves_of(tree[1], out)
        leaves_of(tree[2], out)
    return out


def tree_ops(tree, out=None):
    if out is None:
        out = set()
    if tree[0] in ("neg", "abs"):
        out.add(tree[0])
        tree_ops(tree[1], out)
    elif tree[0] in OPS:
        out.add(tree[0])
        tree_ops(tree[1], out)
        tree_ops(tree[2], out)
    return out


def pure_unsigned(tree):
    """no signed leaf, no negative constant, no negation/subtraction"""
    if tree[0] == "const":
        return tree[1] >= 0
    if tree[0] in ("reg", "loc", "pkt", "arr", "idx"):
        return not leaf_type(tree)[1]
    if tree[0] in ("neg", "abs"):
        return False
    if tree[0] == ">>":
        # the sign of a right shift's result is that of the shifted value;
        # the type of the (non-negative) shift amount is irrelevant
        return pure_unsigned(tree[1])
    return pure_unsigned(tree[1]) and pure_unsigned(tree[2])


class Outside(Exception):
    """outside the statement's precondition"""


def fits(v, W, unsigned_op):
    """v fits W bits in the signedness of the operation it feeds: an
    operation built purely from unsigned leaves and non-negative constants
    (no negation, no abs) is unsigned, every other one signed"""
    if unsigned_op:
        return 0 <= v < (1 << W)
    return -(1 << (W - 1)) <= v < (1 << (W - 1))


def evaluate(tree, env, W, strict):
    """-> set of acceptable exact values.  strict: enforce the precondition on
    operands of sensitive operations (raise Outside); shifts always need an
    amount in [0, W)."""
    k = tree[0]
    if k == "const":
        return {tree[1]}
    if k in ("reg", "loc", "pkt", "arr", "idx"):
        return {env[tree]}
    if k == "neg":
        return {-v for v in evaluate(tree[1], env, W, strict)}
    if k == "abs":
        vs = evaluate(tree[1], env, W, strict)
        if any(not fits(v, W, False) for v in vs):
            raise Outside("abs operand")
        # abs of the most negative value does not fit
        if any(abs(v) >= (1 << (W - 1)) for v in vs):
            raise Outside("abs result")
        return {abs(v) for v in vs}
    ls = evaluate(tree[1], env, W, strict)
    rs = evaluate(tree[2], env, W, strict)
    out = set()
    if k in ("//", "%", ">>"):
        # strictest reading: an operand must fit W bits in the signedness of
        # its own sub-expression and, for // and %, also in the signedness of
        # the operation (signed as soon as either side is)
        ul, ur = pure_unsigned(tree[1]), pure_unsigned(tree[2])
        for vs, u in ((ls, ul), (rs, ur)):
            for v in vs:
                if not fits(v, W, u) or \
                        (k != ">>" and not fits(v, W, ul and ur)):
                    raise Outside("operand of %s does not fit %d bits"
                                  % (k, W))
    for a in ls:
        for b in rs:
            if k == "+":
                out.add(a + b)
            elif k == "-":
                out.add(a - b)
            elif k == "*":
                out.add(a * b)
            elif k == "&":
                out.add(a & b)
            elif k == "|":
                out.add(a | b)
            elif k == "^":
                out.add(a ^ b)
            elif k == "<<":
                if not 0 <= b < W:
                    raise Outside("shift amount")
                out.add(a << b)
            elif k == ">>":
                if not 0 <= b < W:
                    raise Outside("shift amount")
                out.add(a >> b)
            elif k == "//":
                if b == 0:
                    raise Outside("division by zero")
                q = abs(a) // abs(b)
                out.add(q if (a < 0) == (b < 0) else -q)
                out.add(a // b)
            elif k == "%":
                if b == 0:
                    raise Outside("division by zero")
                m = abs(a) % abs(b)
                out.add(-m if a < 0 else m)
                out.add(a % b)
    return out


def width_of(tree, dest):
    sizes = [leaf_type(l)[0] for l in leaves_of(tree) if l[0] != "const"]
    sizes.append(dest_type(dest)[0])
    return 32 if min(sizes) <= 4 else 64


def dest_type(dest):
    if dest[0] == "reg":
        return REGKIND[dest[1]]
    return FMT[dest[1][-1]]     # a byte-order prefix does not change the type


def unswap(dest, raw):
    """value of a destination whose bytes were read back little-endian"""
    if dest[0] != "reg" and len(dest[1]) > 1 and dest[1][0] in ">!":
        n = FMT[dest[1][-1]][0]
        return int.from_bytes((raw & ((1 << 8 * n) - 1)).to_bytes(n, "little"),
                              "big")
    return raw


def expected(tree, dest, env):
    """-> (set of acceptable stored bit patterns, status)"""
    W = width_of(tree, dest)
    ops = tree_ops(tree)
    ring_only = ops <= RING
    try:
        vals = evaluate(tree, env, W, True)
    except Outside as e:
        return None, "outside: " + str(e)
    dbits = dest_type(dest)[0] * 8
    return {v & ((1 << dbits) - 1) for v in vals}, \
        "ring" if ring_only else "pre"


# --------------------------------------------------------------- programs
class Prog:
    """one compiled (tree, dest); leaf i is planted from input slot i"""
    REGS = [2, 3, 4, 6, 7, 8]

    def __init__(self, tree, dest, alias=None, wide_sw=False):
        self.tree, self.dest, self.alias = tree, dest, alias
        leaves = []
        for l in leaves_of(tree):
            if l[0] != "const" and l not in leaves:
                leaves.append(l)
        self.leaves = leaves
        attrs = {}
        self.names = {}
        for i, l in enumerate(leaves):
            if l[0] == "loc":
                self.names[l] = f"v{i}"
                attrs[f"v{i}"] = LocalVar(l[1])
        if dest[0] == "loc":
            attrs["d"] = LocalVar(dest[1])
        nreg = sum(1 for l in leaves if l[0] == "reg")
        b = self.b = dsl.Builder(attrs, n_in=max(1, len(leaves)),
                                 n_out=1 + nreg)
        e = b.e
        self.regno = {}
        free = list(self.REGS)
        self.pktoff = {}
        self.idxreg = {}
        for i, l in enumerate(leaves):
            if l[0] == "reg":
                no = free.pop(0)
                self.regno[l] = no
                b.plant_reg(no, i, long=REGKIND[l[1]][0] == 8
                            or (wide_sw and l[1] == "sw"))
            elif l[0] == "loc":
                b.plant_local(self.names[l], i)
            elif l[0] == "pkt":
                self.pktoff[l] = 8 * i
                b.plant_mem(9, 8 * i, FMT[l[1]][0], i)
            elif l[0] == "idx":
                # memory at an address computed at run time (base register
                # + offset register): not the register+constant fast path
                no = free.pop()
                self.idxreg[l] = no
                b.plant_mem(9, 8 * i, FMT[l[1]][0], i)
                b.raw(0xb7, no, 0, 0, 8 * i)
                e.owners.add(no)
        expr = self.mk(tree)
        if dest[0] == "reg":
            if alias is not None:
                dno = self.regno[leaves[alias]]
            else:
                dno = 0
            getattr(e, dest[1])[dno] = expr
            b.out_reg(dno, 0)
        elif dest[0] == "loc":
            setattr(e, "d", expr)
            b.out_local("d", 0)
        else:
            getattr(e, "m" + dest[1])[e.r9 + 56] = expr
            b.out_mem(9, 56, FMT[dest[1][-1]][0], 0)
        # the operand registers after the statement (raw reads): an
        # assignment changes its destination only
        self.kept = []      # (input index, 32-bit view?, output slot)
        dreg = dno if dest[0] == "reg" else None
        for i, l in enumerate(leaves):
            if l[0] == "reg" and self.regno[l] != dreg:
                self.kept.append((i, REGKIND[l[1]][0] == 4,
                                  1 + len(self.kept)))
                b.out_reg(self.regno[l], len(self.kept))
        b.finish()
        b.code()

    def mk(self, t):
        e = self.b.e
        k = t[0]
        if k == "const":
            return t[1]
        if k == "reg":
            return getattr(e, t[1])[self.regno[t]]
        if k == "loc":
            return getattr(e, self.names[t])
        if k == "pkt":
            return getattr(e, "m" + t[1])[e.r9 + self.pktoff[t]]
        if k == "idx":
            return getattr(e, "m" + t[1])[e.r9 + e.r[self.idxreg[t]]]
        if k == "neg":
            return -self.mk(t[1])
        if k == "abs":
            return abs(self.mk(t[1]))
        return OPS[k](self.mk(t[1]), self.mk(t[2]))

    def inputs(self, env, sx_sw=False):
        out = []
        for l in self.leaves:
            size, signed = leaf_type(l)
            v = env[l]
            if l[0] == "reg" and size == 4:
                # a 32-bit register view: the only reachable state after a
                # 32-bit write is the zero-extended one
                v = v & 0xffffffff
                if sx_sw and signed:
                    v = sx(v, 32) & M64
            out.append(v & M64)
        return out


def div_sites(insns):
    return [i for i, ins in enumerate(insns)
            if ins is not None and (ins[0] & 7) in (4, 7)
            and (ins[0] & 0xf0) in (0x30, 0x90) and ins[3] == 0]


def patch_signed_div(insns, sites=None):
    """defect model for KF_DIV: execute the DIV/MOD instructions at `sites`
    (default: all of them) as signed"""
    if sites is None:
        sites = div_sites(insns)
    out = list(insns)
    for i in sites:
        ins = out[i]
        out[i] = (ins[0], ins[1], ins[2], 1, ins[4])
    return out


def signed_div_variants(insns):
    """all non-empty subsets of the DIV/MOD sites executed as signed (a
    tree may mix genuinely unsigned divisions with signed ones)"""
    sites = div_sites(insns)
    for n in range(len(sites), 0, -1):
        for sub in itertools.combinations(sites, n):
            yield patch_signed_div(insns, sub)


def patch_sx_moves(insns, swregs):
    """defect model for KF_SX: 32-bit moves out of a signed 32-bit operand
    register sign-extend (the operand itself is planted sign-extended)"""
    out = []
    for ins in insns:
        if ins is not None and ins[0] == 0xbc and ins[2] in swregs \
                and ins[3] == 0:
            ins = (0xbf, ins[1], ins[2], 32, ins[4])
        out.append(ins)
    return out


def has_signed(tree):
    if tree[0] == "const":
        return tree[1] < 0
    if tree[0] in ("reg", "loc", "pkt", "arr", "idx"):
        return leaf_type(tree)[1]
    if tree[0] == "neg":
        return True
    if tree[0] == "abs":
        return has_signed(tree[1])
    return has_signed(tree[1]) or has_signed(tree[2])


def run_case(tree, dest, alias, vectors, res, kernel_every=0, caseno=0):
    case = dict(tree=tree, dest=dest, alias=alias)
    try:
        p = Prog(tree, dest, alias)
    except Exception as e:
        res.count("rejected_by_generator")
        res.outcomes.add("rejected:" + type(e).__name__)
        return
    res.count("programs")
    dbits = dest_type(dest)[0] * 8
    dmask = (1 << dbits) - 1
    kfd = None
    if kernel_every and caseno % kernel_every == 0 and kern.available():
        try:
            kfd = p.b.load_kernel()
        except kern.LoadError:
            res.count("kernel_rejected")
    for env in vectors(p.leaves):
        res.count("evaluations")
        exp, status = expected(tree, dest, env)
        try:
            _, outs, _, vm = p.b.run_vm(p.inputs(env))
            obs = unswap(dest, outs[0]) & dmask
            trap = None
        except bpfvm.Trap as t:
            obs, trap = None, str(t)
        if kfd is not None and trap is None:
            res.count("kernel_validated")
            _, kouts, _ = p.b.run_kernel(kfd, p.inputs(env))
            if unswap(dest, kouts[0]) & dmask != obs:
                import os
                os.close(kfd)
                raise core.Internal(
                    f"VM/kernel disagreement on {case} env={env}: "
                    f"vm={obs:#x} kernel={kouts[0] & dmask:#x}")
        if trap is None:
            # operands are only read (inside and outside the precondition)
            inp = p.inputs(env)
            for i, narrow, slot in p.kept:
                m = 0xffffffff if narrow else M64
                if outs[slot] & m != inp[i] & m:
                    res.outcomes.add("operand register changed")
                    res.violation(
                        dict(case, env=envj(env), operand=list(p.leaves[i])),
                        f"operand register still holds {inp[i] & m:#x}",
                        hex(outs[slot] & m),
                        sig=core.digest(["clobber", shape(tree)[0],
                                         p.leaves[i], dest[0]]),
                        note="the statement changed an operand register")
                    break
        if trap is not None and exp is None:
            res.count("outside_precondition")
            res.outcomes.add("trap outside precondition")
            continue
        if trap is not None:
            res.violation(dict(case, env=envj(env)), "program runs", trap,
                          sig=core.digest(["trap", trap.split(" at ")[0]]),
                          note="generated program traps")
            continue
        if exp is None:
            res.count("outside_precondition")
            continue
        res.count("checked_" + status)
        res.nontrivial.add(core.digest([tree, dest, alias, envj(env)]))
        if obs in exp:
            res.outcomes.add(("ok", status))
            continue
        # ---- a wrong value: is it exactly one of the documented defects?
        kf = None
        if has_signed(tree) and tree_ops(tree) & {"//", "%"}:
            for variant in signed_div_variants(p.b._decoded):
                vm2 = bpfvm.VM(bpfvm.Kernel(), variant,
                               p.b.packet(p.inputs(env)))
                try:
                    vm2.run()
                    if unswap(dest, p.b.outputs(vm2.packet)[0]) & dmask \
                            in exp:
                        kf = KF_DIV
                        break
                except bpfvm.Trap:
                    pass
        if kf is None and any(l[0] == "reg" and l[1] == "sw" and env[l] < 0
                              for l in p.leaves):
            try:
                p2 = Prog(tree, dest, alias, wide_sw=True)
                swregs = {p2.regno[l] for l in p2.leaves
                          if l[0] == "reg" and l[1] == "sw"}
                ins2 = patch_sx_moves(p2.b._decoded, swregs)
                cands = [(KF_SX, ins2)] + [
                    ([KF_DIV, KF_SX], v) for v in signed_div_variants(ins2)]
                for kfc, ins in cands:
                    vm2 = bpfvm.VM(bpfvm.Kernel(), ins,
                                   p2.b.packet(p2.inputs(env, sx_sw=True)))
                    vm2.run()
                    if unswap(dest, p2.b.outputs(vm2.packet)[0]) & dmask \
                            in exp:
                        kf = kfc
                        break
            except bpfvm.Trap:
                pass
        res.outcomes.add(("wrong", str(kf)))
        res.violation(dict(case, env=envj(env)),
                      sorted(hex(v) for v in exp), hex(obs), kf=kf,
                      sig=core.digest([shape(tree), dest, str(kf)]),
                      note=f"wrong value ({status})")
    if kfd is not None:
        import os
        os.close(kfd)


def shape(tree):
    if tree[0] == "const":
        return ("const", "neg" if tree[1] < 0 else "big" if tree[1] >= 2 ** 31
                else "small")
    if tree[0] in ("reg", "loc", "pkt", "arr", "idx"):
        return tree
    return (tree[0],) + tuple(shape(t) for t in tree[1:])


def envj(env):
    return [[list(k), v] for k, v in env.items()]


# --------------------------------------------------------------- alphabets
def vector_fn(seed, small):
    def vectors(leaves):
        doms = [values_for(*leaf_type(l), seed, small) for l in leaves]
        for combo in itertools.product(*doms):
            yield dict(zip(leaves, combo))
    return vectors


def alphabet(ctx):
    if ctx.quick:
        leaves = [("reg", k) for k in ("r", "sr", "w", "sw")] + \
            [("loc", f) for f in "BhiQq"] + [("pkt", "H"), ("idx", "h")]
        consts = [1, -1, 7, 1 << 31, 0x1234567890, -(1 << 63)]
        dests = [("reg", "r"), ("reg", "sr"), ("reg", "w"), ("reg", "sw"),
                 ("loc", "h"), ("loc", "I"), ("loc", "q"), ("loc", "B"),
                 ("loc", ">q"), ("loc", "<i")]
    else:
        leaves = [("reg", k) for k in ("r", "sr", "w", "sw")] + \
            [("loc", f) for f in "BbHhIiQq"] + \
            [("pkt", f) for f in "bHiQ"] + [("idx", f) for f in "bhiQ"]
        consts = [0, 1, -1, 7, (1 << 31) - 1, -(1 << 31), 1 << 31,
                  (1 << 32) - 1, 0x1234567890, (1 << 63) - 1, -(1 << 63),
                  (1 << 64) - 1, 31, 63]
        dests = [("reg", k) for k in ("r", "sr", "w", "sw")] + \
            [("loc", f) for f in "BbHhIiQq"] + [("pkt", "H"), ("pkt", "q")] + \
            [("loc", f) for f in (">q", "<q", "!Q", ">i", "<h", ">H")]
    import random
    rnd = random.Random(ctx.seed)
    consts += [rnd.getrandbits(64) - (1 << 63), rnd.getrandbits(31)]
    return leaves, consts, dests


def work(item, res):
    kind, payload, seed, quick, kernel_every = item
    vec = vector_fn(seed, quick)
    if kind == "d1":
        lt, rt, dests = payload
        n = 0
        for op in OPS:
            for dest in dests:
                aliases = [None]
                if dest[0] == "reg":
                    # destination register = an operand register
                    if lt == ("reg", dest[1]):
                        aliases.append(0)
                    if rt == ("reg", dest[1]) and lt != rt:
                        aliases.append(1 if lt[0] != "const" else 0)
                for alias in aliases:
                    n += 1
                    run_case((op, lt, rt), dest, alias, vec, res,
                             kernel_every, n)
    elif kind == "un":
        lt, dests = payload
        for u in ("neg", "abs"):
            for dest in dests:
                run_case((u, lt), dest, None, vec, res, kernel_every, 1)
    elif kind == "un2":
        # a unary operator below / above one binary operator: the type the
        # unary result carries decides how the binary operator is generated
        a, b, dests = payload
        vec2 = vector_fn(seed, True)
        n = 0
        for u in ("neg", "abs"):
            for op in OPS:
                for dest in dests:
                    trees = [(op, (u, a), b), (u, (op, a, b))]
                    if b[0] != "const":
                        trees.append((op, a, (u, b)))
                    for tree in trees:
                        n += 1
                        run_case(tree, dest, None, vec2, res, kernel_every, n)
    elif kind == "d2":
        a, b, c, ops, dests = payload
        vec2 = vector_fn(seed, True)
        n = 0
        for op1 in ops:
            for op2 in OPS:
                for dest in dests:
                    for tree in ((op2, (op1, a, b), c), (op1, a, (op2, b, c))):
                        n += 1
                        run_case(tree, dest, None, vec2, res, kernel_every, n)
                        # the destination register is an operand that
                        # occurs on both sides of the outer operator
                        if dest[0] == "reg":
                            ls = [l for l in leaves_of(tree)
                                  if l[0] != "const"]
                            uniq = []
                            for l in ls:
                                if l not in uniq:
                                    uniq.append(l)
                            for i, l in enumerate(uniq):
                                if l == ("reg", dest[1]) and ls.count(l) > 1:
                                    n += 1
                                    run_case(tree, dest, i, vec2, res,
                                             kernel_every, n)
    elif kind == "big":
        # unsigned constants with bit 63 set stay unsigned (logical shifts)
        big, leaf, dests = payload
        vec2 = vector_fn(seed, True)
        n = 0
        for op in ("|", "+", "&", "^", "-"):
            for sh in (1, 4, 63):
                for dest in dests:
                    for tree in ((">>", (op, leaf, ("const", big)),
                                  ("const", sh)),
                                 (">>", (op, ("const", big), leaf),
                                  ("const", sh))):
                        n += 1
                        run_case(tree, dest, None, vec2, res, kernel_every, n)
        for dest in dests:
            run_case((">>", ("const", big), leaf), dest, None, vec2, res,
                     kernel_every, 1)
            run_case(("//", ("const", big), leaf), dest, None, vec2, res,
                     kernel_every, 2)
    elif kind == "chain":
        ops, kinds, right, dest = payload
        leaves = [("reg", k) for k in kinds]
        # distinct leaves need distinct identities: tag by position
        leaves = [(l[0], l[1], i) for i, l in enumerate(leaves)]
        if right:
            tree = leaves[-1]
            for op, l in zip(reversed(ops), reversed(leaves[:-1])):
                tree = (op, l, tree)
        else:
            tree = leaves[0]
            for op, l in zip(ops, leaves[1:]):
                tree = (op, tree, l)

        def vecs(ls):
            for vals in ((1, 2, 3, 4, 5, 6), (-1, 7, -3, 2, 9, -5),
                         (0x7fffffff, -0x80000000, 3, 1, 2, 5)):
                yield {l: (v & 0xffffffff if not REGKIND[l[1]][1] and v < 0
                           else v) for l, v in zip(ls, vals)}
        run_case(tree, dest, None, vecs, res, kernel_every, 1)


def run(ctx):
    leaves, consts, dests = alphabet(ctx)
    cl = [("const", c) for c in consts]
    ke = 7 if ctx.quick else 5
    items = []
    for lt in leaves + cl:
        for rt in leaves + cl:
            if lt[0] == "const" and rt[0] == "const":
                continue
            if lt == rt and lt[0] != "const":
                # same leaf twice = one operand used on both sides
                pass
            items.append(("d1", (lt, rt, dests), ctx.seed, ctx.quick, ke))
    for lt in leaves:
        items.append(("un", (lt, dests), ctx.seed, ctx.quick, ke))
    # unary operators combined with one binary operator
    if ctx.quick:
        ul = [("reg", "r"), ("reg", "w"), ("loc", "I"), ("loc", "h"),
              ("reg", "sr")]
        ur = ul + [("const", 2), ("const", -3)]
        ud = [("reg", "sr"), ("loc", "i"), ("loc", "q"), ("loc", "H")]
    else:
        ul = [("reg", k) for k in ("r", "sr", "w", "sw")] + \
            [("loc", f) for f in "BhIiQq"] + [("pkt", "H")]
        ur = ul + [("const", c) for c in (2, -3, 31, 1 << 31)]
        ud = [("reg", "r"), ("reg", "sr"), ("reg", "sw"), ("loc", "i"),
              ("loc", "q"), ("loc", "H"), ("loc", "Q")]
    for a in ul:
        for b in ur:
            items.append(("un2", (a, b, ud), ctx.seed, ctx.quick, ke))
    # depth 2
    if ctx.quick:
        l2 = [("reg", "r"), ("reg", "sw"), ("loc", "h"), ("const", 3),
              ("reg", "sr")]
        d2 = [("reg", "sr"), ("loc", "i")]
        ops1 = ["+", "//", ">>", "*"]
    else:
        l2 = [("reg", "r"), ("reg", "sw"), ("reg", "w"), ("loc", "h"),
              ("loc", "Q"), ("const", 3), ("const", -2), ("reg", "sr")]
        d2 = [("reg", "r"), ("reg", "sw"), ("loc", "q")]
        ops1 = list(OPS)
    for a, b, c in itertools.product(l2, repeat=3):
        if all(x[0] == "const" for x in (a, b, c)):
            continue
        for op1 in ops1:
            items.append(("d2", (a, b, c, [op1], d2), ctx.seed, ctx.quick, ke))
    for big in (1 << 63, (1 << 64) - 256, (1 << 64) - 1, (1 << 63) + 5):
        for leaf in (("reg", "r"), ("loc", "Q")):
            items.append(("big", (big, leaf, [("reg", "r"), ("loc", "q")]),
                          ctx.seed, ctx.quick, ke))
    # register chains (allocator exhaustion)
    for n in range(3, 7 if ctx.quick else 7):
        for right in (False, True):
            for opsel in (("+",) * 5, ("*", "-", "^", "+", "|"),
                          ("-", "//", "+", ">>", "*")):
                for kinds in (("r",) * 6, ("sr", "w", "sw", "r", "sr", "w")):
                    for dest in (("reg", "r"), ("reg", "sw")):
                        items.append(("chain", (opsel[:n - 1], kinds[:n], right,
                                                dest), ctx.seed, ctx.quick, 1))
    res = core.pmap(ctx, work, items, chunk=4)
    res.cov["states"] = len(res.nontrivial)
    res.cov["transitions"] = res.cov.get("evaluations", 0)
    res.cov["traces_validated_against_impl"] = res.cov.get("evaluations", 0)
    res.cov["kernel_available"] = kern.available()
    res.cov["alphabet"] = dict(leaves=len(leaves), constants=len(consts),
                               dests=len(dests), depth2_leaves=len(l2))
    res.sample(dict(tree=["//", ["reg", "sr"], ["const", 7]],
                    dest=["loc", "h"]))
    res.assumptions += [
        "constants do not count as sized operands when the narrowest width "
        "W is determined; an operand of // % >> 'fits W' when it is in the "
        "signed W-bit range, or in the unsigned W-bit range if the whole "
        "operation is built from unsigned leaves and non-negative constants "
        "without negation (strictest reading of the statement)",
        "32-bit register operands are planted zero-extended (the only state "
        "a 32-bit write leaves behind)",
        "shift amounts outside [0, W) are outside the precondition for << too"]
    return res


def replay(ctx, rep):
    res = core.Result()
    c = rep["case"]

    def tup(x):
        return tuple(tup(y) for y in x) if isinstance(x, list) else x
    tree, dest = tup(c["tree"]), tup(c["dest"])
    env = {tup(k): v for k, v in c["env"]}
    run_case(tree, dest, c["alias"], lambda ls: [env], res)
    p = Prog(tree, dest, c["alias"])
    print(bpfvm.disasm(p.b._decoded))
    return res.violations
