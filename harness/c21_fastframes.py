"""C21 - fast-group frames only write outputs computed in the same pass.

Thin: runs the dispatcher explorer of harness/c22_dispatcher.py (same state
space, same real bytecode) and reports the C21 invariant set: frames leave
user space sterile; re-activation touches exactly the writer command bytes,
zeroes exactly their working counters, counts exactly the mismatching ones,
all only in a pass that ran the group program with output enabled; nothing is
returned to the bus with an enabled writer unless processed in that pass.
"""
from harness import c22_dispatcher as _x

PROP = "C21"
LEVEL = _x.LEVEL
RULE = _x.RULE + ("; C21 judges every distinct dispatcher+group step of that "
                  "space (frame before/after, wkc_errors, device run marker)")


def run(ctx):
    return _x.run_for(ctx, PROP)


def replay(ctx, rep):
    return _x.replay_for(ctx, rep, PROP)
