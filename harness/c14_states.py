"""C14 - state changes walk the EtherCAT state machine in order.

The real Terminal.to_operational / get_state run through the real roundtrip
stack on the virtual loop against the ESC model; the explorer decides at
every AL-status poll whether the pending transition stays, is reached, or
fails.  The observed AL control writes and AL status reads are judged by a
reference automaton written from the property statement.

Three families:

single  one to_operational call on a fresh Terminal object (start state x
        error flag x target x every terminal behaviour); judged by the
        sequential reference automaton `judge`.
shared  two and three users of ONE Terminal object at the same time (a
        terminal shared by several sync groups, a tool that wants PRE-OP
        while a sync group goes to OP): every user is a to_operational
        call with its own target or a plain get_state; the later users
        start together with the first one or after d frames of it.  Judged
        by `judge_shared`: per user (its call ends only after a status
        read inside its life time reported what the statement demands for
        ITS target) and for the terminal as a whole (the AL control writes
        of all walkers together still walk the machine in order).
bits    the first two families again with terminals whose AL status word
        (register 0x130, 16 bits) carries further bits next to the state
        (bits 0..3) and the error indicator (bit 4): bit 5 "device
        identification loaded" and the reserved / vendor bits 6..15.  The
        word on the wire is  state | 0x10 if error | extra ; `extra` is one
        value for the whole history or changes once, after the n-th status
        read.  The oracle does not know about the extra bits: the judges see
        state and error flag only (t.al_log), so the AL control writes and
        the outcome have to be exactly those of the same history with
        extra = 0.
"""
import asyncio
import itertools

from mc import bussim, core, explore, vloop

from ebpfcat.ethercat import EtherCat, EtherCatError, MachineState, Terminal

PROP = "C14"
LEVEL = "model_checking"
RULE = ("single: start state x error flag x target x every terminal "
        "behaviour (per poll: stay / reach / error; latency <= k polls per "
        "transition; at most one injected error).  shared: the same start "
        "states and terminal behaviours with two and three concurrent users "
        "of ONE Terminal object, each user in {to_operational(PRE-OP), "
        "(SAFE-OP), (OP), get_state}, every combination, later users started "
        "together with the first or after d frames of it (every d up to the "
        "bound).  bits: both families with further bits (5..15) in the AL "
        "status word, constant or changing once after the n-th status read; "
        "judged on state and error flag alone.  non-trivial = at least one AL control write happened; "
        "distinct = distinct (configuration, behaviour)")

STATES = [1, 2, 4, 8]
TARGETS = [2, 4, 8]
USERS = [2, 4, 8, 0]        # shared family: a target, or 0 = get_state user
INITIAL_CODE = 0x1b         # AL status code of an error present at the start
KF_HANG = "C14-shared-walker-waits-for-exact-state"
MODEL_BOUND = 2
NO_BITS = (0, 0, 0)         # extra status bits: (a, b, n) = a for the first
                            # n AL status reads of the history, b afterwards


class StatusBitsTerminal(bussim.Terminal):
    """the bus model's terminal; the AL status word it puts on the wire has
    `al_extra` or-ed in.  t.al_log keeps state | error flag (what the
    judges read), t.al_words what went over the wire."""

    def __init__(self, *args, extra=NO_BITS, **kwargs):
        super().__init__(*args, **kwargs)
        a, b, n = extra
        if (a | b) & ~0xffe0 or n < 0:
            raise core.Internal("extra status bits %r overlap the state or "
                                "the error indicator" % (extra,))
        self.al_extra = extra
        self.al_words = []

    def _al_status(self):
        v = super()._al_status()
        a, b, n = self.al_extra
        w = v | (a if len(self.al_words) < n else b)
        self.al_words.append(w)
        return w


def check_words(t):
    """harness self-test: the judges' view is the wire view without the
    extra bits"""
    seen = [v for kind, v in t.al_log if kind == "status"]
    if seen != [w & 0x1f for w in t.al_words] or any(v & ~0x1f for v in seen):
        raise core.Internal("AL status log and words on the wire disagree")


def make_poll(ch, k, max_errors):
    stays = [0]
    injected = [0]

    def poll(term):
        opts = ["reach"]
        if stays[0] < k:
            opts.append("stay")
        if injected[0] < max_errors:
            opts.append("error")
        a = opts[ch.choose(len(opts), "poll")]
        if a == "stay":
            stays[0] += 1
        else:
            stays[0] = 0
        if a == "error":
            injected[0] += 1
        return a
    return poll


def execute(ch, conf, k, max_errors=1, extra=NO_BITS):
    start, err, target = conf
    loop = vloop.VLoop()
    with loop:
        t = StatusBitsTerminal("t", station=1234, extra=extra)
        t.al_state = start
        t.al_error = err
        t.al_poll = make_poll(ch, k, max_errors)
        bus = bussim.Bus([t])
        m = bussim.Master(bus, lambda: EtherCat("sim"), loop)
        term = Terminal(m.ec)
        term.position = 1234
        fut = asyncio.ensure_future(
            term.to_operational(MachineState(target)))
        finished = m.run(fut, max_frames=400)
        if not finished:
            out = ("pending",)
        elif fut.exception() is not None:
            out = ("raise", type(fut.exception()).__name__)
        else:
            out = ("return",)
        log = list(t.al_log)
        check_words(t)
        words = list(t.al_words)
        loop.shutdown()
    return dict(log=log, out=out, words=words)


def judge(conf, obs):
    """reference automaton; returns None or (expected, observed, what)"""
    start, err, target = conf
    log, out = obs["log"], obs["out"]
    if not log or log[0] != ("status", start | (0x10 if err else 0)):
        return ("first action: AL status read", log[:1], "no initial read")
    i = 1
    cur = start
    acked = False
    if err:
        if i >= len(log) or log[i] != ("ctl", 0x11):
            return (("ctl", 0x11), log[i:i + 1],
                    "reported error not acknowledged with INIT|ack first")
        i += 1
        cur = 1
        acked = True
    plan = [s for s in (2, 4, 8) if cur < s <= target]
    for s in plan:
        if i >= len(log):
            return (("ctl", s), out, "stopped before requesting %d" % s)
        if log[i] != ("ctl", s):
            return (("ctl", s), log[i], "wrong request (expected next "
                    "state in order, one step at a time)")
        i += 1
        while True:
            if i >= len(log):
                if out == ("pending",):
                    return ("terminates", out, "does not terminate")
                return ("status read reporting %d before going on" % s,
                        out, "returned/raised without the requested state "
                        "having been reported")
            kind, v = log[i]
            i += 1
            if kind != "status":
                return (("status",), (kind, v),
                        "new request before the previous state was reported")
            if v & 0x10:
                rest = [e for e in log[i:] if e[0] == "ctl"]
                if out[0] != "raise" or out[1] != "EtherCatError":
                    return (("raise", "EtherCatError"), out,
                            "error reported while changing state, but no "
                            "EtherCatError raised")
                if rest:
                    return ("no further requests", rest,
                            "requests continue after an error")
                return None
            if v & 0xf == s:
                break
    rest = [e for e in log[i:] if e[0] == "ctl"]
    if rest:
        return ("no request above the target / no further request", rest,
                "superfluous AL control write")
    if out != ("return",):
        return (("return",), out, "did not return after reaching the target")
    return None


# ---------------------------------------------------------------- shared
def frame_bound(users, k):
    """more frames than all walks one after the other could ever need"""
    return max(d for _, d in users) + len(users) * (2 + 3 * (k + 2)) + 8


def execute_shared(ch, conf, k, max_errors=1, serialise=False,
                   extra=NO_BITS):
    """users = ((target or 0, delay), ...): user i starts once `delay`
    frames went round (or nothing is in flight any more); delay 0 = together
    with the first.  serialise=True is the defect model of KF_HANG: the
    walks are put one after the other by a lock the harness holds."""
    start, err, users = conf
    loop = vloop.VLoop()
    with loop:
        t = StatusBitsTerminal("t", station=1234, extra=extra)
        t.al_state = start
        t.al_error = err
        t.al_code = INITIAL_CODE if err else 0
        t.al_poll = make_poll(ch, k, max_errors)
        bus = bussim.Bus([t])
        m = bussim.Master(bus, lambda: EtherCat("sim"), loop)
        term = Terminal(m.ec)
        term.position = 1234
        n = len(users)
        futs = [None] * n
        marks = [None] * n
        ends = [None] * n
        ops = [[] for _ in range(n)]
        who = {}
        lock = asyncio.Lock()
        frame_of = []       # frame number of every entry of t.al_log
        deliver = m.deliver

        def counting_deliver(i=0):
            deliver(i)
            frame_of.extend([m.frames] * (len(t.al_log) - len(frame_of)))
        m.deliver = counting_deliver

        # observation only (feeds the defect model, not the oracle): which
        # user's task issued which AL access
        real = m.ec.roundtrip

        async def roundtrip(cmd, pos, offset, *args, **kwargs):
            ret = await real(cmd, pos, offset, *args, **kwargs)
            i = who.get(asyncio.current_task())
            if i is not None:
                if offset == 0x0120:
                    ops[i].append(("ctl", args[-1]))
                elif offset == 0x0130:
                    ops[i].append(("status", ret[0] & 0x1f))
            return ret
        m.ec.roundtrip = roundtrip

        async def locked(target):
            async with lock:
                return await term.to_operational(MachineState(target))

        def done(i):
            def cb(fut):
                ends[i] = len(t.al_log)
            return cb

        def start_due(idle=None):
            did = False
            for i, (target, delay) in enumerate(users):
                if futs[i] is None and (
                        m.frames >= delay
                        or idle is not None and not m.transport.inflight):
                    marks[i] = len(t.al_log)
                    if not target:
                        co = term.get_state()
                    elif serialise:
                        co = locked(target)
                    else:
                        co = term.to_operational(MachineState(target))
                    futs[i] = asyncio.ensure_future(co)
                    who[futs[i]] = i
                    futs[i].add_done_callback(done(i))
                    did = True
            return did

        class All:
            @staticmethod
            def done():
                return all(f is not None and f.done() for f in futs)
        start_due()
        m.run(All, max_frames=frame_bound(users, k), on_idle=start_due)
        out = []
        for i, f in enumerate(futs):
            if f is None:
                raise core.Internal("user %d was never started" % i)
            if not f.done():
                o = dict(out=("pending",), result=None)
            elif f.exception() is not None:
                o = dict(out=("raise", type(f.exception()).__name__),
                         result=None)
            else:
                r = f.result()
                o = dict(out=("return",),
                         result=None if r is None
                         else [r[0].value, bool(r[1]), r[2]])
            if ends[i] is None:
                ends[i] = len(t.al_log)
            o.update(mark=marks[i], end=ends[i], ops=ops[i])
            out.append(o)
        log = list(t.al_log)
        check_words(t)
        words = list(t.al_words)
        pending = t.al_requested
        loop.shutdown()
    return dict(log=log, users=out, requested=pending, frames=frame_of,
                words=words)


def status_codes(conf, log):
    """AL status code the model shows along with every status entry"""
    start, err, users = conf
    code = INITIAL_CODE if err else 0
    flag = err
    out = {}
    for i, (kind, v) in enumerate(log):
        if kind == "ctl":
            if v & 0x10:
                code, flag = 0, False
        else:
            if v & 0x10 and not flag:
                code, flag = 0x11, True
            out[i] = code if v & 0x10 else 0
    return out


def judge_shared(conf, obs):
    """-> list of (user or None, expected, observed, what)"""
    start, err, users = conf
    log = obs["log"]
    bad = []
    # ---- the terminal as a whole
    frames = obs["frames"]
    n = len(users)
    errs = acks = 0
    for i, (kind, v) in enumerate(log):
        if kind == "status":
            if v & 0x10:
                errs += 1
            continue
        if not any(e[0] == "status" for e in log[:i]):
            bad.append((None, "first action: AL status read", (kind, v),
                        "AL control write before any AL status read"))
            break
        if v == 0x11:
            acks += 1
            if acks > errs:
                bad.append((None, "acknowledge only a reported error",
                            [i, (kind, v)],
                            "acknowledge without a reported error"))
                break
            continue
        if v not in (2, 4, 8):
            bad.append((None, "request PRE-OP, SAFE-OP or OP", [i, (kind, v)],
                        "wrong request (not a state of the walk)"))
            break
        if err and not acks:
            bad.append((None, ("ctl", 0x11), [i, (kind, v)],
                        "reported error not acknowledged with INIT|ack "
                        "first"))
            break
        # the writer decided at most n frames ago (n users, each with one
        # datagram under way): in that window there must be what entitles
        # a walker to this request - a read of the state just below it
        # without error, or (for PRE-OP) an acknowledge
        window = [log[j] for j in range(i) if frames[j] >= frames[i] - n]
        below = {2: 1, 4: 2, 8: 4}[v]
        if not (("status", below) in window
                or v == 2 and ("ctl", 0x11) in window):
            bad.append((None, "a status read reporting %d without error%s in "
                        "the last %d frames" % (
                            below, " or an acknowledge" if v == 2 else "", n),
                        [i, (kind, v), window],
                        "wrong request (not the state after one that was "
                        "just reported: skipped, early or going back)"))
            break
        top = max([tg for (tg, d), u in zip(users, obs["users"])
                   if u["mark"] <= i] or [0])
        if v > top:
            bad.append((None, "no request above the highest target asked "
                        "for so far (%d)" % top, [i, (kind, v)],
                        "request above the target"))
            break
    # ---- every user
    codes = status_codes(conf, log)
    for no, ((target, delay), u) in enumerate(zip(users, obs["users"])):
        win = range(u["mark"], u["end"])
        ack = max([i for i in win if log[i] == ("ctl", 0x11)] or [-1])
        reads = [(i, log[i][1]) for i in win if log[i][0] == "status"]
        reached = [i for i, v in reads
                   if target and i > ack and not v & 0x10
                   and v & 0xf >= target]
        errors = [i for i, v in reads if v & 0x10]
        out = u["out"]
        if out[0] == "raise":
            if not target or out[1] != "EtherCatError":
                bad.append((no, "no exception other than EtherCatError",
                            out, "unexpected exception"))
            elif not errors:
                bad.append((no, "raise only after a status read with the "
                            "error flag", out, "EtherCatError without a "
                            "reported error"))
        elif out[0] == "return":
            seen = [[v & 0xf, bool(v & 0x10), codes[i]] for i, v in reads]
            if not target and u["result"] not in seen:
                bad.append((no, "one of the status reads of its life time: "
                            "%r" % seen, u["result"],
                            "get_state: returned state/error/code was never "
                            "reported"))
            if target and not reached:
                bad.append((no, "a status read reporting a state >= %d "
                            "without error (after the last acknowledge) "
                            "before the call returns" % target,
                            [v for i, v in reads],
                            "returned before the terminal reported a state "
                            "at or above the caller's target"))
        elif out[0] == "pending":
            tail = [v for i, v in reads][-3:]
            if not target:
                bad.append((no, ("return",), out, "get_state does not end"))
            elif errors and errors[-1] > ack:
                bad.append((no, ("raise", "EtherCatError"), out,
                            "error reported while changing state, but no "
                            "EtherCatError raised"))
            elif reached and obs["requested"] is None \
                    and all(not v & 0x10 and v & 0xf >= target for v in tail):
                bad.append((no, ("return",), out, "does not terminate "
                            "although the terminal keeps reporting a state "
                            "at or above the caller's target"))
    return bad


def hang_model(obs, no):
    """defect model of KF_HANG, on the accesses of the pending user itself:
    its last request was s, the terminal never showed exactly s to it
    afterwards but showed a higher state without error, and another walker
    wrote to AL control while this one was under way"""
    ops = obs["users"][no]["ops"]
    w = [i for i, (kind, v) in enumerate(ops) if kind == "ctl"]
    if not w or ops[w[-1]][1] not in (2, 4):
        return False
    s = ops[w[-1]][1]
    after = [v for kind, v in ops[w[-1] + 1:]]
    if not after or any(v & 0x10 or v & 0xf == s for v in after):
        return False
    if not any(v & 0xf > s for v in after):
        return False
    mine = len(w)
    u = obs["users"][no]
    total = len([1 for i in range(u["mark"], len(obs["log"]))
                 if obs["log"][i][0] == "ctl"])
    return total > mine


def explore_shared(conf, k, errors, res, serialise=False, bound=99,
                   extra=NO_BITS):
    found = []
    key = [conf] if extra == NO_BITS else [conf, extra]

    def on_exec(ch, obs):
        if not serialise:
            res.count("evaluations")
            res.count("evaluations_shared")
            if extra != NO_BITS:
                res.count("evaluations_status_bits")
            res.count("transitions", len(obs["log"]))
            if any(e[0] == "ctl" for e in obs["log"]):
                res.nontrivial.add(core.digest(key + [ch.choices]))
            res.outcomes.add(tuple(
                (u["out"], len([1 for e in u["ops"] if e[0] == "ctl"]))
                for u in obs["users"]))
        else:
            res.count("evaluations_defect_model")
        verdicts = judge_shared(conf, obs)
        if not serialise:
            judged = {no for no, exp, seen, what in verdicts}
            for no, u in enumerate(obs["users"]):
                if u["out"] == ("pending",):
                    res.count("shared_calls_left_polling")
                    if no not in judged:
                        res.count("shared_calls_left_polling_not_judged")
        for no, exp, seen, what in verdicts:
            kf = None
            if not serialise and no is not None \
                    and what.startswith("does not terminate") \
                    and hang_model(obs, no):
                # the terminal went past the state this walker waits for
                # because ANOTHER walker requested the next one: a terminal
                # that skips a state is outside the behaviours the statement
                # quantifies over, and the statement does not promise
                # termination then - counted, not judged (the defect is
                # described in DESIGN.md, section 9)
                res.count("shared_hang_under_interference_not_judged")
                continue
            found.append(dict(
                case=dict(family="shared", conf=[conf[0], conf[1],
                                                 [list(u) for u in conf[2]]],
                          choices=list(ch.choices), k=k, errors=errors,
                          serialise=serialise, user=no,
                          extra=list(extra), words=obs["words"][:24],
                          log=obs["log"][:48]),
                exp=exp, seen=seen, what=what, kf=kf))
    explore.dfs(lambda ch: execute_shared(ch, conf, k, errors, serialise,
                                          extra), bound, on_exec)
    return found


def work(item, res):
    k = work.k
    if item[0] == "shared":
        _, conf, k, errors, extra = item
        found = explore_shared(conf, k, errors, res, extra=extra)
        if any(f["kf"] for f in found):
            # the failure must vanish under the one modelled deviation:
            # with the walks one after the other the configuration has to
            # be clean (all behaviours with <= MODEL_BOUND non-default poll
            # answers; the serialised trees are three times the size)
            again = explore_shared(conf, k, errors, res, serialise=True,
                                   bound=MODEL_BOUND, extra=extra)
            if again:
                for f in found:
                    f["kf"] = None
                found += again
        for f in found:
            res.violation(f["case"], f["exp"], f["seen"], kf=f["kf"],
                          sig=core.digest([f["what"], f["kf"]]),
                          note=f["what"])
        a = execute_shared(explore.Chooser((1,)), conf, k, extra=extra)
        b = execute_shared(explore.Chooser((1,)), conf, k, extra=extra)
        if a != b:
            raise core.Internal("non-deterministic execution")
        return
    _, conf, extra = item
    key = [conf] if extra == NO_BITS else [conf, extra]

    def on_exec(ch, obs):
        res.count("evaluations")
        if extra != NO_BITS:
            res.count("evaluations_status_bits")
        res.count("transitions", len(obs["log"]))
        if any(e[0] == "ctl" for e in obs["log"]):
            res.nontrivial.add(core.digest(key + [ch.choices]))
        res.outcomes.add((obs["out"], len([e for e in obs["log"]
                                           if e[0] == "ctl"])))
        v = judge(conf, obs)
        if v is not None:
            exp, seen, what = v
            res.violation(dict(conf=conf, choices=list(ch.choices), k=k,
                               errors=work.errors, extra=list(extra),
                               words=obs["words"], log=obs["log"]), exp, seen,
                          sig=core.digest([what]), note=what)
    explore.dfs(lambda ch: execute(ch, conf, k, work.errors, extra), 99,
                on_exec)
    a = execute(explore.Chooser(()), conf, k, extra=extra)
    b = execute(explore.Chooser(()), conf, k, extra=extra)
    if a != b:
        raise core.Internal("non-deterministic execution")


def shared_items(ctx):
    """('shared', (start, err, ((target, delay), ...)), k, errors); the
    first user has delay 0.  Two users: k = 2 (quick) / 3, every delay
    0..6 / 0..12; three users: k = 1 / 2, delay pairs D3"""
    k2, k3 = (2, 1) if ctx.quick else (3, 2)
    d2 = list(range(0, 7) if ctx.quick else range(0, 13))
    d3 = [(0, 0), (1, 2)] if ctx.quick else \
        [(0, 0), (0, 1), (1, 0), (1, 2), (2, 1), (2, 4)]
    if ctx.seed:
        d2.append((7 if ctx.quick else 13) + ctx.seed % 5)
        d3.append((ctx.seed % 3, 3 + ctx.seed % 4))
    items = []
    for s in STATES:
        for e in (False, True):
            for a, b in itertools.product(USERS, repeat=2):
                for d in d2:
                    items.append(("shared", (s, e, ((a, 0), (b, d))), k2,
                                  1 if ctx.quick else 2, NO_BITS))
            for a, b, c in itertools.product(USERS, repeat=3):
                if not a and not b and not c:
                    continue
                for db, dc in d3:
                    items.append(("shared",
                                  (s, e, ((a, 0), (b, db), (c, dc))), k3, 1,
                                  NO_BITS))
    return items


def status_bits(ctx, shared=False):
    """the extra-bits alphabet: (a, b, n) = the AL status word carries a
    during the first n status reads of the history and b afterwards.
    constant: bit 5 (device identification loaded), a reserved bit, the top
    bit, all of 5..15 (quick); every single bit 5..15, bits 5+6, all of
    6..15, all of 5..15 (thorough).  changing: between nothing, bit 5 and
    all of 5..15 in both directions, after the first status read (quick) /
    after the first .. fourth (thorough).  The shared family takes a subset:
    bit 5 and all of 5..15, constant, appearing and disappearing."""
    if shared:
        const = [0x20] if ctx.quick else [0x20, 0xffe0]
        pairs = [(0, 0x20)] if ctx.quick else [(0, 0x20), (0x20, 0)]
        at = [1] if ctx.quick else [1, 2]
    elif ctx.quick:
        const = [0x20, 0x40, 0x8000, 0xffe0]
        pairs = [(0, 0x20), (0x20, 0), (0, 0xffe0), (0xffe0, 0)]
        at = [1]
    else:
        const = [1 << i for i in range(5, 16)] + [0x60, 0xffc0, 0xffe0]
        pairs = [(a, b) for a in (0, 0x20, 0xffe0) for b in (0, 0x20, 0xffe0)
                 if a != b]
        at = [1, 2, 3, 4]
    if ctx.seed and not shared:
        # one more combination of the bits 5..15, derived from the seed
        x = (ctx.seed * 0x9e5) & 0xffe0 or 0x20
        if x not in const:
            const.append(x)
        at.append(5 + ctx.seed % 3)
    return [(x, x, 0) for x in const] + \
        [(a, b, n) for a, b in pairs for n in at]


def bits_items(ctx):
    """the families again with further bits in the AL status word.  single:
    every configuration x every member of status_bits.  shared: two users,
    every start state x error flag x pair of users, second user started
    together with the first and after 2 frames (quick) / after 0, 1, 2 and
    5 frames (thorough); k and the error bound as in the quick tier"""
    items = [("single", (s, e, t), x) for x in status_bits(ctx)
             for s in STATES for e in (False, True) for t in TARGETS]
    for x in status_bits(ctx, shared=True):
        for s in STATES:
            for e in (False, True):
                for a, b in itertools.product(USERS, repeat=2):
                    for d in ((0, 2) if ctx.quick else (0, 1, 2, 5)):
                        items.append(("shared", (s, e, ((a, 0), (b, d))),
                                      2, 1, x))
    return items


def run(ctx):
    work.k = 2 if ctx.quick else 5
    work.errors = 1 if ctx.quick else 2
    items = [("single", (s, e, t), NO_BITS) for s in STATES
             for e in (False, True) for t in TARGETS]
    items += shared_items(ctx)
    items += bits_items(ctx)
    res = core.pmap(ctx, work, items, chunk=1 if len(items) < 100 else 4)
    res.cov["states"] = len(res.nontrivial)
    res.cov["traces_validated_against_impl"] = res.cov.get("evaluations", 0)
    res.cov["k"] = work.k
    res.cov["k_two_users"], res.cov["k_three_users"] = \
        (2, 1) if ctx.quick else (3, 2)
    res.cov["configurations"] = len(items)
    res.cov["status_bit_histories"] = len(status_bits(ctx))
    res.cov["status_bit_histories_shared"] = len(status_bits(ctx, True))
    res.sample(dict(conf=[1, True, 8], behaviour="ack, then PRE-OP after one "
                    "'stay', SAFE-OP at once, error while going to OP"))
    res.sample(dict(family="shared", conf=[1, False, [[2, 0], [8, 1]]],
                    behaviour="one Terminal object, to_operational(PRE-OP) "
                    "and one frame later to_operational(OP)"))
    res.sample(dict(conf=[8, False, 8], extra=[0, 0x20, 1],
                    behaviour="OP terminal whose AL status word is 0x08 at "
                    "the first read and 0x28 (device identification loaded) "
                    "from then on: nothing to request, returns"))
    res.assumptions += [
        "bits family: the bits 5..15 of the AL status word are not part of "
        "the behaviour the statement talks about (state = bits 0..3, "
        "reported error = bit 4); a terminal may show any of them at any "
        "time, and the expected AL control writes and outcome are those of "
        "the same history without them",
        "terminal behaviours: a pending transition stays (<= k polls), is "
        "reached, or fails with the error flag; the terminal never reports "
        "a state that was not requested",
        "extra AL status reads are always allowed; only AL control writes "
        "and the final outcome are constrained",
        "shared family: the statement is read per call.  A call may return "
        "only if a status read between its start and its end, after the "
        "last acknowledge in between, reported a state at or above ITS "
        "target without the error flag (whose read it was does not matter); "
        "it may raise EtherCatError only if such a read had the error flag",
        "shared family, AL control writes of all walkers together: nothing "
        "before the first status read; an acknowledge (0x11) at most once "
        "per status read that showed the error flag, and before any request "
        "if the terminal starts with an error; every request of a state s "
        "needs, within the last n frames (n users, one datagram each under "
        "way), a status read that reported the state just below s without "
        "error, or for PRE-OP an acknowledge (stale reports after an "
        "acknowledge count; whose read it was does not matter), and is never "
        "above the highest target of the users started so far.  Repeated "
        "requests of the same state by several walkers are allowed",
        "shared family: a call that is still polling at the frame bound is "
        "a violation only if the terminal keeps reporting a state at or "
        "above its target without error and nothing is pending ('returns "
        "once the terminal reported...'); a call left polling because "
        "another user's request took the terminal away from what it waits "
        "for and its target was never reported is counted "
        "(shared_calls_left_polling_not_judged) but not judged",
        "frames are delivered in order; the datagrams of several users "
        "queued at the same time travel in one frame, in queueing order"]
    return res


def replay(ctx, rep):
    res = core.Result()
    c = rep["case"]
    if c.get("family") == "shared":
        conf = (c["conf"][0], c["conf"][1],
                tuple(tuple(u) for u in c["conf"][2]))
        obs = execute_shared(explore.Chooser(tuple(c["choices"])), conf,
                             c["k"], c.get("errors", 1),
                             c.get("serialise", False),
                             tuple(c.get("extra", NO_BITS)))
        print("words on the wire", [hex(w) for w in obs["words"]])
        for i, e in enumerate(obs["log"]):
            print("  ", i, e)
        for no, u in enumerate(obs["users"]):
            print("user", no, conf[2][no], {k: v for k, v in u.items()})
        for no, exp, seen, what in judge_shared(conf, obs):
            res.violation(c, exp, seen, note=what)
        return res.violations
    conf = tuple(c["conf"])
    obs = execute(explore.Chooser(tuple(c["choices"])), conf, c["k"],
                  c.get("errors", 1), tuple(c.get("extra", NO_BITS)))
    print("words on the wire", [hex(w) for w in obs["words"]])
    for e in obs["log"]:
        print("  ", e)
    print("outcome", obs["out"])
    v = judge(conf, obs)
    if v:
        res.violation(c, v[0], v[1], note=v[2])
    return res.violations
