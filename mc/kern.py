"""Raw access to the real kernel's bpf() (independent of ebpfcat.bpf).

Used for the differential runs that bind the interpreter to reality and for
C05 (the verifier is the oracle).  Everything degrades to "unavailable".
"""
import ctypes
import errno
import os
import struct

_libc = ctypes.CDLL("libc.so.6", use_errno=True)
SYS_BPF = {"x86_64": 321, "aarch64": 280}.get(os.uname().machine, 321)

PROG_TYPE_XDP = 6
_available = None


def _bpf(cmd, attr):
    buf = ctypes.create_string_buffer(attr, len(attr))
    ret = _libc.syscall(SYS_BPF, ctypes.c_int(cmd), buf, len(attr))
    if ret == -1:
        e = ctypes.get_errno()
        raise OSError(e, os.strerror(e))
    return ret, buf.raw


def available():
    global _available
    if _available is None:
        try:
            fd = map_create(2, 4, 8, 1)
            os.close(fd)
            _available = True
        except OSError:
            _available = False
    return _available


def map_create(mtype, key_size, value_size, max_entries, flags=0):
    ret, _ = _bpf(0, struct.pack("IIIII", mtype, key_size, value_size,
                                 max_entries, flags))
    return ret


def map_lookup(fd, key, value_size):
    k = ctypes.create_string_buffer(bytes(key), len(key))
    v = ctypes.create_string_buffer(value_size)
    try:
        _bpf(1, struct.pack("IQQQ", fd, ctypes.addressof(k),
                            ctypes.addressof(v), 0))
    except OSError as e:
        if e.errno == errno.ENOENT:
            return None
        raise
    return v.raw


def map_update(fd, key, value, flags=0):
    k = ctypes.create_string_buffer(bytes(key), len(key))
    v = ctypes.create_string_buffer(bytes(value), len(value))
    _bpf(2, struct.pack("IQQQ", fd, ctypes.addressof(k), ctypes.addressof(v),
                        flags))


def map_delete(fd, key):
    k = ctypes.create_string_buffer(bytes(key), len(key))
    _bpf(3, struct.pack("IQ", fd, ctypes.addressof(k)))


def map_next_key(fd, key, key_size):
    out = ctypes.create_string_buffer(key_size)
    if key is None:
        ka = 0
    else:
        k = ctypes.create_string_buffer(bytes(key), len(key))
        ka = ctypes.addressof(k)
    try:
        _bpf(4, struct.pack("IQQ", fd, ka, ctypes.addressof(out)))
    except OSError as e:
        if e.errno == errno.ENOENT:
            return None
        raise
    return out.raw


class LoadError(Exception):
    def __init__(self, err, log):
        super().__init__(f"{os.strerror(err)}: {log[-600:]}")
        self.errno = err
        self.log = log


def prog_load(code, prog_type=PROG_TYPE_XDP, license=b"GPL", log=True,
              log_size=1 << 16):
    insns = ctypes.create_string_buffer(bytes(code), len(code))
    lic = ctypes.create_string_buffer(license)
    if log:
        logbuf = ctypes.create_string_buffer(log_size)
        la, ll, ls = ctypes.addressof(logbuf), 1, log_size
    else:
        la = ll = ls = 0
    attr = struct.pack("IIQQIIQII16sII", prog_type, len(code) // 8,
                       ctypes.addressof(insns), ctypes.addressof(lic),
                       ll, ls, la, 0, 0, b"verif", 0, 0)
    try:
        fd, _ = _bpf(5, attr)
    except OSError as e:
        if log and e.errno == errno.ENOSPC:
            return prog_load(code, prog_type, license, log=False)
        raise LoadError(e.errno, logbuf.value.decode("utf8", "replace")
                        if log else "")
    return fd


def test_run(fd, data, repeat=1):
    """-> (retval, data_out bytes)"""
    din = ctypes.create_string_buffer(bytes(data), len(data))
    dout = ctypes.create_string_buffer(len(data) + 256)
    attr = struct.pack("IIIIQQII", fd, 0, len(data), len(dout),
                       ctypes.addressof(din), ctypes.addressof(dout),
                       repeat, 0) + bytes(40)
    _, raw = _bpf(10, attr)
    _, retval, _, size_out = struct.unpack_from("IIII", raw)
    return retval, dout.raw[:size_out]


def prog_array_set(map_fd, index, prog_fd):
    map_update(map_fd, struct.pack("<I", index), struct.pack("<I", prog_fd))
