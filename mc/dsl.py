"""Scaffolding around the real ebpfcat DSL for the bytecode-semantics checks.

A Builder creates a fresh EBPF subclass (XDP program type), emits a raw
preamble that makes the packet accessible (r9 = data, bounds-checked so the
kernel verifier accepts it), lets the harness plant operands from *packet
bytes* with raw instructions (not with the DSL under test), runs DSL
statements, and stores results back into the packet with raw instructions.
One program therefore serves many operand vectors, in the interpreter and
through BPF_PROG_TEST_RUN alike.
"""
import struct

from ebpfcat.ebpf import EBPF, Instruction, LocalVar, Opcode, fmtsize
from ebpfcat.bpf import ProgType

from . import bpfvm, kern


class Raw:
    """an opcode object for EBPF.append that is not in ebpfcat's enum"""
    def __init__(self, value):
        self.value = value

    def __repr__(self):
        return f"Raw({self.value:#x})"


SZ_LDX = {1: 0x71, 2: 0x69, 4: 0x61, 8: 0x79}
SZ_STX = {1: 0x73, 2: 0x6b, 4: 0x63, 8: 0x7b}

PV_AREA = 64      # packet bytes [0, 64): packet variables under test
_counter = [0]


class Builder:
    def __init__(self, attrs=None, n_in=8, n_out=8, bases=(EBPF,),
                 subprograms=(), pv_area=PV_AREA, **kwargs):
        _counter[0] += 1
        self.pv_area = pv_area
        self.in_off = pv_area
        self.n_in = n_in
        self.n_out = n_out
        self.out_off = pv_area + 8 * n_in
        self.pkt_len = self.out_off + 8 * n_out
        self.cls = type(f"P{_counter[0]}", bases, dict(attrs or {}))
        self.e = self.cls(prog_type=ProgType.XDP, license="GPL",
                          subprograms=subprograms, **kwargs)
        e = self.e
        a = self.raw
        a(0x61, 9, 1, 0, 0)            # r9 = ctx->data
        a(0x61, 8, 1, 4, 0)            # r8 = ctx->data_end
        a(0xbf, 0, 9, 0, 0)            # r0 = r9
        a(0x07, 0, 0, 0, self.pkt_len)  # r0 += len
        a(0xbd, 0, 8, 2, 0)            # if r0 <= r8 goto +2
        a(0xb7, 0, 0, 0, 0)            # r0 = 0 (ABORTED)
        a(0x95, 0, 0, 0, 0)            # exit
        e.owners.add(9)
        self._decoded = None

    def raw(self, op, dst, src, off, imm):
        self.e.opcodes.append(Instruction(Raw(op), dst, src, off, imm))

    # ---------------------------------------------------- planting operands
    def plant_reg(self, no, slot, long=True):
        """rN = input slot (64 bit), or its low 32 bits zero-extended"""
        self.raw(SZ_LDX[8 if long else 4], no, 9, self.in_off + 8 * slot, 0)
        self.e.owners.add(no)

    def plant_stack(self, rel, size, slot, tmp=0):
        self.raw(SZ_LDX[8], tmp, 9, self.in_off + 8 * slot, 0)
        self.raw(SZ_STX[size], 10, tmp, rel, 0)

    def plant_local(self, name, slot, tmp=0):
        d = self.cls.__dict__[name]
        self.plant_stack(d.relative_addr, fmtsize(d.fmt), slot, tmp)

    def plant_mem(self, basereg, off, size, slot, tmp=0):
        self.raw(SZ_LDX[8], tmp, 9, self.in_off + 8 * slot, 0)
        self.raw(SZ_STX[size], basereg, tmp, off, 0)

    # ---------------------------------------------------- reading results
    def out_reg(self, no, slot):
        self.raw(SZ_STX[8], 9, no, self.out_off + 8 * slot, 0)

    def out_stack(self, rel, size, slot, tmp=0):
        self.raw(SZ_LDX[size], tmp, 10, rel, 0)
        self.raw(SZ_STX[8], 9, tmp, self.out_off + 8 * slot, 0)

    def out_local(self, name, slot, tmp=0):
        d = self.cls.__dict__[name]
        self.out_stack(d.relative_addr, fmtsize(d.fmt), slot, tmp)

    def out_mem(self, basereg, off, size, slot, tmp=0):
        self.raw(SZ_LDX[size], tmp, basereg, off, 0)
        self.raw(SZ_STX[8], 9, tmp, self.out_off + 8 * slot, 0)

    def out_const(self, value, slot, tmp=0):
        self.raw(0xb7, tmp, 0, 0, value)
        self.raw(SZ_STX[8], 9, tmp, self.out_off + 8 * slot, 0)

    def finish(self, retcode=2):
        self.raw(0xb7, 0, 0, 0, retcode)
        self.raw(0x95, 0, 0, 0, 0)

    # ---------------------------------------------------- running
    def code(self):
        if self._decoded is None:
            self._code = self.e.assemble()
            self._decoded = bpfvm.decode(self._code)
        return self._code

    def packet(self, inputs, pv=None):
        pkt = bytearray(self.pkt_len)
        if pv is not None:
            pkt[:len(pv)] = pv
        for i, v in enumerate(inputs):
            struct.pack_into("<Q", pkt, self.in_off + 8 * i,
                             v & 0xffffffffffffffff)
        return pkt

    def outputs(self, pkt):
        return list(struct.unpack_from(f"<{self.n_out}Q", pkt, self.out_off))

    def run_vm(self, inputs, pv=None, kernel=None, cpu=0):
        """-> (retval, outputs, packet, vm); raises bpfvm.Trap"""
        self.code()
        pkt = self.packet(inputs, pv)
        vm = bpfvm.VM(kernel or bpfvm.Kernel(), self._decoded, pkt, cpu)
        vm.run()
        return vm.retval, self.outputs(pkt), pkt, vm

    def load_kernel(self):
        return kern.prog_load(self.code())

    def run_kernel(self, fd, inputs, pv=None):
        pkt = self.packet(inputs, pv)
        ret, out = kern.test_run(fd, pkt)
        return ret, self.outputs(out), out
