"""C17 - EEPROM contents and derived layouts are decoded exactly.

Part A (read): the real Terminal.read_eeprom / _eeprom_read_one run over the
  roundtrip stack against the ESC model's SII interface (4- or 8-byte reads);
  every category-list shape (distinct types x word lengths, contents
  position-coded, identity words from the alphabet) is enumerated; busy
  durations at the three polling loops are explorer choices (k = 2).  The
  type alphabet contains the NOP category 0 (with 0, 1, 2.. words, at every
  position of the list): only 0xffff ends the list.
Part AV (read, vendor types): the same walks over category lists whose types
  have bit 15 set (vendor specific: 0x8000, 0x8001, 0xfffe and 0x8000|t for
  the standard types t = 10, 30, 40, 41, 50, 51, 60), alone, and before /
  after the category with the same low 15 bits (0, 1, 0x7ffe, t), with
  different contents and lengths; items of part A.  Only 0xffff ends the
  list; every other 16-bit type is a key of its own.
Part A2 (read again): the same walks as the SECOND read_eeprom of a Terminal
  object that has read another image before (FIRSTS: other lengths, other
  categories, garbage or 0xff behind the end marker; the stream lengths
  cover every residue modulo 8).  Expected: what a fresh object reads, i.e.
  the image.
Part B (layout): Terminal.parse_sync_managers over every sequence of 0..4
  sync managers of the four modes, and Terminal.parse_pdos (EEPROM source)
  over every PDO category shape (1..2 PDOs x 0..3 entries from bit entries,
  padding, 8/16/32/64-bit entries), judged by the ETG.2010 reference layout
  of mc/coe.py.
Part C (chain): apply_eeprom + parse_pdos on complete images, both sources:
  EEPROM categories 50/51 (no mailbox) and the SDO objects 0x1C12/0x1C13 read
  with the real sdo_read from the SDO server of mc/coe.py (mailbox).
  CV: complete images holding all of 10, 30, 40, 41, 50, 51, 60 plus one
  vendor category (a well-formed sync-manager / PDO category of another
  layout for 0x8029 / 0x8032 / 0x8033) right before or right after the
  category with the same low bits, both sources.  CS: mailbox terminals
  whose assignment objects 0x1C12 / 0x1C13 hold unused (zero) slots.
Part S (SDO source, assignment lists): the real parse_pdos of a mailbox
  terminal on a dictionary-backed sdo_read; 0x1C12 x 0x1C13 over every list
  of 0..3 slots from {0, PDO A, PDO B, PDO C} (non-zero slots distinct):
  zero first, in the middle, at the end, only zeros.  Reference: a zero
  slot is unused and skipped; every non-zero slot contributes its PDO's
  entries, in slot order.
Part C2 (chain again): the chain as the second one of a Terminal object that
  went through it on another complete image (other shape / source / category
  list) before; judged like a fresh object.  (parse_sync_managers twice on one
  object: part B, "sm2".)
"""
import asyncio
import itertools
import os
import struct

from mc import bussim, coe, core, explore, vloop

import ebpfcat.ethercat as ecmod
from ebpfcat.ethercat import EtherCat, SyncManager, Terminal

PROP = "C17"
LEVEL = "model_checking"
RULE = ("A: category lists of 0..3 distinct types from 8 (NOP = 0 among "
        "them, at every position) x word lengths "
        "{0,1,2,3,4,5,9} x read size 4/8 x busy polls <= 2 per polling loop "
        "(deviation-bounded); AV: vendor types {0x8000, 0x8001, 0xfffe, "
        "0x8000|t for t in 10,30,40,41,50,51,60} alone (all lengths), "
        "before and after the category with the same low 15 bits (lengths "
        "{0,1,3}^2 quick, all pairs thorough), and the orders of "
        "(x, t, 0x8000|t); A2: the same lists read as the second "
        "read_eeprom of a Terminal object after one of 8 first images (all "
        "of them for <= 1 category, one in turn for longer lists); B: all sync-manager sequences (<= 4 entries, 4 "
        "modes) and all PDO category shapes (1..2 PDOs x 0..3 entries of 8 "
        "kinds, second PDO assigned or not; plus gaps of {1,4,8,12,13,16} "
        "bits at bit positions {0,3,4} and 3/4-bit fields: 15 kinds for "
        "pairs of <= 2 entries and single PDOs of 3, and prefix x gap x "
        "suffix PDOs); C: complete images through "
        "apply_eeprom + parse_pdos from EEPROM and from SDO, among them "
        "images with one vendor category next to its standard namesake "
        "and SDO assignment objects with unused slots; S: parse_pdos from "
        "a dictionary-backed sdo_read, 0x1C12 x 0x1C13 over all lists of "
        "0..3 slots from {0, A, B, C} (52 x 52) x 3 PDO triples; C2: the chain "
        "as the second one of a Terminal object after another image; "
        "non-trivial = "
        "at least one category / sync manager / mapped entry; distinct = "
        "distinct (shape, choices)")

# category types: 0 is the NOP category of the SII (legal anywhere in the
# list, with or without contents); only 0xffff ends the list
TYPES = [0, 10, 30, 41, 50, 51, 60, 0x7FFF]
WORDS = [0, 1, 2, 3, 4, 5, 9]
# images read FIRST by a Terminal object that then reads the image under
# test: (category list, garbage instead of 0xff behind the end marker).  The
# byte offset behind the end marker's header (4 + sum(4 + 2 * words)) takes
# every residue modulo 8, so a reader fetching 8 bytes at a time is left with
# 0, 2, 4 and 6 bytes it fetched but did not need.
FIRSTS = [((), False), (((60, 1),), True), (((41, 2),), False),
          (((51, 3),), True), (((10, 0),), True),
          (((30, 5), (50, 4)), False), (((0, 0), (0x7FFF, 1)), True),
          ((), True)]
# vendor specific category types (bit 15 set); 0xffff alone ends the list.
# VSTD: the standard types; the code under test looks at 41, 50, 51 (and the
# scripts at 10).
VSTD = [10, 30, 40, 41, 50, 51, 60]
VTYPES = [0x8000, 0x8001, 0xFFFE] + [0x8000 | t for t in VSTD]
# SDO source: the three PDOs of a direction (kinds per PDO; the other
# direction takes them in reverse order).  Variant 2 has PDOs that are not a
# whole number of bytes, so some orders cannot be described (RuntimeError).
SDO_VARIANTS = [(("u8",), ("b1", "b2", "pad5"), ("u16",)),
                (("b1", "pad7", "u8"), ("u16", "u8"), ("b4", "b4")),
                (("b1",), ("b2", "b3"), ("u8",))]
K = 2
KF_UNASSIGNED = "C17-pdo-unassigned-counted"
FMT = {8: "B", 16: "H", 32: "I", 64: "Q"}


class Enough(Exception):
    pass


# ------------------------------------------------------------------ part A
def identity(n, seed):
    alpha = [0, 1, 0xFFFFFFFF, (0x9E3779B1 * (seed + 1) + 0x1234567) &
             0xFFFFFFFF]
    return tuple(alpha[(n // 4 ** f) % 4] for f in range(4))


def category_bytes(i, words):
    return bytes((0x20 * (i + 1) + j) & 0xff for j in range(2 * words))


def read_image(shape, n, seed):
    ident = identity(n, seed)
    cats = [(t, category_bytes(i, w)) for i, (t, w) in enumerate(shape)]
    return ident, cats, coe.sii_image(*ident, categories=cats, pad=0)


def frame_budget(image):
    """a reader needs 2 + ceil(category bytes / 8) reads of at most
    3 + 3 * K + 2 frames each; allow 16 per read plus slack"""
    return 16 * (2 + (len(image) - 0x80 + 7) // 8 + 4)


def first_image(first, n, seed):
    shape, garbage = first
    ident, cats, image = read_image(shape, n + 1, seed)
    if garbage:
        # what follows the end marker means nothing
        image += bytes((0x41 + 3 * j) & 0xff for j in range(16))
    return ident, cats, image


def execute_read(ch, shape, n, eight, seed, first=None):
    """first = an entry of FIRSTS: the same Terminal object has read that
    image (no busy polls) before it reads the image under test"""
    ident, cats, image = read_image(shape, n, seed)
    loop = vloop.VLoop()
    with loop:
        t = bussim.Terminal("t", station=5, sii=image, sii_eight=eight)
        early = []
        orig = t._sii_command

        def command(ctl, addr):
            if t._sii_busy > 0:
                early.append((ctl, addr))
            orig(ctl, addr)
        t._sii_command = command
        m = bussim.Master(bussim.Bus([t]), lambda: EtherCat("sim"), loop)
        term = Terminal(m.ec)
        term.position = 5
        before = None
        if first is not None:
            fident, fcats, fimage = first_image(first, n, seed)
            t.sii = bytearray(fimage)
            fut = asyncio.ensure_future(term.read_eeprom())
            done = m.run(fut, max_frames=frame_budget(fimage))
            ok = done and fut.exception() is None
            before = dict(
                ok=ok,
                ident=[getattr(term, a, None) for a in
                       ("vendorId", "productCode", "revisionNo", "serialNo")],
                eeprom=sorted((k, bytes(v).hex()) for k, v in
                              getattr(term, "eeprom", {}).items()))
            if not done:
                fut.cancel()
            t.sii = bytearray(image)
            del t.sii_log[:]
            m.frames = 0
        t.sii_busy_polls = lambda term, phase: ch.choose(
            K + 1, "busy", list(range(K + 1)))
        # the interface may still be busy (e.g. loading) when we start
        t._sii_busy = ch.choose(K + 1, "busy-at-start", list(range(K + 1)))
        fut = asyncio.ensure_future(term.read_eeprom())
        done = m.run(fut, max_frames=frame_budget(image))
        if not done:
            outcome = ("pending",)
        elif fut.exception() is not None:
            outcome = ("raise", type(fut.exception()).__name__,
                       str(fut.exception())[:60])
        else:
            outcome = ("return",)
        obs = dict(outcome=outcome,
                   ident=[getattr(term, a, None) for a in
                          ("vendorId", "productCode", "revisionNo",
                           "serialNo")],
                   eeprom=sorted((k, bytes(v).hex()) for k, v in
                                 getattr(term, "eeprom", {}).items()),
                   early=early, reads=len(t.sii_log), frames=m.frames)
        if before is not None:
            obs["before"] = before
        loop.shutdown()
    return obs


def judge_read(shape, n, seed, obs, first=None):
    ident, cats, image = read_image(shape, n, seed)
    if first is not None:
        fident, fcats, fimage = first_image(first, n, seed)
        want = dict(ok=True, ident=list(fident),
                    eeprom=sorted((t, d.hex()) for t, d in fcats))
        if obs["before"] != want:
            return ("first read of the object", want, obs["before"])
    if obs["outcome"] != ("return",):
        return ("read_eeprom returns", ("return",), obs["outcome"])
    if obs["early"]:
        return ("read command issued while the interface is busy", [],
                obs["early"])
    if obs["ident"] != list(ident):
        return ("identity fields", list(ident), obs["ident"])
    want = sorted((t, d.hex()) for t, d in cats)
    if obs["eeprom"] != want:
        return ("eeprom dict", want, obs["eeprom"])
    return None


def work_read(item, res):
    """A: a fresh Terminal object reads the image; A2: a Terminal object
    that has read another image before (FIRSTS[fi]) reads it - the result
    has to be what a fresh object gets, i.e. the image"""
    first = None
    if item[0] == "A2":
        _, shape, n, eight, bound, seed, fi = item
        first = FIRSTS[fi]
        part = "A2"
    else:
        _, shape, n, eight, bound, seed = item
        fi = None
        part = "A"

    def on_exec(ch, obs):
        res.count("evaluations")
        res.count("transitions", obs["frames"])
        if shape:
            res.nontrivial.add(core.digest([part, shape, eight, fi,
                                            ch.choices]))
        res.outcomes.add((part, obs["outcome"][0], len(obs["eeprom"]),
                          min(obs["reads"], 12)))
        v = judge_read(shape, n, seed, obs, first)
        if v:
            note = v[0]
            if first is not None and v[0] != "first read of the object":
                note += " (second read_eeprom of the same Terminal object)"
            res.violation(dict(part=part, shape=shape, n=n, eight=eight,
                               seed=seed, first=fi,
                               choices=list(ch.choices)),
                          v[1], v[2], sig=core.digest([part, v[0], eight]),
                          note=note)
            bad.append(1)
            if len(bad) >= 3:
                raise Enough()
    bad = []
    try:
        cnt, capped = explore.dfs(
            lambda ch: execute_read(ch, shape, n, eight, seed, first), bound,
            on_exec, max_execs=4000)
    except Enough:
        return      # three counterexamples for this shape are plenty
    if capped:
        res.caps_hit.append(f"{part} {shape} eight={eight}: {cnt} executions")


# ------------------------------------------------------------------ part B
MODES = [coe.SM_MBX_OUT, coe.SM_MBX_IN, coe.SM_PD_OUT, coe.SM_PD_IN]
ATTR = {coe.SM_MBX_OUT: ("mbx_out_off", "mbx_out_sz", None),
        coe.SM_MBX_IN: ("mbx_in_off", "mbx_in_sz", None),
        coe.SM_PD_OUT: ("pdo_out_off", "pdo_out_sz", "pdo_out_addr"),
        coe.SM_PD_IN: ("pdo_in_off", "pdo_in_sz", "pdo_in_addr")}


def sm_entries(seq, seed):
    out = []
    for i, mode in enumerate(seq):
        ctl = coe.SM_CONTROL[mode]
        ctl = [ctl, ctl | 0x40, ctl & 0x0f][(i + seed) % 3]
        out.append(coe.SmEntry(0x1000 + 0x100 * i + 2 * i, 0x10 * (i + 1) + i,
                               ctl, 0, 1, mode))
    return out


def judge_sm(term, entries):
    """None or (what, expected, observed)"""
    for mode in MODES:
        off, sz, addr = ATTR[mode]
        got = (getattr(term, off), getattr(term, sz))
        cands = [(i, e) for i, e in enumerate(entries) if e.type == mode]
        if not cands:
            if got != (None, None):
                return (f"{off}/{sz} without such a sync manager",
                        (None, None), got)
            continue
        # several areas of one kind: any one of them is accepted
        ok = [(i, e) for i, e in cands if got == (e.start, e.length)]
        if not ok:
            return (f"{off}/{sz}", [(e.start, e.length) for _, e in cands],
                    got)
        if addr and getattr(term, addr) not in [0x800 + 8 * i
                                                for i, _ in ok]:
            return (addr, [0x800 + 8 * i for i, _ in ok],
                    getattr(term, addr))
    want = any(e.type == coe.SM_MBX_OUT for e in entries) and \
        any(e.type == coe.SM_MBX_IN for e in entries)
    if bool(term.has_mailbox()) != want:
        return ("has_mailbox", want, term.has_mailbox())
    return None


def work_sm(item, res):
    _, seq, seed = item
    entries = sm_entries(seq, seed)
    term = Terminal(None)
    term.parse_sync_managers(coe.sm_category(entries))
    res.count("evaluations")
    if seq:
        res.nontrivial.add(core.digest(["B-sm", seq]))
    res.outcomes.add(("B-sm", len(set(seq)), bool(term.has_mailbox())))
    v = judge_sm(term, entries)
    if v:
        res.violation(dict(part="B-sm", seq=list(seq), seed=seed), v[1], v[2],
                      sig=core.digest(["B-sm", v[0]]), note=v[0])


def work_sm2(item, res):
    """the same Terminal object decodes two sync-manager categories one
    after the other (initialize twice, gentle_initialize then initialize,
    a terminal swapped for another one): what it holds afterwards must be
    what the second category says, whatever the first one said"""
    _, first, seq, seed = item
    term = Terminal(None)
    term.parse_sync_managers(coe.sm_category(sm_entries(first, seed + 1)))
    entries = sm_entries(seq, seed)
    term.parse_sync_managers(coe.sm_category(entries))
    res.count("evaluations")
    res.nontrivial.add(core.digest(["B-sm2", first, seq]))
    res.outcomes.add(("B-sm2", len(set(first)), len(set(seq)),
                      bool(term.has_mailbox())))
    v = judge_sm(term, entries)
    if v:
        res.violation(dict(part="B-sm2", first=list(first), seq=list(seq),
                           seed=seed), v[1], v[2],
                      sig=core.digest(["B-sm2", v[0]]),
                      note=v[0] + " (after an earlier decode on the same "
                      "Terminal object)")


# entry kinds of a PDO: (name, index != 0, bits or None = pad to alignment)
KINDS = ["b1", "b2", "pad", "pad1", "u8", "u16", "u32", "u64"]
# gaps (index 0) of 1..16 bits that do or do not realign to a byte boundary,
# and bit fields that put them at bit positions 3 and 4
GAPS = ["pad1", "pad4", "pad8", "pad12", "pad13", "pad16"]
KINDS_X = KINDS + ["b3", "b4"] + [g for g in GAPS if g not in KINDS]
GAP_PREFIX = [(), ("b3",), ("b4",), ("b1", "b2"), ("pad4",)]
GAP_SUFFIX = [(), ("b1",), ("u8",), ("u16",)]


def build_pdos(shape, base, sm, unassigned):
    """shape = tuple of tuples of kinds -> [coe.Pdo]"""
    pdos, pos = [], 0
    for p, kinds in enumerate(shape):
        entries = []
        free = unassigned and p == len(shape) - 1 and p > 0
        for j, kind in enumerate(kinds):
            index, sub = base + 0x10 * p, j + 1
            if kind == "pad":       # gap up to the next byte boundary
                index, sub, bits = 0, 0, (-pos) % 8 or 8
            elif kind.startswith("pad"):
                index, sub, bits = 0, 0, int(kind[3:])
            else:                   # bN: bit field, uN: N-bit number
                bits = int(kind[1:])
            entries.append(coe.PdoEntry(index, sub, bits, j, 0, 0))
            pos += bits
        pdos.append(coe.Pdo((0x1600 if sm == 2 else 0x1a00) + p,
                            0xff if free else sm, tuple(entries)))
    return pdos


def expected_pdos(pdos, smenum, all_pdos=False):
    """-> (dict or 'reject', bits)"""
    layout, total = coe.pdo_layout(pdos, all_pdos=all_pdos)
    out = {}
    for key, (byte, bit, bits) in layout.items():
        if bits < 8:
            out[key] = (smenum, byte, bit)
        elif bit or bits % 8:
            return "reject", total
        else:
            out[key] = (smenum, byte, FMT[bits])
    return out, total


def drive(coro):
    """run a coroutine that never really waits"""
    try:
        coro.send(None)
    except StopIteration as e:
        return e.value
    coro.close()
    raise core.Internal("parse_pdos waited for the bus without a bus")


def plain(d):
    return sorted(([k[0], k[1]], [v[0].name, v[1], v[2]])
                  for k, v in d.items())


def judge_pdos(term_pdos, ret, rx, tx, raised):
    """-> None or (what, expected, observed, kf)"""
    exp = {}
    bits = []
    reject = False
    alt = {}
    altbits = []
    for pdos, smenum in ((rx, SyncManager.OUT), (tx, SyncManager.IN)):
        e, n = expected_pdos(pdos, smenum)
        a, an = expected_pdos(pdos, smenum, all_pdos=True)
        if e == "reject":
            reject = True
        else:
            exp.update(e)
        if a != "reject":
            alt.update(a)
        bits.append(n)
        altbits.append(an)
    if reject:
        if raised and raised[0] == "RuntimeError":
            return "rejected"
        return ("an entry that is not byte aligned cannot be described; "
                "RuntimeError expected", "RuntimeError", raised or "return",
                None)
    if raised:
        # the unassigned PDO may make the (wrong) layout unaligned
        kf = KF_UNASSIGNED if raised[0] == "RuntimeError" and \
            any(p.sm == 0xff for p in rx + tx) and \
            "reject" in (expected_pdos(rx, 0, True)[0],
                         expected_pdos(tx, 0, True)[0]) else None
        return ("parse_pdos raised", "return", raised, kf)
    got = plain(term_pdos)
    if got != plain(exp) or list(ret) != bits:
        kf = KF_UNASSIGNED if any(p.sm == 0xff for p in rx + tx) and \
            got == plain(alt) and list(ret) == altbits else None
        return ("pdos / bit counts", [plain(exp), bits], [got, list(ret)],
                kf)
    return None


def parse_from_eeprom(rx, tx):
    term = Terminal(None)
    term.parse_sync_managers(b"")
    term.eeprom = {}
    if rx is not None:
        term.eeprom[51] = coe.pdo_category(rx)
    if tx is not None:
        term.eeprom[50] = coe.pdo_category(tx)
    raised = None
    ret = None
    try:
        ret = drive(term.parse_pdos())
    except core.Internal:
        raise
    except Exception as e:
        raised = (type(e).__name__, str(e)[:60])
    return term.pdos, ret, raised


def work_pdo(item, res):
    _, shape, unassigned, seed = item
    # the other direction carries the same shape rotated by one PDO
    rx = build_pdos(shape, 0x7000, 2, unassigned)
    tx = build_pdos(shape[::-1], 0x6000, 3, unassigned)
    pdos, ret, raised = parse_from_eeprom(rx, tx)
    res.count("evaluations")
    v = judge_pdos(pdos, ret or (), rx, tx, raised)
    if v == "rejected":
        res.count("outside_precondition")
        res.outcomes.add(("B-pdo", "rejected"))
        return
    if any(shape):
        res.nontrivial.add(core.digest(["B-pdo", shape, unassigned]))
    res.outcomes.add(("B-pdo", "ok" if v is None else "bad", len(pdos)))
    if v:
        res.violation(dict(part="B-pdo", shape=[list(s) for s in shape],
                           unassigned=unassigned, seed=seed),
                      v[1], v[2], kf=v[3],
                      sig=core.digest(["B-pdo", v[0], v[3]]), note=v[0])


# ------------------------------------------------------------------ part C
def conf_opt(conf):
    """the optional 5th element of a chain configuration:
    ("v", vendor type, after) or ("assign", rx slots, tx slots)"""
    return conf[4] if len(conf) > 4 else None


def vendor_content(vtype):
    """contents of the vendor category: a well-formed category of the kind
    its low 15 bits would name, describing ANOTHER layout than the real one
    of the image"""
    t = vtype & 0x7FFF
    if t == 41:
        return coe.sm_category(
            [coe.SmEntry(0x1400, 4, 0x20, 0, 1, coe.SM_PD_IN),
             coe.SmEntry(0x1480, 6, 0x24, 0, 1, coe.SM_PD_OUT)])
    if t == 51:
        return coe.pdo_category(build_pdos((("u16", "u8"),), 0x7100, 2,
                                           False))
    if t == 50:
        return coe.pdo_category(build_pdos((("u8", "u32"),), 0x6100, 3,
                                           False))
    return category_bytes(6, 4)


def assign_lists(maxlen=3):
    """every assignment list of 0..maxlen slots over {0 = unused slot,
    1, 2, 3 = PDO A, B, C}; a PDO is assigned at most once"""
    out = []
    for n in range(maxlen + 1):
        for lst in itertools.product(range(4), repeat=n):
            used = [k for k in lst if k]
            if len(used) == len(set(used)):
                out.append(lst)
    return out


def assign_objects(rl, tl, rxp, txp):
    """object dictionary {(index, sub): bytes} of a terminal whose
    assignment objects hold the slots rl / tl (0 = unused slot, k = the
    k-th PDO of the direction)"""
    obj = {}
    for assign, slots, pdos in ((0x1c12, rl, rxp), (0x1c13, tl, txp)):
        obj[assign, 0] = bytes([len(slots)])
        for i, k in enumerate(slots, 1):
            obj[assign, i] = struct.pack("<H", pdos[k - 1].index if k else 0)
        for p in pdos:
            obj[p.index, 0] = bytes([len(p.entries)])
            for j, e in enumerate(p.entries, 1):
                obj[p.index, j] = struct.pack("<BBH", e.bits, e.subindex,
                                              e.index)
    return obj


def assigned(slots, pdos):
    """reference: unused slots are skipped, every other slot contributes
    its PDO, in slot order"""
    return [pdos[k - 1] for k in slots if k]


def chain_objects(conf, rx, tx):
    opt = conf_opt(conf)
    if opt and opt[0] == "assign":
        return assign_objects(opt[1], opt[2], rx, tx)
    return coe.pdo_objects(rx, tx)


def chain_image(conf, seed):
    mailbox, shape, unassigned, extra = conf[:4]
    opt = conf_opt(conf)
    sms = []
    if mailbox:
        sms += [coe.SmEntry(0x1000, 32, 0x26, 0, 1, coe.SM_MBX_OUT),
                coe.SmEntry(0x1080, 24, 0x22, 0, 1, coe.SM_MBX_IN)]
    sms += [coe.SmEntry(0x1100, 0, 0x24, 0, 1, coe.SM_PD_OUT),
            coe.SmEntry(0x1180, 0, 0x20, 0, 1, coe.SM_PD_IN)]
    rx = build_pdos(shape, 0x7000, 2, unassigned)
    tx = build_pdos(shape[::-1], 0x6000, 3, unassigned)
    vendor = opt is not None and opt[0] == "v"
    cats = []
    if extra or vendor:
        cats.append((10, category_bytes(0, 3)))
        cats.append((30, category_bytes(1, 9)))
    if vendor:
        cats.append((40, category_bytes(2, 2)))
    cats.append((41, coe.sm_category(sms)))
    cats.append((50, coe.pdo_category(tx)))
    cats.append((51, coe.pdo_category(rx)))
    if extra or vendor:
        cats.append((60, category_bytes(5, 5)))
    if vendor:
        _, vtype, after = opt
        entry = (vtype, vendor_content(vtype))
        at = [i for i, (t, d) in enumerate(cats) if t == vtype & 0x7FFF]
        if at:          # next to the category with the same low 15 bits
            cats.insert(at[0] + 1 if after else at[0], entry)
        elif after:     # 0x8000, 0x8001, 0xfffe: last / first of the list
            cats.append(entry)
        else:
            cats.insert(0, entry)
    ident = identity(seed + len(shape), seed)
    return ident, sms, rx, tx, cats, coe.sii_image(
        *ident, categories=cats, pad=0,
        mailbox=(0x1000, 32, 0x1080, 24) if mailbox else None)


def execute_chain(ch, conf, eight, seed, first=None):
    """first = another configuration: the same Terminal object went through
    apply_eeprom + parse_pdos on that image before (fixed timing), then the
    terminal's EEPROM and objects are exchanged (a terminal re-initialised
    after its EEPROM was rewritten, a terminal swapped for another one)"""
    ident, sms, rx, tx, cats, image = chain_image(conf, seed)
    mailbox = conf[0]
    loop = vloop.VLoop()
    with loop:
        t = bussim.Terminal("t", station=9, sii=image, sii_eight=eight)
        live = [first is None]
        t.sii_busy_polls = lambda term, phase: ch.choose(
            K + 1, "busy", list(range(K + 1))) if live[0] else 0
        coe.esc_mailbox_rules(t)
        t.mbx_latency = lambda term: ch.choose(
            K + 1, "latency", list(range(K + 1))) if live[0] else 0
        m = bussim.Master(bussim.Bus([t]), lambda: EtherCat("sim"), loop)
        term = Terminal(m.ec)
        term.position = 9
        term.mbx_lock = m.ec.get_mbx_lock(9)

        async def chain():
            await term.apply_eeprom()
            return await term.parse_pdos()
        before = None
        if first is not None:
            fident, fsms, frx, ftx, fcats, fimage = chain_image(first,
                                                                seed + 1)
            t.sii = bytearray(fimage)
            t.mbx_handler = coe.SdoServer(chain_objects(first, frx, ftx))
            fut = asyncio.ensure_future(chain())
            done = m.run(fut, max_frames=frame_budget(fimage) + 2000)
            before = bool(done)
            if not done:
                fut.cancel()
            t.sii = bytearray(image)
            m.frames = 0
            live[0] = True
        server = coe.SdoServer(chain_objects(conf, rx, tx))
        t.mbx_handler = server
        fut = asyncio.ensure_future(chain())
        done = m.run(fut, max_frames=frame_budget(image) + 2000)
        raised = ret = None
        if not done:
            raised = ("pending", "")
        elif fut.exception() is not None:
            raised = (type(fut.exception()).__name__,
                      str(fut.exception())[:60])
        else:
            ret = fut.result()
        obs = dict(raised=raised, ret=list(ret) if ret else None,
                   pdos=plain(getattr(term, "pdos", {})),
                   regs=bytes(t.mem[0x800:0x880]).hex(),
                   eeprom=sorted((k, bytes(v).hex()) for k, v in
                                 getattr(term, "eeprom", {}).items()),
                   ident=[getattr(term, a, None) for a in
                          ("vendorId", "productCode", "revisionNo",
                           "serialNo")],
                   sm=[getattr(term, a, None) for mode in MODES
                       for a in ATTR[mode] if a],
                   errors=[list(e) for e in server.protocol_errors],
                   aborts=[list(a) for a in server.aborts],
                   requests=server.requests, frames=m.frames)
        if before is not None:
            obs["before"] = before
        term_pdos = dict(getattr(term, "pdos", {}))
        loop.shutdown()
    return obs, term_pdos, term


def judge_chain(conf, seed, obs, term_pdos, term):
    ident, sms, rx, tx, cats, image = chain_image(conf, seed)
    mailbox = conf[0]
    if obs["raised"] and obs["raised"][0] == "pending":
        return ("chain terminates", "return", obs["raised"], None)
    if obs["ident"] != list(ident):
        return ("identity fields", list(ident), obs["ident"], None)
    want = sorted((t, d.hex()) for t, d in cats)
    if obs["eeprom"] != want:
        return ("eeprom dict", want, obs["eeprom"], None)
    cat = coe.sm_category(sms)
    # the status byte is read-only in an ESC; the model stores what is
    # written, so the registers simply hold the category
    if obs["regs"] != cat.ljust(0x80, b"\0").hex():
        return ("sync manager registers 0x800..", cat.hex(), obs["regs"],
                None)
    v = judge_sm(term, sms)
    if v:
        return v + (None,)
    if obs["errors"] or obs["aborts"]:
        return ("SDO protocol", [], [obs["errors"], obs["aborts"]], None)
    if mailbox and not obs["raised"] and obs["requests"] == 0:
        return ("SDO source used with a mailbox", "> 0 requests", 0, None)
    opt = conf_opt(conf)
    if mailbox and opt and opt[0] == "assign":
        # unused (zero) slots of the assignment objects are skipped
        rx, tx = assigned(opt[1], rx), assigned(opt[2], tx)
    elif mailbox:
        # the SDO source only lists assigned PDOs
        rx = [p for p in rx if p.sm != 0xff]
        tx = [p for p in tx if p.sm != 0xff]
    return judge_pdos(term_pdos, obs["ret"] or (), rx, tx, obs["raised"])


def work_chain(item, res):
    """C: fresh Terminal object; C2: the object has been through the chain
    on another image (`first`) before - judged against the image under test
    exactly as a fresh object would be"""
    first = None
    part = item[0]
    if part == "C2":
        _, conf, eight, bound, seed, first = item
    else:
        _, conf, eight, bound, seed = item

    def on_exec(ch, out):
        obs, term_pdos, term = out
        res.count("evaluations")
        res.count("transitions", obs["frames"])
        v = judge_chain(conf, seed, obs, term_pdos, term)
        if v == "rejected":
            res.count("outside_precondition")
            res.outcomes.add((part, "rejected"))
            return
        res.nontrivial.add(core.digest([part, conf, eight, first,
                                        ch.choices]))
        res.outcomes.add((part, conf[0], "ok" if v is None else "bad",
                          min(obs["requests"], 9)))
        if v:
            note = v[0]
            if first is not None:
                note += " (second apply_eeprom + parse_pdos of the same " \
                    "Terminal object)"
            res.violation(dict(part=part, conf=conf, eight=eight, seed=seed,
                               first=first, choices=list(ch.choices)),
                          v[1], v[2], kf=v[3],
                          sig=core.digest([part, v[0], v[3]]), note=note)
            bad.append(1)
            if len(bad) >= 3:
                raise Enough()
    bad = []
    try:
        cnt, capped = explore.dfs(
            lambda ch: execute_chain(ch, conf, eight, seed, first), bound,
            on_exec, max_execs=4000)
    except Enough:
        return
    if capped:
        res.caps_hit.append(f"{part} {conf}: {cnt} executions")


# ------------------------------------------------------------------ part S
def parse_from_sdo(objects):
    """the real parse_pdos of a mailbox terminal; sdo_read answers from the
    object dictionary"""
    term = Terminal(None)
    term.parse_sync_managers(coe.sm_category(
        [coe.SmEntry(0x1000, 32, 0x26, 0, 1, coe.SM_MBX_OUT),
         coe.SmEntry(0x1080, 24, 0x22, 0, 1, coe.SM_MBX_IN),
         coe.SmEntry(0x1100, 0, 0x24, 0, 1, coe.SM_PD_OUT),
         coe.SmEntry(0x1180, 0, 0x20, 0, 1, coe.SM_PD_IN)]))
    if not term.has_mailbox():
        raise core.Internal("part S: the terminal has no mailbox")
    term.eeprom = {}
    reads = []

    async def sdo_read(index, subindex=None):
        reads.append((index, subindex))
        if (index, subindex) not in objects:
            raise core.Internal(f"part S: object {index:#x}:{subindex} "
                                "does not exist")
        return objects[index, subindex]
    term.sdo_read = sdo_read
    raised = ret = None
    try:
        ret = drive(term.parse_pdos())
    except core.Internal:
        raise
    except Exception as e:
        raised = (type(e).__name__, str(e)[:60])
    return term.pdos, ret, raised, reads


def run_assign(vi, rl, tl):
    variant = SDO_VARIANTS[vi]
    rxp = build_pdos(variant, 0x7000, 2, False)
    txp = build_pdos(variant[::-1], 0x6000, 3, False)
    pdos, ret, raised, reads = parse_from_sdo(
        assign_objects(rl, tl, rxp, txp))
    return pdos, judge_pdos(pdos, ret or (), assigned(rl, rxp),
                            assigned(tl, txp), raised)


def work_assign(item, res):
    """S: 0x1C12 holds the slots rl, 0x1C13 every list in turn"""
    _, vi, rl, seed = item
    for tl in assign_lists():
        pdos, v = run_assign(vi, rl, tl)
        res.count("evaluations")
        if v == "rejected":
            res.count("outside_precondition")
            res.outcomes.add(("S", "rejected"))
            continue
        if any(rl) or any(tl):
            res.nontrivial.add(core.digest(["S", vi, rl, tl]))
        res.outcomes.add(("S", "ok" if v is None else "bad", len(pdos)))
        if v:
            res.violation(dict(part="S", variant=vi, rl=list(rl),
                               tl=list(tl), seed=seed),
                          v[1], v[2], kf=v[3],
                          sig=core.digest(["S", v[0], v[3]]),
                          note=v[0] + " (SDO source; 0 = unused slot of "
                          "0x1C12 / 0x1C13)")


# ------------------------------------------------------------------ driving
def shapes_read(maxcats):
    for n in range(maxcats + 1):
        for types in itertools.permutations(TYPES, n):
            for words in itertools.product(WORDS, repeat=n):
                yield tuple(zip(types, words))


def shapes_vendor(quick):
    """category lists with vendor specific types: every one alone; with the
    category that has the same low 15 bits, before and after it; (thorough)
    the three orders of both around / between another vendor category"""
    for v in VTYPES:
        for w in WORDS:
            yield ((v, w),)
    words = [0, 1, 3] if quick else WORDS
    for v in VTYPES:
        for w1 in words:
            for w2 in words:
                yield ((v & 0x7FFF, w1), (v, w2))
                yield ((v, w2), (v & 0x7FFF, w1))
    for x in ((0xFFFE,) if quick else (0xFFFE, 0x8001)):
        for t in ((41, 51) if quick else VSTD):
            for ws in ([(1, 2, 3)] if quick else
                       itertools.product((1, 2), repeat=3)):
                for perm in itertools.permutations((x, t, 0x8000 | t)):
                    yield tuple(zip(perm, ws))


def gap_shapes():
    """one PDO: bit position {0, 3, 4} x gap width x what follows"""
    for pre in GAP_PREFIX:
        for gap in GAPS:
            for suf in GAP_SUFFIX:
                yield (pre + (gap,) + suf,)


def pdo_shapes(max_entries, max_pdos, kinds=KINDS):
    one = [s for n in range(max_entries + 1)
           for s in itertools.product(kinds, repeat=n)]
    for s in one:
        yield (s,)
    if max_pdos >= 2:
        for a in one:
            for b in one:
                yield (a, b)


def work(item, res):
    {"A": work_read, "A2": work_read, "sm": work_sm, "sm2": work_sm2,
     "pdo": work_pdo, "C": work_chain, "C2": work_chain,
     "S": work_assign}[item[0]](item, res)


def items(ctx):
    seed = ctx.seed
    out = []
    # ---- A
    n = 0
    for shape in itertools.chain(shapes_read(2 if ctx.quick else 3),
                                 shapes_vendor(ctx.quick)):
        vend = any(t >= 0x8000 for t, w in shape)
        n += 1
        for eight in (False, True):
            pick = (n + seed) % (29 if ctx.quick else 7) == 0
            if ctx.quick:
                bound = 2 if len(shape) <= 1 or pick else 0
            elif len(shape) <= 1:
                bound = 3
            elif len(shape) == 2:
                bound = 2 if pick else 1
            else:
                bound = 1 if (n + seed) % 97 == 0 else 0
            if vend:
                # the busy durations are explored on the standard types;
                # the vendor lists take one deviation less
                bound = max(bound - 1, 0)
            out.append(("A", shape, n, eight, bound, seed))
            # the same walk as the second read of a Terminal object: after
            # every first image for <= 1 category, after one of them (in
            # turn) for the longer lists
            if len(shape) <= 1 and not vend:
                firsts = range(len(FIRSTS))
            elif len(shape) <= 2 or (n + seed) % 4 == 0:
                firsts = [(n + seed + eight) % len(FIRSTS)]
            else:
                firsts = []
            for fi in firsts:
                out.append(("A2", shape, n, eight, min(bound, 1), seed, fi))
    # ---- B
    for k in range(5):
        for seq in itertools.product(MODES, repeat=k):
            out.append(("sm", seq, seed))
    # the same object used twice: every pair of sequences of <= 2 (quick)
    # / <= 3 areas
    kmax = 2 if ctx.quick else 3
    seqs = [q for k in range(kmax + 1)
            for q in itertools.product(MODES, repeat=k)]
    for first in seqs:
        for seq in seqs:
            if first != seq:
                out.append(("sm2", first, seq, seed))
    shapes = list(pdo_shapes(2 if ctx.quick else 3, 2))
    have = set(shapes)
    # the wider alphabet (more gap widths, 3/4-bit fields): pairs of PDOs
    # with <= 2 entries, single PDOs with 3, and the gap family
    for more in (pdo_shapes(2, 2, KINDS_X), pdo_shapes(3, 1, KINDS_X),
                 gap_shapes()):
        for shape in more:
            if shape not in have:
                have.add(shape)
                shapes.append(shape)
    for shape in shapes:
        out.append(("pdo", shape, False, seed))
        if len(shape) == 2:
            out.append(("pdo", shape, True, seed))
    # ---- C
    m = 0
    chain = [sh for sh in pdo_shapes(2, 2 if not ctx.quick else 1)
             if not (len(sh) == 2 and len(sh[0]) + len(sh[1]) > 3)]
    chain += [sh for sh in gap_shapes()
              if ctx.quick is False or sh[0][-1] in ("u8",) or
              sh[0][-1].startswith("pad")]
    for shape in chain:
        for mailbox in (False, True):
            for unassigned in ((False, True) if len(shape) == 2
                               else (False,)):
                m += 1
                conf = (mailbox, shape, unassigned, m % 2 == 0)
                eight = (m + seed) % 2 == 0
                bound = 1 if (m + seed) % (11 if ctx.quick else 3) == 0 \
                    else 0
                out.append(("C", conf, eight, bound, seed))
    # the chain as the second one of a Terminal object: after the chain on
    # the configuration 1 / 7 / 31 places earlier (other shape, other
    # source, other category list)
    confs = [it for it in out if it[0] == "C"]
    for i, it in enumerate(confs):
        step = (1, 7, 31)[(i + seed) % 3]
        first = confs[(i - step) % len(confs)][1]
        if first != it[1] and (not ctx.quick or (i + seed) % 2 == 0):
            out.append(("C2", it[1], it[2], 0, seed, first))
    # ---- CV: complete images with one vendor category next to the
    # category with the same low 15 bits (before / after), both sources
    vshapes = [(("u8",),), (("b1", "pad", "u16"), ("u8",))]
    if not ctx.quick:
        vshapes += [(("u16", "b2"),), (("u32",), ("b1", "b2"))]
    for shape in vshapes:
        for mailbox in (False, True):
            for v in VTYPES:
                for after in (False, True):
                    m += 1
                    conf = (mailbox, shape, False, True, ("v", v, after))
                    out.append(("C", conf, (m + seed) % 2 == 0,
                                1 if (m + seed) % 23 == 0 else 0, seed))
    # ---- CS: assignment objects with unused slots, read with the real
    # sdo_read from the SDO server: every list once per direction (quick),
    # against 1 / 3 / 5 others (thorough)
    lists = assign_lists()
    for vi, variant in enumerate(SDO_VARIANTS[:1 if ctx.quick else 3]):
        for step in ((7,) if ctx.quick else (7, 19, 33)):
            for i, rl in enumerate(lists):
                m += 1
                tl = lists[(i * step + 3 + seed) % len(lists)]
                conf = (True, variant, False, m % 2 == 0, ("assign", rl, tl))
                out.append(("C", conf, (m + seed) % 2 == 0, 0, seed))
    # ---- S: 0x1C12 x 0x1C13 over all assignment lists, per variant
    for vi in range(len(SDO_VARIANTS)):
        for rl in lists:
            out.append(("S", vi, rl, seed))
    return out


def run(ctx):
    try:
        stats = coe.selftest(os.path.dirname(os.path.dirname(ecmod.__file__)))
    except AssertionError as e:
        raise core.Internal(f"mc/coe.py self-test failed: {e!r}")
    its = items(ctx)
    # neighbours in enumeration order cost alike: spread them over the chunks
    its = [its[i] for i in sorted(range(len(its)),
                                  key=lambda i: (i % 61, i))]
    probe = ((41, 3), (10, 9))
    a = execute_read(explore.Chooser((1, 2, 0, 1)), probe, 5, False, ctx.seed)
    b = execute_read(explore.Chooser((1, 2, 0, 1)), probe, 5, False, ctx.seed)
    if a != b:
        raise core.Internal("non-deterministic execution")
    res = core.pmap(ctx, work, its)
    res.cov["states"] = len(res.nontrivial)
    res.cov["traces_validated_against_impl"] = res.cov.get("evaluations", 0)
    res.cov["items"] = {k: sum(1 for i in its if i[0] == k)
                        for k in ("A", "A2", "sm", "sm2", "pdo", "C", "C2",
                                  "S")}
    res.cov["items"]["A-vendor"] = sum(
        1 for i in its if i[0] == "A" and any(t >= 0x8000 for t, w in i[1]))
    res.cov["items"]["C-vendor"] = sum(
        1 for i in its if i[0] == "C" and (conf_opt(i[1]) or [0])[0] == "v")
    res.cov["items"]["C-assign"] = sum(
        1 for i in its if i[0] == "C" and
        (conf_opt(i[1]) or [0])[0] == "assign")
    res.cov["model_selftest"] = stats
    res.cov["bound_completed"] = 2 if ctx.quick else 3
    res.sample(dict(part="A", shape=[[41, 3], [10, 9]], eight=False,
                    meaning="two categories of 3 and 9 words read 4 bytes "
                            "at a time"))
    res.sample(dict(part="B-pdo", shape=[["b1", "pad", "u16"], ["u8"]],
                    unassigned=True))
    res.sample(dict(part="A2", shape=[[0, 0], [41, 3]], eight=True, first=3,
                    meaning="a zero-length NOP category, then 3 words; read "
                            "by an object that has read FIRSTS[3] before"))
    res.assumptions += [
        "read_eeprom has to finish within 16 frames per 8 bytes of image "
        "(a reader needs at most 11 with busy <= 2 polls)",
        "busy at the first polling loop only occurs before the first "
        "command (the interface is idle after a completed read)",
        "several sync managers of one kind: the attributes may describe any "
        "one of them (consistently: offset, size and register address of "
        "the same entry)",
        "an entry of >= 8 bits that is not byte aligned cannot be expressed "
        "in Terminal.pdos; RuntimeError is the accepted answer (counted as "
        "outside_precondition)",
        "a PDO whose SyncM byte is 0xff is not assigned (ETG.2010) and takes "
        "no room in the process data; the SDO source lists assigned PDOs "
        "only",
        "busy deviations: bound 3 for <= 1 category, 1..2 for 2 categories, "
        "0..1 for 3 categories (quick: 2 for <= 1 category and a slice); "
        "one less for the lists with vendor types",
        "category type 0 is the NOP category of the SII and may carry any "
        "number of words, also none, anywhere in the list; only the type "
        "0xffff ends the list (an all-zero header is never used as an end: "
        "every image ends with 0xffff); what follows the end marker in the "
        "image means nothing (0xff or garbage)",
        "a category type with bit 15 set (vendor specific) is a type like "
        "any other: the category is returned under the 16-bit type stored "
        "in its header, and it is not the standard category with the same "
        "low 15 bits; only 0xffff is the end marker",
        "SDO source: a slot of 0x1C12 / 0x1C13 holding 0 is unused and is "
        "skipped, wherever it is in the list; the other slots contribute "
        "their PDOs in slot order; lists assigning one PDO twice are not "
        "enumerated",
        "A2 / C2: reading (applying, parsing) again on the same Terminal "
        "object has to give what a fresh object gives for the image now in "
        "the terminal; the first read runs without busy polls, only the "
        "second one is explored (busy deviations <= 1 / 0); A2 for 3 "
        "categories covers every fourth list"]
    return res


def replay(ctx, rep):
    res = core.Result()
    c = rep["case"]
    part = c["part"]
    if part in ("A", "A2"):
        shape = tuple(tuple(x) for x in c["shape"])
        first = None if c.get("first") is None else FIRSTS[c["first"]]
        obs = execute_read(explore.Chooser(tuple(c["choices"])), shape,
                           c["n"], c["eight"], c["seed"], first)
        print(obs)
        v = judge_read(shape, c["n"], c["seed"], obs, first)
        if v:
            res.violation(c, v[1], v[2], note=v[0])
    elif part == "B-sm":
        work_sm(("sm", tuple(c["seq"]), c["seed"]), res)
    elif part == "B-sm2":
        work_sm2(("sm2", tuple(c["first"]), tuple(c["seq"]), c["seed"]), res)
    elif part == "S":
        pdos, v = run_assign(c["variant"], tuple(c["rl"]), tuple(c["tl"]))
        print(plain(pdos))
        if v and v != "rejected":
            res.violation(c, v[1], v[2], kf=v[3], note=v[0])
    elif part == "B-pdo":
        work_pdo(("pdo", tuple(tuple(s) for s in c["shape"]),
                  c["unassigned"], c["seed"]), res)
    else:
        def conf_of(conf):
            return tuple(conf_of(x) if isinstance(x, (list, tuple)) else x
                         for x in conf)
        conf = conf_of(c["conf"])
        first = conf_of(c["first"]) if c.get("first") else None
        out = execute_chain(explore.Chooser(tuple(c["choices"])), conf,
                            c["eight"], c["seed"], first)
        print(out[0])
        v = judge_chain(conf, c["seed"], *out)
        if v and v != "rejected":
            res.violation(c, v[1], v[2], kf=v[3], note=v[0])
    for v in res.violations:
        print("  ", v["note"], "| expected", str(v["expected"])[:300],
              "| observed", str(v["observed"])[:300])
    return res.violations
