"""C09 - hash-map variables and Dict entries agree between Python and program.

Explicit-state breadth-first search over operation sequences.  A state is
the content of the kernel map (for LRU maps including the recency order of
the simulated kernel); it is re-established before every transition by
writing the map directly (simulated kernel: the BpfMap; real kernel: raw
bpf() calls from mc/kern), so every edge of the reachable graph is executed
once on the real ebpfcat code:

* Python operations go through the real descriptors / TheDict methods and
  the (simulated or real) bpf() wrappers;
* program operations are blocks emitted by the real DSL (`Dict.update()`,
  `lookup()`+Else, member access, hash-map variable reads and writes),
  selected at run time by a packet byte through raw guard jumps, loaded with
  the real `EBPF.load()` and executed by the independent interpreter.

Every transition is judged locally by a reference model (independent 64-bit
cells; a plain dict of packed little-endian tuples).  A deterministic subset
of configurations runs the same edges unpatched on the real kernel and must
give the same results.
"""
import contextlib
import gc
import itertools
import struct

from mc import core, dsl, kern, simkernel
from ebpfcat.bpf import ProgType, UpdateFlags
from ebpfcat.ebpf import EBPF, Instruction, Member, Structure
from ebpfcat.hashmap import Dict, HashMap
from harness.c08_arraymap import real_kernel

PROP = "C09"
LEVEL = "model_checking"
RULE = ("configurations = hash-map variable sets (formats I i Q q B h, "
        "defaults 0 5 -1, 1-3 variables) and Dict declarations (packed "
        "Structure member lists over sizes 1/2/4/8 for key and value, size "
        "2/31, lru on/off); per configuration a breadth-first search over "
        "operation sequences from the freshly loaded program up to the depth "
        "bound, deduplicated on the map content; every edge (state, "
        "operation) is executed on the real code and compared with the "
        "reference model; an edge is non-trivial when the operation was "
        "accepted by the library and had an observable result; distinct = "
        "distinct (configuration, state, operation)")

M64 = (1 << 64) - 1
HDR = 16
SEL = 14                 # packet byte selecting the program operation
E2BIG, EEXIST, ENOENT = 7, 17, 2

KF_ITER = "C09-dict-iterate-empty"
KF_POP = "C09-dict-pop-does-not-delete"


def sx64(v):
    v &= M64
    return v - (1 << 64) if v >> 63 else v


# ====================================================================
# backends
# ====================================================================
class SimBackend:
    name = "sim"

    def __init__(self, n_possible=1):
        self.sk = simkernel.SimKernel(n_possible=n_possible)

    def context(self):
        return self.sk.installed()

    def run(self, fd, pkt):
        pkt = bytearray(pkt)
        ret, vm = self.sk.run_prog(fd, pkt)
        self.steps = vm.steps
        return ret, bytes(pkt)

    def snapshot(self, mapfd):
        m = self.sk.map_of(mapfd)
        return [(bytes(k), bytes(v)) for k, v in m.entries.items()]

    def restore(self, mapfd, entries):
        m = self.sk.map_of(mapfd)
        m.entries = {bytes(k): bytearray(v) for k, v in entries}

    def ordered(self, mapfd):
        return self.sk.map_of(mapfd).type == 9

    def close(self):
        self.sk.close_all()


class RealBackend:
    name = "real"
    steps = 0

    def context(self):
        return real_kernel()

    def run(self, fd, pkt):
        return kern.test_run(fd, bytes(pkt))

    def _sizes(self, mapfd):
        return self.sizes[mapfd]

    sizes = None

    def snapshot(self, mapfd):
        ks, vs = self.sizes[mapfd]
        out, k = [], None
        while True:
            k = kern.map_next_key(mapfd, k, ks)
            if k is None:
                break
            out.append((k, kern.map_lookup(mapfd, k, vs)))
        return sorted(out)

    def restore(self, mapfd, entries):
        for k, _ in self.snapshot(mapfd):
            kern.map_delete(mapfd, k)
        for k, v in entries:
            kern.map_update(mapfd, k, v)

    def ordered(self, mapfd):
        return False

    def close(self):
        pass


@contextlib.contextmanager
def guard(b, sel):
    """raw `if packet[SEL] != sel: skip the block` around DSL statements"""
    e = b.e
    with e.get_free_register(None) as tmp:
        b.raw(0x71, tmp, 9, SEL, 0)
        idx = len(e.opcodes)
        e.opcodes.append(None)
    yield
    e.opcodes[idx] = Instruction(dsl.Raw(0x55), tmp, 0,
                                 len(e.opcodes) - idx - 1, sel)


def fmt_range(fmt):
    bits = struct.calcsize(fmt) * 8
    if fmt.islower():
        return -(1 << (bits - 1)), (1 << (bits - 1)) - 1
    return 0, (1 << bits) - 1


def has_prefix(fmt):
    """does the format carry its own byte order ('>H', '!i', '<Q')"""
    return fmt[0] in "<>!"


def sf(fmt):
    """struct format of the reference encoding: a format with its own byte
    order keeps it, everything else is little endian"""
    return fmt if has_prefix(fmt) else "<" + fmt


class SiblingBuilder(dsl.Builder):
    """a Builder around one more instance of the program class of `first`
    (same packet layout, same raw preamble)"""

    def __init__(self, first, preamble):
        for k in ("pv_area", "in_off", "n_in", "n_out", "out_off", "pkt_len",
                  "cls"):
            setattr(self, k, getattr(first, k))
        if len(preamble) != 7 or not all(
                isinstance(i.opcode, dsl.Raw) for i in preamble):
            raise core.Internal("unexpected Builder preamble")
        self.e = self.cls(prog_type=ProgType.XDP, license="GPL",
                          subprograms=())
        self.e.opcodes.extend(preamble)
        self.e.owners.add(9)
        self._decoded = None


# ====================================================================
# hash-map variables
# ====================================================================
HFMT = ["I", "i", "Q", "q", "B", "h"]
# formats with their own byte order: judged on values, see HashVarCase
XHFMT = [">H", ">I", "!h", "<I", ">q", "<Q", "!B", ">i", "<h"]
DEFAULTS = [0, 5, -1]
KF_BEGET = "C09-hashvar-bigendian-python-read"


def hv_values(fmt):
    lo, hi = fmt_range(fmt)
    return [hi, lo if lo else (hi + 1) >> 1]


class HashVarCase:
    """class with one HashMap and variables v0..; program:
    sel 1+j: v_j = 64-bit packet value; sel 16+4j+k: v_j = v_k;
    always: every variable is copied to the packet with its own format"""

    def __init__(self, cfg, backend, with_program=True):
        self.cfg = cfg
        self.be = backend
        self.vars = cfg["vars"]
        n = len(self.vars)
        M = HashMap()
        attrs = {"hmap": M}
        for j, (f, d) in enumerate(self.vars):
            attrs[f"v{j}"] = M.globalVar(f, default=d)
        b = self.b = dsl.Builder(attrs, n_in=1, n_out=n, pv_area=HDR)
        e = self.e = b.e
        if with_program:
            for j, (f, d) in enumerate(self.vars):
                with guard(b, 1 + j):
                    setattr(e, f"v{j}", e.mQ[e.r9 + b.in_off])
                # a computed value: goes through the generator's spill
                # temporary (Expression.get_address)
                with guard(b, 8 + j):
                    setattr(e, f"v{j}", e.mQ[e.r9 + b.in_off] + 1)
            for j in range(n):
                for k in range(n):
                    if j != k:
                        with guard(b, 16 + 4 * j + k):
                            setattr(e, f"v{j}", getattr(e, f"v{k}"))
            for j, (f, d) in enumerate(self.vars):
                getattr(e, "m" + f)[e.r9 + (b.out_off + 8 * j)] = \
                    getattr(e, f"v{j}")
        b.finish(2)
        e.load()
        self.mapfd = e.__dict__["v0"].fd
        if isinstance(backend, RealBackend):
            backend.sizes = {self.mapfd: (1, 8)}
        self.keys = None

    def learn_keys(self):
        """which map entry belongs to which variable (by probing)"""
        be = self.be
        before = dict(be.snapshot(self.mapfd))
        if len(before) != len(self.vars):
            return None
        keys = []
        for j, (f, d) in enumerate(self.vars):
            marker = 0x5a if d != 0x5a else 0x33
            setattr(self.e, f"v{j}", marker)
            now = dict(be.snapshot(self.mapfd))
            ch = [k for k in now if now[k] != before.get(k)]
            if len(ch) != 1 or ch[0] in keys:
                return None
            keys.append(ch[0])
            be.restore(self.mapfd, list(before.items()))
        self.keys = keys
        return keys

    def cells(self):
        snap = dict(self.be.snapshot(self.mapfd))
        return tuple(struct.unpack("<Q", snap[k])[0] if k in snap and
                     len(snap[k]) == 8 else None for k in self.keys)

    def set_cells(self, cells):
        self.be.restore(self.mapfd, [(k, struct.pack("<Q", c))
                                     for k, c in zip(self.keys, cells)])

    def ops(self):
        n = len(self.vars)
        out = []
        for j, (f, d) in enumerate(self.vars):
            for v in hv_values(f):
                out.append(("pyset", j, v))
            for v in hv_values(f):
                out.append(("progset", j, v & M64))
            for v in hv_values(f)[:3]:
                out.append(("progexpr", j, v & M64))
            for k in range(n):
                if k != j:
                    out.append(("progcopy", j, k))
        return out

    def apply(self, op):
        kind = op[0]
        if kind == "pyset":
            try:
                setattr(self.e, f"v{op[1]}", op[2])
                return ("ok",)
            except Exception as ex:
                return ("exc", type(ex).__name__)
        pkt = bytearray(self.b.pkt_len)
        if kind == "progset":
            pkt[SEL] = 1 + op[1]
            struct.pack_into("<Q", pkt, self.b.in_off, op[2])
        elif kind == "progexpr":
            pkt[SEL] = 8 + op[1]
            struct.pack_into("<Q", pkt, self.b.in_off, op[2])
        else:
            pkt[SEL] = 16 + 4 * op[1] + op[2]
        try:
            ret, out = self.be.run(self.e.file_descriptor, pkt)
        except simkernel.SimTrap as t:
            return ("trap", str(t))
        return ("ret", ret)

    def observe(self):
        """-> (python reads, program reads as raw bytes)"""
        py = []
        for j, (f, d) in enumerate(self.vars):
            try:
                py.append(getattr(self.e, f"v{j}"))
            except Exception as ex:
                py.append("exc:" + type(ex).__name__)
        pkt = bytearray(self.b.pkt_len)
        try:
            ret, out = self.be.run(self.e.file_descriptor, pkt)
        except simkernel.SimTrap as t:
            return py, ("trap", str(t))
        prog = [bytes(out[self.b.out_off + 8 * j:self.b.out_off + 8 * j + 8])
                for j in range(len(self.vars))]
        return py, (ret, prog)


def hv_expected(vars_, cells, op):
    """reference: independent 64-bit cells -> (expected result, cells)"""
    cells = list(cells)
    if op[0] == "pyset":
        cells[op[1]] = op[2] & M64
        return ("ok",), tuple(cells)
    if op[0] == "progset":
        cells[op[1]] = op[2] & M64
    elif op[0] == "progexpr":
        cells[op[1]] = (op[2] + 1) & M64
    else:
        cells[op[1]] = cells[op[2]]
    return ("ret", 2), tuple(cells)


def hv_decode(fmt, cell):
    raw = struct.pack("<Q", cell)[:struct.calcsize(fmt)]
    return struct.unpack("<" + fmt, raw)[0]


def hv_check_observation(vars_, cells, obs):
    """-> list of (what, expected, observed)"""
    py, prog = obs
    bad = []
    for j, (f, d) in enumerate(vars_):
        exp = hv_decode(f, cells[j])
        if py[j] != exp:
            bad.append((f"Python read of v{j} ({f})", exp, py[j]))
    if prog[0] == "trap":
        bad.append(("program run", "returns 2", prog[1]))
    elif prog[0] != 2:
        bad.append(("program return value", 2, prog[0]))
    else:
        for j, (f, d) in enumerate(vars_):
            n = struct.calcsize(f)
            exp = struct.pack("<Q", cells[j])[:n] + bytes(8 - n)
            if prog[1][j] != exp:
                bad.append((f"program read of v{j} ({f})", exp, prog[1][j]))
    return bad


def explore_hashvars(cfg, depth, backend_cls, res, sink, shadow=None):
    """BFS; -> list of edge observations (for the differential)"""
    be = backend_cls()
    log = []
    cj = dict(kind="hashvars", vars=[list(v) for v in cfg["vars"]])
    try:
        with be.context():
            try:
                case = HashVarCase(cfg, be)
            except Exception as ex:
                if isinstance(ex, simkernel.SimTrap):
                    raise
                log.append(("rejected", type(ex).__name__))
                return log
            vars_ = case.vars
            # ---- defaults after load()
            init = tuple(d & M64 for f, d in vars_)
            if case.learn_keys() is None:
                snap = be.snapshot(case.mapfd)
                log.append(("nokeys", snap))
                if sink:
                    sink(cj, f"{len(vars_)} independent cells",
                         snap, "cells-not-independent",
                         note="cannot attribute one map entry per variable")
                return log
            got = case.cells()
            log.append(("init", got))
            if got != init and sink:
                sink(cj, init, got, "defaults",
                     note="cells after load() differ from the defaults")
            obs = case.observe()
            log.append(("obs0", obs))
            if sink:
                for what, exp, ob in hv_check_observation(vars_, got, obs):
                    sink(dict(cj, state=list(got), seq=[]), exp, ob,
                         "observe", note=what + " after load()")
            seen = {got: ()}
            frontier = [got]
            ops = case.ops()
            for level in range(depth):
                nxt = []
                for st in frontier:
                    for op in ops:
                        case.set_cells(st)
                        r = case.apply(op)
                        post = case.cells()
                        obs = case.observe()
                        log.append((st, op, r, post, obs))
                        if res is not None:
                            res.count("transitions")
                            res.count("vm_steps", getattr(be, "steps", 0))
                            res.nontrivial.add(core.digest(
                                [cj["vars"], st, op]))
                        er, epost = hv_expected(vars_, st, op)
                        c2 = dict(cj, state=list(st), op=list(op),
                                  seq=[list(o) for o in seen[st]])
                        ok = True
                        if r != er:
                            ok = False
                            if sink:
                                sink(c2, er, r, "op-result",
                                     note=f"result of {op}")
                        if post != epost:
                            ok = False
                            if sink:
                                sink(c2, epost, post, "cells",
                                     note=f"cells after {op}")
                        elif sink:
                            for what, exp, ob in hv_check_observation(
                                    vars_, post, obs):
                                ok = False
                                sink(c2, exp, ob, "observe",
                                     note=f"{what} after {op}")
                        if res is not None:
                            res.outcomes.add(("hv", op[0], r[0], ok))
                            if level == 1 and op[0] == "progcopy":
                                res.sample(dict(cj, seq=[list(o) for o in
                                                         seen[st]],
                                                op=list(op),
                                                cells_after=list(post)),
                                           limit=5)
                        if ok and post not in seen:
                            seen[post] = seen[st] + (op,)
                            nxt.append(post)
                frontier = nxt
            if res is not None:
                res.count("states", len(seen))
    finally:
        be.close()
    return log


# ====================================================================
# Dict
# ====================================================================
UNSIGNED = {1: "B", 2: "H", 4: "I", 8: "Q"}
SIGNED = {1: "b", 2: "h", 4: "i", 8: "q"}


def packed_lists():
    """all member size lists (<= 3 members) that Member accepts as packed"""
    out = []
    for n in (1, 2, 3):
        for sizes in itertools.product((1, 2, 4, 8), repeat=n):
            off, ok = 0, True
            for s in sizes:
                if off & (s - 1):
                    ok = False
                off += s
            if ok:
                out.append(sizes)
    return out


def key_fmts(sizes):
    return tuple(UNSIGNED[s] for s in sizes)


def value_fmts(sizes):
    # signed for the 2- and 8-byte members, so that sign handling shows
    return tuple(SIGNED[s] if s in (2, 8) else UNSIGNED[s] for s in sizes)


def universe(fmts, which):
    """member value tuples: a small universe of keys / values"""
    out = []
    for n in which:
        tup = []
        for i, f in enumerate(fmts):
            lo, hi = fmt_range(f)
            if n == 0:
                v = 1 + i
            elif n == 1:
                v = hi - i
            elif n == 2:
                v = lo if lo else (hi >> 1) + 1 + i
            else:
                v = (0x1122334455667788 >> (3 * i + n)) & (hi if not lo
                                                           else hi >> 1)
            tup.append(v)
        out.append(tuple(tup))
    return out


def enc(fmts, tup):
    return b"".join(struct.pack("<" + f, v) for f, v in zip(fmts, tup))


def dec(fmts, raw):
    out, off = [], 0
    for f in fmts:
        out.append(struct.unpack_from("<" + f, raw, off)[0])
        off += struct.calcsize(f)
    return tuple(out)


class DictCase:
    OPS_PY = ("pset", "pget", "ppop", "ppopd", "pdel", "piter", "pvalues")

    def __init__(self, cfg, backend, with_program=True):
        self.cfg = cfg
        self.be = backend
        kf, vf = self.kf, self.vf = tuple(cfg["key"]), tuple(cfg["value"])
        self.knames = [f"k{i}" for i in range(len(kf))]
        self.vnames = [f"m{i}" for i in range(len(vf))]
        self.Key = type("Key", (Structure,),
                        {n: Member(f) for n, f in zip(self.knames, kf)})
        self.Value = type("Value", (Structure,),
                          {n: Member(f) for n, f in zip(self.vnames, vf)})
        attrs = {"ht": Dict(key=self.Key, value=self.Value,
                            size=cfg["size"], lru=cfg["lru"])}
        b = self.b = dsl.Builder(attrs, n_in=6, n_out=5, pv_area=HDR)
        e = self.e = b.e
        self.keys = universe(kf, (0, 1, 2))
        self.values = universe(vf, (0, 2))
        self.can_add = vf[0] in "IiQq"
        if with_program:
            d = e.ht
            for i, (n, f) in enumerate(zip(self.knames, kf)):
                setattr(d.key, n, getattr(e, "m" + f)[e.r9 + (b.in_off + 8 * i)])
            for sel, flags in ((1, UpdateFlags.ANY), (2, UpdateFlags.NOEXIST),
                               (3, UpdateFlags.EXIST)):
                with guard(b, sel):
                    for i, (n, f) in enumerate(zip(self.vnames, vf)):
                        setattr(d.value, n, getattr(e, "m" + f)[
                            e.r9 + (b.in_off + 8 * (3 + i))])
                    d.update(flags)
                    b.out_reg(0, 0)
            with guard(b, 4):
                with d.lookup() as (value, Else):
                    for i, (n, f) in enumerate(zip(self.vnames, vf)):
                        getattr(e, "m" + f)[e.r9 + (b.out_off + 8 * (2 + i))] = \
                            getattr(value, n)
                    e.mB[e.r9 + (b.out_off + 8)] = 1
                with Else:
                    e.mB[e.r9 + (b.out_off + 8)] = 2
            with guard(b, 5):
                with d.lookup() as (value, Else):
                    for i, (n, f) in enumerate(zip(self.vnames, vf)):
                        setattr(value, n, getattr(e, "m" + f)[
                            e.r9 + (b.in_off + 8 * (3 + i))])
                    e.mB[e.r9 + (b.out_off + 8)] = 1
                with Else:
                    e.mB[e.r9 + (b.out_off + 8)] = 2
            if self.can_add:
                with guard(b, 6):
                    with d.lookup() as (value, Else):
                        value.m0 += 3
                        e.mB[e.r9 + (b.out_off + 8)] = 1
                    with Else:
                        e.mB[e.r9 + (b.out_off + 8)] = 2
        b.finish(2)
        e.load()
        self.mapfd = e.ht.fd
        if isinstance(backend, RealBackend):
            backend.sizes = {self.mapfd: (len(enc(kf, self.keys[0])),
                                          len(enc(vf, self.values[0])))}

    def ops(self, python_only=False):
        out = []
        for k in range(3):
            for v in range(2):
                out.append(("pset", k, v))
            out += [("pget", k), ("ppop", k), ("ppopd", k), ("pdel", k)]
        out += [("piter",), ("pvalues",)]
        # the MutableMapping mix-ins, built on the methods above
        out += [("pitems",), ("ppopitem",), ("pclear",)]
        for k in range(3):
            out += [("pgetd", k), ("pin", k), ("psetdef", k, k % 2)]
        if python_only:
            return out
        for k in range(3):
            for v in range(2):
                for fl in (1, 2, 3):
                    out.append(("upd", fl, k, v))
            out.append(("lookup", k))
            out.append(("modify", k, 1))
            if self.can_add:
                out.append(("modadd", k))
        return out

    @staticmethod
    def readonly(op):
        return op[0] in ("pget", "piter", "pvalues", "lookup", "pitems",
                         "pgetd", "pin")

    def _key(self, k):
        o = self.Key()
        for n, v in zip(self.knames, self.keys[k]):
            setattr(o, n, v)
        return o

    def _value(self, v):
        o = self.Value()
        for n, x in zip(self.vnames, self.values[v]):
            setattr(o, n, x)
        return o

    def _vt(self, o):
        return tuple(getattr(o, n) for n in self.vnames)

    def _kt(self, o):
        return tuple(getattr(o, n) for n in self.knames)

    def apply(self, op):
        d = self.e.ht
        kind = op[0]
        try:
            if kind == "pset":
                d[self._key(op[1])] = self._value(op[2])
                return ("ok",)
            if kind == "pget":
                return ("ok", self._vt(d[self._key(op[1])]))
            if kind == "ppop":
                return ("ok", self._vt(d.pop(self._key(op[1]))))
            if kind == "ppopd":
                r = d.pop(self._key(op[1]), "default")
                return ("ok", r if r == "default" else self._vt(r))
            if kind == "pdel":
                del d[self._key(op[1])]
                return ("ok",)
            if kind == "piter":
                return ("ok", tuple(sorted(self._kt(k) for k in d)))
            if kind == "pvalues":
                return ("ok", tuple(sorted(self._vt(v) for v in d.values())))
            if kind == "pitems":
                return ("ok", tuple(sorted((self._kt(k), self._vt(v))
                                           for k, v in d.items())))
            if kind == "ppopitem":
                k, v = d.popitem()
                return ("ok", (self._kt(k), self._vt(v)))
            if kind == "pclear":
                d.clear()
                return ("ok",)
            if kind == "pgetd":
                r = d.get(self._key(op[1]), "default")
                return ("ok", r if r == "default" else self._vt(r))
            if kind == "pin":
                return ("ok", self._key(op[1]) in d)
            if kind == "psetdef":
                return ("ok", self._vt(d.setdefault(self._key(op[1]),
                                                    self._value(op[2]))))
        except Exception as ex:
            if isinstance(ex, simkernel.SimTrap):
                raise
            return ("exc", type(ex).__name__)
        b = self.b
        pkt = bytearray(b.pkt_len)
        key = self.keys[op[2] if kind == "upd" else op[1]]
        for i, (f, v) in enumerate(zip(self.kf, key)):
            struct.pack_into("<" + f, pkt, b.in_off + 8 * i, v)
        if kind in ("upd", "modify"):
            val = self.values[op[3] if kind == "upd" else op[2]]
            for i, (f, v) in enumerate(zip(self.vf, val)):
                struct.pack_into("<" + f, pkt, b.in_off + 8 * (3 + i), v)
        pkt[SEL] = {"upd": op[1] if kind == "upd" else 0, "lookup": 4,
                    "modify": 5, "modadd": 6}[kind]
        try:
            ret, out = self.be.run(self.e.file_descriptor, pkt)
        except simkernel.SimTrap as t:
            return ("trap", str(t))
        if ret != 2:
            return ("ret", ret)
        if kind == "upd":
            return ("r0", sx64(struct.unpack_from("<Q", out, b.out_off)[0]))
        flag = out[b.out_off + 8]
        if kind == "lookup" and flag == 1:
            return ("found", tuple(
                struct.unpack_from("<" + f, out, b.out_off + 8 * (2 + i))[0]
                for i, f in enumerate(self.vf)))
        return ("found",) if flag == 1 else ("else",) if flag == 2 \
            else ("flag", flag)


def dict_expected(case, pre, op):
    """-> list of acceptable (result, content dict).  One element, except
    for an update of a *full LRU* map: the kernel may evict any entries
    (even the one being updated, and before it looks at the flags) to make
    room, so every outcome "some entries vanish first, then the operation
    acts on the rest" is accepted as long as the size limit holds"""
    cfg = case.cfg
    lru_write = op[0] in ("pset", "upd") or (
        op[0] == "psetdef" and
        enc(case.kf, case.keys[op[1]]) not in dict(pre))
    if cfg["lru"] and len(pre) >= cfg["size"] and lru_write:
        alts = []
        keys = [k for k, _ in pre]
        for n in range(len(keys) + 1):
            for gone in itertools.combinations(keys, n):
                rest = [(k, v) for k, v in pre if k not in gone]
                r, ref, _ = dict_expected1(case, rest, op, nolimit=True)
                if len(ref) <= cfg["size"] and (r, ref) not in alts:
                    alts.append((r, ref))
        return alts
    if op[0] == "ppopitem" and pre:
        # any entry may be the one that goes
        alts = []
        for k, v in pre:
            ref = dict(pre)
            del ref[k]
            alts.append((("ok", (dec(case.kf, k), dec(case.vf, v))), ref))
        return alts
    r, ref, _ = dict_expected1(case, pre, op)
    return [(r, ref)]


def dict_expected1(case, pre, op, nolimit=False):
    """reference model: a plain dict of packed tuples.
    pre: ordered list of (key bytes, value bytes).
    -> (expected result, expected content as dict, False)"""
    kf, vf, cfg = case.kf, case.vf, case.cfg
    ref = dict(pre)
    kind = op[0]
    full = len(ref) >= cfg["size"] and not nolimit
    if kind in ("piter", "pvalues"):
        if kind == "piter":
            return ("ok", tuple(sorted(dec(kf, k) for k in ref))), ref, False
        return ("ok", tuple(sorted(dec(vf, v) for v in ref.values()))), ref, False
    if kind == "pitems":
        return ("ok", tuple(sorted((dec(kf, k), dec(vf, v))
                                   for k, v in ref.items()))), ref, False
    if kind == "ppopitem":      # only reached for an empty map
        return ("exc", "KeyError"), ref, False
    if kind == "pclear":
        return ("ok",), {}, False
    kidx = op[2] if kind == "upd" else op[1]
    kb = enc(kf, case.keys[kidx])
    if kind == "pset":
        vb = enc(vf, case.values[op[2]])
        if kb not in ref and full:
            return ("exc", "IndexError"), ref, False
        ref[kb] = vb
        return ("ok",), ref, False
    if kind == "pget":
        if kb not in ref:
            return ("exc", "KeyError"), ref, False
        return ("ok", dec(vf, ref[kb])), ref, False
    if kind in ("ppop", "ppopd"):
        if kb not in ref:
            return (("exc", "KeyError") if kind == "ppop"
                    else ("ok", "default")), ref, False
        return ("ok", dec(vf, ref.pop(kb))), ref, False
    if kind == "pdel":
        if kb not in ref:
            return ("exc", "KeyError"), ref, False
        del ref[kb]
        return ("ok",), ref, False
    if kind == "pgetd":
        return ("ok", dec(vf, ref[kb]) if kb in ref else "default"), ref, False
    if kind == "pin":
        return ("ok", kb in ref), ref, False
    if kind == "psetdef":
        if kb in ref:
            return ("ok", dec(vf, ref[kb])), ref, False
        if full:
            return ("exc", "IndexError"), ref, False
        ref[kb] = enc(vf, case.values[op[2]])
        return ("ok", dec(vf, ref[kb])), ref, False
    if kind == "upd":
        fl = {1: 0, 2: 1, 3: 2}[op[1]]
        vb = enc(vf, case.values[op[3]])
        if kb in ref:
            if fl == 1:
                return ("r0", -EEXIST), ref, False
            ref[kb] = vb
            return ("r0", 0), ref, False
        if fl == 2:
            return ("r0", -ENOENT), ref, False
        if full:
            return ("r0", -E2BIG), ref, False
        ref[kb] = vb
        return ("r0", 0), ref, False
    if kind == "lookup":
        if kb not in ref:
            return ("else",), ref, False
        return ("found", dec(vf, ref[kb])), ref, False
    if kind == "modify":
        if kb not in ref:
            return ("else",), ref, False
        ref[kb] = enc(vf, case.values[op[2]])
        return ("found",), ref, False
    if kind == "modadd":
        if kb not in ref:
            return ("else",), ref, False
        t = list(dec(vf, ref[kb]))
        bits = struct.calcsize(vf[0]) * 8
        raw = (t[0] + 3) & ((1 << bits) - 1)
        t[0] = struct.unpack("<" + vf[0],
                             raw.to_bytes(bits // 8, "little"))[0]
        ref[kb] = enc(vf, t)
        return ("found",), ref, False
    raise core.Internal(f"unknown op {op}")


def explore_dict(cfg, depth, backend_cls, res, sink, python_only=False,
                 on_edge=None):
    be = backend_cls()
    log = []
    cj = dict(kind="dict", key=list(cfg["key"]), value=list(cfg["value"]),
              size=cfg["size"], lru=cfg["lru"])
    try:
        with be.context():
            try:
                case = DictCase(cfg, be, with_program=not python_only)
            except Exception as ex:
                if isinstance(ex, simkernel.SimTrap):
                    raise
                log.append(("rejected", type(ex).__name__))
                return log
            ordered = be.ordered(case.mapfd)
            canon = (lambda s: tuple(s)) if ordered \
                else (lambda s: tuple(sorted(s)))
            init = canon(be.snapshot(case.mapfd))
            log.append(("init", init))
            if init and sink:
                sink(cj, [], list(init), "not-empty",
                     note="Dict not empty after load()")
            seen = {init: ()}
            frontier = [init]
            ops = case.ops(python_only)
            for level in range(depth + 1):
                nxt = []
                for st in frontier:
                    for op in ops:
                        if level == depth and not case.readonly(op):
                            continue
                        be.restore(case.mapfd, st)
                        r = case.apply(op)
                        post = canon(be.snapshot(case.mapfd))
                        if on_edge:
                            on_edge(cj, st, op, r, seen[st])
                        alts = dict_expected(case, st, op)
                        er, eref = alts[0]
                        loose = len(alts) > 1
                        ok = any(r == ar and dict(post) == aref and
                                 len(dict(post)) == len(post)
                                 for ar, aref in alts)
                        # the log is what the differential compares; edges
                        # with several acceptable outcomes are not part of it
                        log.append((tuple(sorted(st)), op, r,
                                    tuple(sorted(post)) if not loose
                                    else "lru-full-update"))
                        if res is not None:
                            res.count("transitions")
                            res.count("vm_steps", getattr(be, "steps", 0))
                            be.steps = 0
                            res.nontrivial.add(core.digest(
                                [cj, [list(x) for x in st], op]))
                            res.outcomes.add(("dict", op[0], r[0], ok))
                            if level == 2 and op[0] in ("upd", "ppop"):
                                res.sample(dict(cj, seq=[list(o) for o in
                                                         seen[st]],
                                                op=list(op), result=r),
                                           limit=3)
                        if not ok and sink:
                            c2 = dict(cj, state=[list(x) for x in st],
                                      op=list(op),
                                      seq=[list(o) for o in seen[st]])
                            kf = None
                            if op[0] in ("piter", "pvalues") and not st \
                                    and r == ("exc", "RuntimeError"):
                                kf = KF_ITER
                            if op[0] in ("ppop", "ppopd") and r == er and \
                                    r[0] == "ok" and r[1] != "default" and \
                                    sorted(post) == sorted(st):
                                kf = KF_POP
                            if loose:
                                sink(c2, [[a, sorted(c.items())]
                                          for a, c in alts][:4],
                                     [r, list(post)], "dict-any-" + op[0],
                                     note=f"{op} with several acceptable "
                                     "outcomes (full LRU map / popitem)")
                            elif r != er:
                                sink(c2, er, r, "dict-" + op[0], kf=kf,
                                     note=f"result of {op} in state of "
                                     f"{len(st)} entries")
                            else:
                                sink(c2, sorted(eref.items()), list(post),
                                     "dict-content-" + op[0], kf=kf,
                                     note=f"map content after {op}")
                        if ok and post not in seen:
                            seen[post] = seen[st] + (op,)
                            nxt.append(post)
                frontier = nxt
            if res is not None:
                res.count("states", len(seen))
    finally:
        be.close()
    return log


# ====================================================================
# configurations
# ====================================================================
def hashvar_configs(ctx):
    out = []
    one = [(f, d) for f in HFMT for d in DEFAULTS]
    out += [[v] for v in one]
    if ctx.quick:
        for i, f in enumerate(HFMT):
            for s in (1, 3):
                g = HFMT[(i + s) % 6]
                out.append([(f, DEFAULTS[i % 2]), (g, DEFAULTS[(i + s) % 2])])
        for i in range(0, 6, 2):
            out.append([(HFMT[i], 5), (HFMT[(i + 1) % 6], 0),
                        (HFMT[(i + 3) % 6], 5)])
    else:
        for i, f in enumerate(HFMT):
            for j, g in enumerate(HFMT):
                for dd in ((0, 5), (5, 0), (5, 5)):
                    out.append([(f, dd[0]), (g, dd[1])])
                out.append([(f, 0), (g, -1)])
        for i in range(6):
            for s in (1, 2):
                out.append([(HFMT[i], 5), (HFMT[(i + s) % 6], 0),
                            (HFMT[(i + 2 * s + 1) % 6], 5)])
    if ctx.seed:
        import random
        rnd = random.Random(ctx.seed)
        for _ in range(4):
            out.append([(rnd.choice(HFMT), rnd.choice([0, 5]))
                        for _ in range(rnd.randint(2, 3))])
    return [dict(vars=v) for v in out]


def dict_configs(ctx):
    lists = packed_lists()
    combos = [(2, False), (31, False), (2, True), (31, True)]
    out = []
    n = len(lists)
    rounds = 1 if ctx.quick else 3
    for r in range(rounds):
        for i, ks in enumerate(lists):
            vs = lists[(i * 7 + 3 + 11 * r + ctx.seed) % n]
            size, lru = combos[(i + r) % 4]
            out.append(dict(key=key_fmts(ks), value=value_fmts(vs),
                            size=size, lru=lru))
    if not ctx.quick:
        # every size/lru combination on the structures of the repo's test
        for size, lru in combos:
            out.append(dict(key=("I", "B"), value=("q", "I", "B"),
                            size=size, lru=lru))
    else:
        out.append(dict(key=("I", "B"), value=("q", "I", "B"), size=2,
                        lru=False))
    return out


def make_sink(res, cap=3):
    counts = {}

    def sink(case, expected, observed, kind, kf=None, note=""):
        sig = core.digest([kind, case.get("kind"), str(kf),
                           (case.get("op") or [""])[0]])
        counts[sig] = counts.get(sig, 0) + 1
        sink.n += 1
        if kf is None:
            sink.fresh += 1
        if counts[sig] <= cap:
            res.violation(case, expected, observed, kf=kf, sig=sig, note=note)
        else:
            res.count("violations_not_stored")
    sink.n = 0
    sink.fresh = 0
    return sink


def work(item, res):
    kind, cfg, depth, differential = item
    sink = make_sink(res)
    fn = explore_hashvars if kind == "hv" else explore_dict
    log = fn(cfg, depth, SimBackend, res, sink)
    res.count("evaluations")
    if log and log[0][0] == "rejected":
        res.count("rejected_by_generator")
        res.outcomes.add(("rejected", log[0][1]))
        return
    res.count("traces_validated_against_impl", len(log))
    if differential and kern.available() and not sink.fresh:
        rlog = fn(cfg, depth, RealBackend, None, None)
        compare_logs(cfg, kind, log, rlog, res)


def compare_logs(cfg, kind, log, rlog, res):
    """the simulated and the real kernel must agree on every edge both
    explored (all edges, unless LRU eviction made the searches diverge)"""
    if kind == "hv":
        if log != rlog:
            for a, b in zip(log, rlog):
                if a != b:
                    raise core.Internal(
                        f"simulated and real kernel disagree on {cfg}: "
                        f"sim={a!r} real={b!r}")
            raise core.Internal(f"logs differ in length for {cfg}")
        res.count("kernel_validated", len(rlog))
        return
    def table(lg):
        out = {}
        for ent in lg:
            if ent[0] in ("init", "rejected"):
                out[ent[0]] = ent[1:]
            elif ent[3] != "lru-full-update":
                out.setdefault((ent[0], ent[1]), set()).add((ent[2], ent[3]))
        return out
    ts, tr = table(log), table(rlog)
    if not cfg["lru"] and set(ts) != set(tr):
        raise core.Internal(f"simulated and real kernel explored different "
                            f"edges for {cfg}: "
                            f"{sorted(set(ts) ^ set(tr), key=repr)[:2]}")
    for k in tr:
        if k in ts and ts[k] != tr[k]:
            raise core.Internal(f"simulated and real kernel disagree on "
                                f"{cfg} edge {k!r}: sim={ts[k]!r} "
                                f"real={tr[k]!r}")
        if k in ts:
            res.count("kernel_validated")


def run(ctx):
    st = simkernel.selftest_once()
    depth = 3 if ctx.quick else 4
    items = []
    hv = hashvar_configs(ctx)
    dc = dict_configs(ctx)
    for i, cfg in enumerate(hv):
        items.append(("hv", cfg, depth, i % 3 == 0))
    for i, cfg in enumerate(dc):
        items.append(("dict", cfg, depth, i % 4 == 0))
    res = core.pmap(ctx, work, items, chunk=1)
    res.cov["configurations_run"] = res.cov.pop("evaluations", 0)
    res.cov["evaluations"] = res.cov.get("transitions", 0)
    res.cov["configurations"] = dict(hashvars=len(hv), dicts=len(dc))
    res.cov["bound_completed"] = depth
    res.cov["kernel_available"] = kern.available()
    res.cov["simkernel_selftest"] = st
    res.sample(dict(kind="dict", key=["I", "B"], value=["q", "I", "B"],
                    size=2, lru=False, op=["upd", 1, 2, 0]))
    res.assumptions += [
        "a hash-map variable is the low calcsize(fmt) bytes of its 64-bit "
        "cell; values written from Python fit the variable's format; the "
        "program writes whole 64-bit cells (a 64-bit packet value, or "
        "another variable's cell)",
        "a default that struct cannot pack for the variable's signedness "
        "(-1 for an unsigned format) makes load() fail: counted as rejected "
        "by the generator",
        "program-side assignment of a Python int to a hash-map variable "
        "raises AttributeError while the program is generated (no "
        "get_address on int): outside the property, not enumerated",
        "LRU maps: which entries are evicted by an insertion into a full "
        "map is not specified; the inserted entry must be present, all "
        "other entries must be unchanged survivors",
        "iteration order of a Dict is unspecified (compared sorted)",
        "states are re-established by writing the kernel map directly "
        "(TheDict and the descriptors keep no state of their own besides "
        "the map descriptor), so equal map contents have equal futures"]
    return res


def replay(ctx, rep):
    res = core.Result()
    sink = make_sink(res, cap=10 ** 9)
    c = rep["case"]
    depth = 3 if ctx.quick else 4
    if c["kind"] == "hashvars":
        cfg = dict(vars=[tuple(v) for v in c["vars"]])
        log = explore_hashvars(cfg, depth, SimBackend, res, sink)
    else:
        cfg = dict(key=tuple(c["key"]), value=tuple(c["value"]),
                   size=c["size"], lru=c["lru"])
        log = explore_dict(cfg, depth, SimBackend, res, sink)
    want = core.jsonable((c.get("state"), c.get("op")))
    print("configuration:", cfg, "-", len(log), "edges explored")
    out = [v for v in res.violations
           if core.jsonable((v["case"].get("state"),
                             v["case"].get("op"))) == want]
    for v in out[:5]:
        print("  after", v["case"].get("seq"), "op", v["case"].get("op"),
              "expected", v["expected"], "observed", v["observed"])
    return out
