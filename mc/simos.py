"""simos - simulated POSIX subset, bpf object namespace, interface attachment,
baton scheduler for several "processes" running real library code on threads,
and an explicit-state explorer with replay.

The file has four independent layers; a harness uses them top-down.

1. ``World`` - the operating-system state (plain data, no threads)
   ---------------------------------------------------------------
   ``World(dirs=[...])`` creates a file system containing the given
   directories.  Every method takes the calling process id first:
   ``makedirs mkdir mkdtemp open close write read pread pwrite ftruncate
   fstat (size only) rename rmdir remove rmtree listdir exists`` (Linux errno
   semantics;
   ``rename`` replaces an *empty* directory and fails with ENOTEMPTY on a
   non-empty one), ``lockf(pid, fd, cmd, len, start)`` POSIX record locks
   owned by the *process* (dropped when the process closes any descriptor of
   the file or exits; ``lock_conflict`` tells whether a request would block),
   ``bpf_new / obj_pin / obj_get / resolve`` (bpf objects, pins live in the
   same tree, ``remove`` unpins), ``set_xdp(pid, ifname, fd)`` (fd -1
   detaches), ``exit_process(pid)``, ``canon()`` (hashable canonical state;
   inode / object ids are (creator pid, per-creator counter), descriptor
   numbers are per process, so the canonical form does not depend on how the
   other processes were interleaved).  Also ``stat(pid, path)`` (type and
   size), ``link`` (hard link), and the process table: ``ospid(pid)`` the
   operating-system pid of a simulated process (distinct numbers, see
   ``PID_BASE``), ``kill(pid, number, 0)`` the existence probe (a process is
   gone after ``exit_process``; ``new_process`` gives a restarted process a
   new pid; ``residents`` are pids of live processes nobody simulates).

2. Facades and seams - how library code reaches the World
   ------------------------------------------------------
   ``OsFacade() FcntlFacade() ShutilFacade() TempfileFacade() sim_open
   sim_sleep sim_getpid`` have the call syntax of ``os``, ``fcntl``,
   ``shutil``, ``tempfile``, builtin ``open`` and ``asyncio.sleep`` and route
   every call through the *current runtime* (``current()``): a ``Run``
   (scheduled) or a ``DirectRuntime`` (no scheduling, used by the conformance
   test).  ``bpf_create_map / bpf_obj_pin / bpf_obj_get / bpf_prog_load /
   bpf_set_xdp / bpf_close`` do the same for the bpf side.  ``Seams`` rebinds
   module/class attributes and restores them; ``install_ebpfcat(seams,
   ...)`` applies the standard bindings to ``ebpfcat.ebpfcat`` /
   ``ebpfcat.lock`` (os, shutil, tempfile, open, sleep, fcntl, create_map,
   obj_pin, obj_get); harness-specific stubs (XDP class, randrange, connect)
   are bound by the harness with ``seams.set``.  ``OsFacade`` also has
   ``getpid kill stat lstat access link fsync fdatasync lseek getuid`` and
   ``os.path`` (``PathFacade``: exists / isfile / isdir / getsize look at the
   simulated file system); ``sim_open`` knows the modes r w x a with + and b,
   the file object buffers what is written until flush / close.  Whatever
   else a module under test holds of the OS interface (``from os import
   kill``, ``import pathlib``) is rebound by ``guard_module``.  Anything not
   modelled raises ``Unmodelled`` (a SimBug -> INTERNAL), or - in a ``Run``
   with ``tolerate_unmodelled = True`` - freezes the calling process there;
   the explorer counts such states (``outside_model_states``,
   ``unmodelled_calls`` in its statistics).

3. ``Run`` - the baton scheduler
   -----------------------------
   ``Run(world, bodies, params=None, symmetric=False)``: ``bodies[pid](rt)``
   is executed on its own (pooled, reused) thread; exactly one thread runs at
   a time.  Every facade call is a *scheduling point*: the process parks with
   a pending operation and whoever is chosen next executes its pending
   operation and runs to its next scheduling point.  ``run.start()``;
   ``run.choices()`` lists what can be chosen; ``run.play([choice, ...])`` /
   ``run.step(choice)`` execute choices (the script is evaluated by the
   thread that just parked, so consecutive choices for one process cost no
   thread switch); ``run.finish()`` unwinds the threads.  A choice is
   ``(pid, STEP)`` "execute pid's pending operation", ``(pid, v)`` with
   v >= 0 "answer pid's pending choice point with value v"
   (``rt.choose(name, domain)``; choice points are local: while one is
   pending only its owner is enabled; a value is not offered twice to the
   same process), or ``(pid, CRASH)`` "kill pid now" (descriptors closed,
   locks released, files stay).  A process whose pending operation is a
   blocking ``lockf`` on a range held by another process, or a ``sleep``
   directly after a failed non-blocking ``lockf`` whose range is still held
   (spinning), is *disabled*.  Nobody enabled while somebody is parked =
   deadlock.  After the body returns (or raises: recorded as the process's
   outcome) the process parks at a final ``exit`` operation that closes its
   descriptors.  For bodies: ``rt.flag(k, v)`` publishes per-process facts
   for the invariants, ``rt.syscall(name, args, thunk)`` makes a
   harness-defined scheduling point, ``rt.restart_process()`` ends the
   current process and lets the body continue as a new one, ``rt.params``
   carries harness data, ``drive(coro)`` runs a coroutine whose awaits never
   really suspend.  ``run.key()`` is the canonical state: world + per
   process (status, digest of its own operation history incl. results,
   pending operation, flags).  A process is deterministic given the results
   of its own operations, so equal keys have equal futures.  With
   ``symmetric=True`` (all bodies identical) states that differ only by a
   renaming of the processes get the same key (``key_and_renaming``), own
   mkdtemp names do not enter a process's history, pid numbers (own and
   others', wherever they occur) are renamed with the processes, and a process
   takes its first step only after its predecessor did.  ``run.log`` is the
   global operation log ``(step, pid, name, args, result)``; a failed
   operation has result ``['!', exception type, errno]``.

4. ``explore(ctx, space, res)`` - explicit-state search with replay
   ----------------------------------------------------------------
   ``Space(name, factory, monitor, preempt=None, crashes=0, params=...,
   describe=None, state_cap=None)``: ``factory()`` returns a fresh ``Run``;
   ``monitor(run)`` returns the list of invariant violations of the current
   state as dicts with at least ``inv, kind, who`` (plus ``expected,
   observed, kf, note``); a deadlock is reported by the explorer itself.
   States cannot be copied (threads), so a state *is* its choice history and
   is rebuilt by replay; search is breadth first by levels, the successors
   of a level are computed by a pool of forked workers that lives for the
   whole search (deterministic chunks, ordered merge) and deduplicated by
   key in the parent (fewest preemptions, then smallest schedule wins:
   deterministic).  A violation is reported at the first state of a path
   where it appears, with the schedule as its case.  ``preempt=None`` is
   the complete space; ``preempt=k`` keeps only schedules with at most k
   preemptions (switching away from a process that could have continued);
   then the dedup key is (state, process that moved last).  ``crashes`` is
   the number of crash choices allowed per schedule.  ``execute(space,
   schedule)`` replays one schedule and returns trace, violations, outcomes
   and a digest; ``confirm(space, res)`` replays the first violation of
   every signature twice (divergence -> core.Internal).

Destructors.  Library objects may own descriptors and close them in a
destructor, so *when* an object dies is part of an execution.  While a ``Run``
is started (and inside ``with DirectRuntime``) the cyclic collector is off:
an object dies exactly when its last reference is dropped (by the code under
test or by the body: a step of the process that drops it, with the scheduling
points of whatever the destructor calls), or, for what is still alive or
sits in reference cycles, when the execution ends: ``Run.finish`` /
``DirectRuntime.__exit__`` collect *before* the runtime is uninstalled, so a
destructor never reaches the World of a later execution.  For a ``Run`` the
processes are gone by then (exited: descriptors closed; killed; abandoned), a
destructor calling into the OS just gets ``Abandon`` (no effect, no message).
The same holds for the objects of a killed process that are released while
its thread unwinds.  ``explore`` freezes the heap that exists before the
search (``frozen_heap``), which makes the per-execution collection cheap.

Library data.  Module-level and class-level data of a library module (a
cache keyed by file name, a registry, a counter) belongs to the process.  For
modules registered with ``own_library_state(module)`` (right after import) it
is reset to its import-time value before every execution (``Run.start``,
``DirectRuntime.__enter__``; ``reset_library_state()`` for executions that use
neither), never inside one, and inside a ``Run`` every simulated process has
its private copy, installed when it gets the baton (``LibraryState``;
``selftest_library_state()`` checks the mechanism).  Names rebound through
``Seams`` are not touched.

``conformance()`` runs operation scripts against the model and against a real
temporary directory / real ``fcntl`` (second process = forked child) and
returns the list of differences (empty = conforming).  Scripts: directories,
rename, files (including a file that is unlinked while open), record locks
(owned by the process, dropped by closing any descriptor of the file / by
exit), and the life cycle of a shared file that is unlinked by its last user
and created again (``unlink``: the open descriptor keeps the unlinked inode
and the locks on it alive, the new file of the same name is another inode,
record locks are per inode), and what others see of a lock file written with
builtin ``open`` and of its owner (``probe``: empty from the open on, content
with flush / close, read / stat / exists / getsize, r+ and a modes, hard
links, unlink and re-create under an open file, ``kill(pid, 0)`` of a live
and of an exited process).
"""
import contextlib
import errno
import gc
import hashlib
import itertools
import multiprocessing as mp
import os as _os
import sys
import threading

from . import core

CRASH = -2
STEP = -1
INF = 1 << 62


class Id(tuple):
    """identity of an inode / bpf object: (creator pid, per-creator count)"""
    __slots__ = ()

    def __new__(cls, pid, n):
        return tuple.__new__(cls, (pid, n))

    pid = property(lambda self: self[0])
    n = property(lambda self: self[1])

    def __repr__(self):
        return f"Id({self[0]},{self[1]})"


class SimBug(BaseException):
    """problem inside the simulation or harness (never the code under test)"""


class Unmodelled(SimBug):
    """the code under test asked the simulated OS for something simos does
    not model (a function, a mode, a flag).  By default that is a SimBug like
    any other (the check ends INTERNAL: the model does not cover the code).
    A ``Run`` with ``tolerate_unmodelled = True`` instead freezes the calling
    process at that point (``Run.outside_model``): everything explored with
    the process standing there is still a real execution prefix, the explorer
    counts such states (``outside_model_states`` / ``unmodelled_calls`` in
    its statistics) and the harness decides what that means."""


def _unmodelled(msg):
    """raise Unmodelled, or - inside a tolerant Run, on the thread of the
    process that holds the baton - freeze that process (does not return)"""
    rt = _RT
    if rt is not None and getattr(rt, "tolerate_unmodelled", False):
        rt.outside_model(msg)
    raise Unmodelled(msg)


# ---- process ids ------------------------------------------------------------
# A simulated process has an operating-system pid: PID_BASE + PID_STRIDE *
# generation + process index (generation: a process made by
# ``Run.restart_process`` is a new process with a new pid; the old number is
# dead).  The numbers are distinct, so code that stores its pid somewhere and
# probes somebody else's (``os.kill(pid, 0)``) sees what it would see.  For
# identical processes (``Run(symmetric=True)``) a pid is part of the identity
# that the symmetry reduction renames: wherever a pid number occurs - as an
# integer argument, as a decimal token in a str / bytes argument or result,
# in the content of a file - it is renamed together with the process (see
# ``World.canon``, ``Run._record``, ``Run.key_and_renaming``).  That is sound
# for code that treats pids as opaque tokens (stores, compares for equality,
# probes them); code that ORDERS pids would break the symmetry.
PID_BASE = 70000
PID_STRIDE = 16
PID_GENERATIONS = 64
_PID_RE_B = None


def pid_number(index, generation=0):
    if not 0 <= index < PID_STRIDE or not 0 <= generation < PID_GENERATIONS:
        raise SimBug(f"no pid number for process {index} generation "
                     f"{generation}")
    return PID_BASE + PID_STRIDE * generation + index


def pid_decode(number):
    """-> (process index, generation) or None if not a simulated pid"""
    if isinstance(number, int) and not isinstance(number, bool) and \
            PID_BASE <= number < PID_BASE + PID_STRIDE * PID_GENERATIONS:
        return (number - PID_BASE) % PID_STRIDE, \
            (number - PID_BASE) // PID_STRIDE
    return None


def _pid_tokens(data, repl):
    """replace every decimal token of bytes/str `data` that is a simulated
    pid number by repl(index, generation) (same type as data)"""
    global _PID_RE_B
    import re
    if _PID_RE_B is None:
        _PID_RE_B = (re.compile(rb"(?<![0-9])7[0-9]{4}(?![0-9])"),
                     re.compile(r"(?<![0-9])7[0-9]{4}(?![0-9])"))
    if isinstance(data, str):
        if "7" not in data:
            return data

        def sub(m):
            d = pid_decode(int(m.group()))
            return m.group() if d is None else repl(*d)
        return _PID_RE_B[1].sub(sub, data)
    if b"7" not in data:
        return data

    def subb(m):
        d = pid_decode(int(m.group()))
        return m.group() if d is None else repl(*d).encode()
    return _PID_RE_B[0].sub(subb, data)


class Abandon(BaseException):
    """raised inside an abandoned / crashed process thread to unwind it; also
    what a destructor gets that calls into the simulated OS on behalf of a
    process that is dead (killed, or its execution is over): such a call has
    no effect in any world"""


def _quiet_abandon():
    """an Abandon that ends a destructor is not worth a message on stderr"""
    prev = sys.unraisablehook
    if getattr(prev, "simos_filter", False):
        return

    def hook(u):
        if u.exc_type is not None and issubclass(u.exc_type, Abandon):
            return
        prev(u)
    hook.simos_filter = True
    sys.unraisablehook = hook


_quiet_abandon()


# ---- who destroys the objects of an execution, and when --------------------
# Library objects may have destructors that call into the (simulated) OS.  An
# execution therefore has to destroy its own objects inside its own
# environment: the cyclic collector is switched off while an execution runs
# (it would run destructors at allocation-count dependent moments, on
# whatever thread, possibly after the World of a LATER execution has been
# installed), reference counting destroys objects where the code under test
# (or the harness body) drops them - that is a step of the owning process -
# and what is left is collected when the execution ends, before its runtime
# is uninstalled.
class own_garbage:
    """context manager: collector off inside; on exit everything unreachable
    is destroyed (still inside whatever environment the caller holds), then
    the collector gets its previous state back"""

    def __enter__(self):
        self.was = gc.isenabled()
        gc.disable()
        return self

    def __exit__(self, *a):
        gc.collect()
        if self.was:
            gc.enable()


@contextlib.contextmanager
def frozen_heap():
    """everything alive now is taken out of the collector's sight while the
    block runs, which makes the per-execution gc.collect() cheap (it only
    looks at what the executions allocated); forked workers inherit it"""
    gc.collect()
    gc.freeze()
    try:
        yield
    finally:
        gc.unfreeze()


def _err(code, path=None):
    if path is None:
        return OSError(code, _os.strerror(code))
    return OSError(code, _os.strerror(code), path)


# =========================================================================
# 1. World
# =========================================================================
class Dir:
    __slots__ = ("entries",)

    def __init__(self):
        self.entries = {}


class File:
    __slots__ = ("ino", "data")

    def __init__(self, ino):
        self.ino = ino
        self.data = bytearray()


class Pin:
    __slots__ = ("obj",)

    def __init__(self, obj):
        self.obj = obj


class OpenFile:
    __slots__ = ("kind", "ref", "pos", "flags")

    def __init__(self, kind, ref, flags=0):
        self.kind = kind      # 'file' (ref = File) or 'bpf' (ref = object id)
        self.ref = ref
        self.pos = 0
        self.flags = flags


def _split(path):
    if not isinstance(path, str) or not path.startswith("/"):
        raise Unmodelled(f"simos needs absolute str paths, got {path!r}")
    parts = [p for p in path.split("/") if p]
    if any(p in (".", "..") for p in parts):
        raise Unmodelled(f"'.'/'..' not modelled: {path!r}")
    return parts


class World:
    pid_content = True   # canon(rename) renames pid numbers inside files

    def __init__(self, dirs=()):
        self.root = Dir()
        self.fds = {}        # pid -> {fd: OpenFile}
        self.locks = {}      # ino -> sorted [(pid, start, end, mode)]
        self.objs = {}       # object id -> dict(kind=..., ...)
        self.attached = {}   # ifname -> object id
        self.counters = {}
        self.tmpnames = {}   # mkdtemp name -> (prefix, pid, n)
        self.procgen = {}    # process index -> generation (absent: 0)
        self.dead = set()    # process indices whose process has exited
        self.residents = set()   # pids of live processes nobody simulates
        self.nprocs = None   # number of simulated processes (None: any)
        for d in dirs:
            self.makedirs(0, d, exist_ok=True)

    # ---------------------------------------------------------------- helpers
    def _newid(self, pid, what):
        n = self.counters.get((pid, what), 0)
        self.counters[(pid, what)] = n + 1
        return Id(pid, n)

    def _walk(self, path):
        """-> (parent Dir, name, node or None); root -> (None, '', root)"""
        parts = _split(path)
        if not parts:
            return None, "", self.root
        d = self.root
        for p in parts[:-1]:
            n = d.entries.get(p)
            if n is None:
                raise _err(errno.ENOENT, path)
            if not isinstance(n, Dir):
                raise _err(errno.ENOTDIR, path)
            d = n
        return d, parts[-1], d.entries.get(parts[-1])

    def _fd(self, pid, fd, kind=None):
        of = self.fds.get(pid, {}).get(fd)
        if of is None or (kind and of.kind != kind):
            raise _err(errno.EBADF)
        return of

    def _newfd(self, pid, of):
        t = self.fds.setdefault(pid, {})
        fd = 3
        while fd in t:
            fd += 1
        t[fd] = of
        return fd

    # ------------------------------------------------------------ directories
    def mkdir(self, pid, path):
        parent, name, node = self._walk(path)
        if node is not None:
            raise _err(errno.EEXIST, path)
        parent.entries[name] = Dir()

    def makedirs(self, pid, path, exist_ok=False):
        parts = _split(path)
        d = self.root
        for i, p in enumerate(parts):
            n = d.entries.get(p)
            last = i == len(parts) - 1
            if n is None:
                n = d.entries[p] = Dir()
            elif not isinstance(n, Dir):
                raise _err(errno.EEXIST if last else errno.ENOTDIR, path)
            elif last and not exist_ok:
                raise _err(errno.EEXIST, path)
            d = n
        if not parts and not exist_ok:
            raise _err(errno.EEXIST, path)

    def mkdtemp(self, pid, dir, prefix="tmp"):
        parent, name, node = self._walk(dir)
        if node is None:
            raise _err(errno.ENOENT, dir)
        if not isinstance(node, Dir):
            raise _err(errno.ENOTDIR, dir)
        n = self._newid(pid, "tmp")[1]
        nm = f"{prefix}.p{pid}.{n}"
        if nm in node.entries:
            raise SimBug("mkdtemp name clash")
        node.entries[nm] = Dir()
        self.tmpnames[nm] = (prefix, pid, n)
        return dir.rstrip("/") + "/" + nm

    def listdir(self, pid, path):
        _, _, node = self._walk(path)
        if node is None:
            raise _err(errno.ENOENT, path)
        if not isinstance(node, Dir):
            raise _err(errno.ENOTDIR, path)
        return sorted(node.entries)

    def exists(self, pid, path):
        try:
            return self._walk(path)[2] is not None
        except OSError:
            return False

    def stat(self, pid, path):
        """os.stat of a path: file type and size only (all else is 0)"""
        _, _, node = self._walk(path)
        if node is None:
            raise _err(errno.ENOENT, path)
        if isinstance(node, Dir):
            return _os.stat_result((0o040755, 0, 0, 2, 0, 0, 4096, 0, 0, 0))
        if isinstance(node, Pin):
            return _os.stat_result((0o100600, 0, 0, 1, 0, 0, 0, 0, 0, 0))
        return _os.stat_result((0o100644, 0, 0, 1, 0, 0, len(node.data),
                                0, 0, 0))

    def link(self, pid, src, dst):
        """hard link: a second name for the same inode (files only)"""
        _, _, snode = self._walk(src)
        if snode is None:
            raise _err(errno.ENOENT, src)
        if isinstance(snode, Dir):
            raise _err(errno.EPERM, src)
        dp, dn, dnode = self._walk(dst)
        if dnode is not None or dp is None:
            raise _err(errno.EEXIST, src)
        dp.entries[dn] = snode

    # -------------------------------------------------------------- processes
    def ospid(self, pid):
        """the operating-system pid of simulated process `pid` (an index)"""
        return pid_number(pid, self.procgen.get(pid, 0))

    def new_process(self, pid):
        """process index `pid` is a new process from now on (restart)"""
        self.procgen[pid] = self.procgen.get(pid, 0) + 1
        self.dead.discard(pid)

    def alive(self, number):
        """is there a process with this pid number?"""
        if number in self.residents:
            return True
        d = pid_decode(number)
        if d is None:
            return False
        idx, gen = d
        if self.nprocs is not None and idx >= self.nprocs:
            return False
        return self.procgen.get(idx, 0) == gen and idx not in self.dead

    def kill(self, pid, number, sig):
        """os.kill: only the existence probe (signal 0) is modelled"""
        if not isinstance(number, int) or isinstance(number, bool):
            raise TypeError("an integer is required")
        if number <= 0:
            raise Unmodelled("os.kill of pid <= 0 (process groups) is not "
                             "modelled by simos")
        if sig != 0:
            raise Unmodelled(f"os.kill with signal {sig}: delivering signals "
                             "is not modelled by simos")
        if not self.alive(number):
            raise ProcessLookupError(errno.ESRCH, _os.strerror(errno.ESRCH))

    def rmdir(self, pid, path):
        parent, name, node = self._walk(path)
        if node is None:
            raise _err(errno.ENOENT, path)
        if not isinstance(node, Dir):
            raise _err(errno.ENOTDIR, path)
        if parent is None:
            raise _err(errno.EBUSY, path)
        if node.entries:
            raise _err(errno.ENOTEMPTY, path)
        del parent.entries[name]

    def remove(self, pid, path):
        parent, name, node = self._walk(path)
        if node is None:
            raise _err(errno.ENOENT, path)
        if isinstance(node, Dir):
            raise _err(errno.EISDIR, path)
        del parent.entries[name]

    def rmtree(self, pid, path):
        parent, name, node = self._walk(path)
        if node is None:
            raise _err(errno.ENOENT, path)
        if not isinstance(node, Dir):
            raise _err(errno.ENOTDIR, path)
        if parent is None:
            raise SimBug("rmtree of /")
        del parent.entries[name]

    def rename(self, pid, src, dst):
        sp, sn, snode = self._walk(src)
        if snode is None:
            raise _err(errno.ENOENT, src)
        dp, dn, dnode = self._walk(dst)
        if sp is None or dp is None:
            raise _err(errno.EBUSY, src)
        if snode is dnode:
            return
        s, d = _split(src), _split(dst)
        if s[:len(d)] == d:         # dst is an ancestor of src (Linux vfs)
            raise _err(errno.ENOTEMPTY, src)
        if isinstance(snode, Dir):
            if d[:len(s)] == s:
                raise _err(errno.EINVAL, src)
            if dnode is not None:
                if not isinstance(dnode, Dir):
                    raise _err(errno.ENOTDIR, src)
                if dnode.entries:
                    raise _err(errno.ENOTEMPTY, src)
        elif isinstance(dnode, Dir):
            raise _err(errno.EISDIR, src)
        dp.entries[dn] = snode
        del sp.entries[sn]

    # ------------------------------------------------------------------ files
    def open(self, pid, path, flags, mode=0o777):
        acc = flags & _os.O_ACCMODE
        parent, name, node = self._walk(path)
        if node is None:
            if not flags & _os.O_CREAT:
                raise _err(errno.ENOENT, path)
            node = parent.entries[name] = File(self._newid(pid, "ino"))
        else:
            if flags & _os.O_CREAT and flags & _os.O_EXCL:
                raise _err(errno.EEXIST, path)
            if isinstance(node, Dir):
                if acc != _os.O_RDONLY or flags & _os.O_CREAT:
                    raise _err(errno.EISDIR, path)
                raise Unmodelled("opening directories is not modelled")
            if isinstance(node, Pin):
                raise Unmodelled("open() of a bpf pin is not modelled")
            if flags & _os.O_TRUNC and acc != _os.O_RDONLY:
                del node.data[:]
        return self._newfd(pid, OpenFile("file", node, flags))

    def close(self, pid, fd):
        of = self._fd(pid, fd)
        del self.fds[pid][fd]
        if of.kind == "file":
            # POSIX: closing *any* descriptor of a file drops all record
            # locks the process holds on it
            self._set_lock(of.ref.ino, pid, 0, INF, None)

    def write(self, pid, fd, data):
        of = self._fd(pid, fd, "file")
        if of.flags & _os.O_ACCMODE == _os.O_RDONLY:
            raise _err(errno.EBADF)
        if of.flags & _os.O_APPEND:
            of.pos = len(of.ref.data)
        n = self._pwrite(of.ref, bytes(data), of.pos)
        of.pos += n
        return n

    def read(self, pid, fd, n):
        of = self._fd(pid, fd, "file")
        if of.flags & _os.O_ACCMODE == _os.O_WRONLY:
            raise _err(errno.EBADF)
        data = bytes(of.ref.data[of.pos:of.pos + n])
        of.pos += len(data)
        return data

    @staticmethod
    def _pwrite(node, data, off):
        if off < 0:
            raise _err(errno.EINVAL)
        if not data:
            return 0
        if len(node.data) < off:
            node.data.extend(bytes(off - len(node.data)))
        node.data[off:off + len(data)] = data
        return len(data)

    def pwrite(self, pid, fd, data, off):
        of = self._fd(pid, fd, "file")
        if of.flags & _os.O_ACCMODE == _os.O_RDONLY:
            raise _err(errno.EBADF)
        return self._pwrite(of.ref, bytes(data), off)

    def pread(self, pid, fd, n, off):
        of = self._fd(pid, fd, "file")
        if of.flags & _os.O_ACCMODE == _os.O_WRONLY:
            raise _err(errno.EBADF)
        if off < 0:
            raise _err(errno.EINVAL)
        return bytes(of.ref.data[off:off + n])

    def fstat(self, pid, fd):
        """only the size is modelled (st_size; the other fields are 0)"""
        of = self._fd(pid, fd, "file")
        return _os.stat_result((0o100644, 0, 0, 1, 0, 0, len(of.ref.data),
                                0, 0, 0))

    def ftruncate(self, pid, fd, length):
        of = self._fd(pid, fd, "file")
        if of.flags & _os.O_ACCMODE == _os.O_RDONLY or length < 0:
            raise _err(errno.EINVAL)
        d = of.ref.data
        if len(d) > length:
            del d[length:]
        else:
            d.extend(bytes(length - len(d)))

    # ------------------------------------------------------------ record locks
    def _set_lock(self, ino, pid, s, e, mode):
        out = []
        for q, a, b, m in self.locks.get(ino, ()):
            if q != pid or b <= s or a >= e:
                out.append((q, a, b, m))
                continue
            if a < s:
                out.append((q, a, s, m))
            if b > e:
                out.append((q, e, b, m))
        if mode:
            out.append((pid, s, e, mode))
        out.sort()
        merged = []
        for l in out:
            if merged and merged[-1][0] == l[0] and merged[-1][3] == l[3] \
                    and merged[-1][2] >= l[1]:
                merged[-1] = (l[0], merged[-1][1], max(l[2], merged[-1][2]),
                              l[3])
            else:
                merged.append(l)
        if merged:
            self.locks[ino] = merged
        else:
            self.locks.pop(ino, None)

    def _conflict(self, ino, pid, s, e, mode):
        for q, a, b, m in self.locks.get(ino, ()):
            if q != pid and a < e and s < b and (m == "x" or mode == "x"):
                return True
        return False

    @staticmethod
    def _range(length, start):
        if length < 0 or start < 0:
            raise Unmodelled("negative lockf length/start not modelled")
        return start, (INF if length == 0 else start + length)

    def lock_conflict(self, pid, fd, cmd, length=0, start=0):
        """would this lockf request have to wait?"""
        import fcntl
        of = self.fds.get(pid, {}).get(fd)
        if of is None or of.kind != "file" or cmd & fcntl.LOCK_UN:
            return False
        s, e = self._range(length, start)
        return self._conflict(of.ref.ino, pid, s, e,
                              "x" if cmd & fcntl.LOCK_EX else "s")

    def range_conflict(self, pid, ino, s, e, mode):
        return self._conflict(ino, pid, s, e, mode)

    def lockf(self, pid, fd, cmd, length=0, start=0, whence=0):
        import fcntl
        if whence != 0:
            raise Unmodelled("lockf whence != 0 not modelled")
        of = self._fd(pid, fd, "file")
        s, e = self._range(length, start)
        acc = of.flags & _os.O_ACCMODE
        if cmd & fcntl.LOCK_UN:
            self._set_lock(of.ref.ino, pid, s, e, None)
            return
        if cmd & fcntl.LOCK_EX:
            mode = "x"
            if acc == _os.O_RDONLY:
                raise _err(errno.EBADF)
        elif cmd & fcntl.LOCK_SH:
            mode = "s"
            if acc == _os.O_WRONLY:
                raise _err(errno.EBADF)
        else:
            raise _err(errno.EINVAL)
        if self._conflict(of.ref.ino, pid, s, e, mode):
            if cmd & fcntl.LOCK_NB:
                raise _err(errno.EAGAIN)
            raise SimBug("blocking lockf executed while the range is held "
                         "(the scheduler must keep the caller disabled)")
        self._set_lock(of.ref.ino, pid, s, e, mode)

    # -------------------------------------------------------------------- bpf
    def bpf_new(self, pid, kind, **attrs):
        oid = self._newid(pid, "obj")
        self.objs[oid] = dict(kind=kind, **attrs)
        return self._newfd(pid, OpenFile("bpf", oid))

    def resolve(self, pid, fd):
        """object id behind a bpf descriptor of pid (None if not open)"""
        of = self.fds.get(pid, {}).get(fd)
        return of.ref if of is not None and of.kind == "bpf" else None

    def obj_pin(self, pid, path, fd):
        of = self._fd(pid, fd, "bpf")
        parent, name, node = self._walk(path)
        if node is not None:
            raise _err(errno.EEXIST)
        parent.entries[name] = Pin(of.ref)

    def obj_get(self, pid, path):
        _, _, node = self._walk(path)
        if node is None:
            raise _err(errno.ENOENT)
        if not isinstance(node, Pin):
            raise _err(errno.EINVAL if isinstance(node, File)
                       else errno.EACCES)
        return self._newfd(pid, OpenFile("bpf", node.obj))

    def pinned(self, path):
        """object id pinned at path, or None"""
        try:
            node = self._walk(path)[2]
        except OSError:
            return None
        return node.obj if isinstance(node, Pin) else None

    def set_xdp(self, pid, ifname, fd):
        if fd == -1:
            self.attached.pop(ifname, None)
            return
        of = self._fd(pid, fd, "bpf")
        if self.objs[of.ref]["kind"] != "prog":
            raise _err(errno.EINVAL)
        self.attached[ifname] = of.ref

    # ---------------------------------------------------------------- process
    def exit_process(self, pid):
        for fd in sorted(self.fds.get(pid, {})):
            self.close(pid, fd)
        self.fds.pop(pid, None)
        self.dead.add(pid)

    # ------------------------------------------------------------------ canon
    def canon(self, rename=None):
        """hashable canonical state.  rename: {pid: pid} applies a renaming
        of the processes (descriptor tables, lock owners, creator part of
        inode / object ids, mkdtemp names) - used to identify states that
        differ only in which of several identical processes is which"""
        if rename is None:
            def R(pid):
                return pid

            def rname(k):
                return k
        else:
            R = rename.__getitem__

            def rname(k):
                t = self.tmpnames.get(k)
                return k if t is None else f"{t[0]}.p{R(t[1])}.{t[2]}"

        def rid(i):
            return Id(R(i[0]), i[1]) if isinstance(i, Id) else i
        inodes = {}
        live = set(self.attached.values())

        def content(d):
            if rename is not None and self.pid_content:
                # pid numbers in a file are renamed with their processes
                d = _pid_tokens(bytes(d), lambda i, g: str(
                    pid_number(R(i), g) if i in rename else
                    pid_number(i, g)))
            if len(d) > 128:
                return (len(d), hashlib.blake2b(
                    bytes(d), digest_size=8).hexdigest())
            return bytes(d)

        def node(n):
            if isinstance(n, Dir):
                return ("d", tuple(sorted((rname(k), node(c))
                                          for k, c in n.entries.items())))
            if isinstance(n, File):
                inodes[rid(n.ino)] = content(n.data)
                return ("f", rid(n.ino))
            live.add(n.obj)
            return ("p", rid(n.obj))
        tree = node(self.root)
        fds = []
        for pid in self.fds:
            for fd, of in self.fds[pid].items():
                if of.kind == "file":
                    inodes[rid(of.ref.ino)] = content(of.ref.data)
                    fds.append((R(pid), fd, "f", rid(of.ref.ino), of.pos,
                                of.flags))
                else:
                    live.add(of.ref)
                    fds.append((R(pid), fd, "b", rid(of.ref)))
        fds.sort()
        objs = tuple(sorted(
            (rid(o), tuple(sorted((k, rid(v))
                                  for k, v in self.objs[o].items())))
            for o in live))
        locks = tuple(sorted(
            (rid(i), tuple(sorted((R(q), a, b, m) for q, a, b, m in ls)))
            for i, ls in self.locks.items()))
        def rp(i):
            return R(i) if rename is None or i in rename else i
        procs = (tuple(sorted((rp(i), g) for i, g in self.procgen.items())),
                 tuple(sorted(rp(i) for i in self.dead)),
                 tuple(sorted(self.residents)))
        return (tree, tuple(sorted(inodes.items())), tuple(fds), locks, objs,
                tuple(sorted((k, rid(v))
                             for k, v in self.attached.items())), procs)

    def dump(self, path="/"):
        """{path: 'dir' | bytes | ('pin', obj)} for reports / conformance"""
        out = {}

        def rec(p, n):
            if isinstance(n, Dir):
                out[p or "/"] = "dir"
                for k in sorted(n.entries):
                    rec(p + "/" + k, n.entries[k])
            elif isinstance(n, File):
                out[p] = bytes(n.data)
            else:
                out[p] = ("pin", n.obj)
        node = self._walk(path)[2]
        if node is not None:
            rec(path.rstrip("/"), node)
        return out


# =========================================================================
# 2. runtimes, facades, seams
# =========================================================================
_RT = None     # the current runtime of this OS process (Run or DirectRuntime)


def current():
    if _RT is None:
        raise SimBug("simulated OS call outside a Run / DirectRuntime")
    return _RT


def _summ(x):
    """JSON-friendly, deterministic summary of an argument / a result"""
    if isinstance(x, (bytes, bytearray)):
        if len(x) > 128:
            return f"b[{len(x)}]#" + hashlib.blake2b(
                bytes(x), digest_size=8).hexdigest()
        return "b:" + bytes(x).hex()
    if isinstance(x, (int, str)) or x is None:
        return x
    if isinstance(x, (list, tuple)):
        return [_summ(i) for i in x]
    return repr(x)


def _exc_summ(e):
    return ["!", type(e).__name__, getattr(e, "errno", None)]


class DirectRuntime:
    """no scheduling: every call executes immediately as process ``pid``"""

    def __init__(self, world, pid=0):
        self.world = world
        self._pid = pid
        self.log = []

    def pid(self):
        return self._pid

    def set_pid(self, pid):
        self._pid = pid

    def syscall(self, name, args, thunk, enabled=None, fail=None):
        if enabled is not None and not enabled():
            raise SimBug(f"{name}{args} would block in a DirectRuntime")
        return thunk()

    def choose(self, name, domain):
        return domain[0]

    def flag(self, k, v):
        pass

    def __enter__(self):
        global _RT
        self._prev, _RT = _RT, self
        reset_library_state()
        self._garbage = own_garbage().__enter__()
        return self

    def __exit__(self, *a):
        """what the execution left behind is destroyed while this runtime is
        still the current one (the caller has to drop its own references
        first), see own_garbage"""
        global _RT
        self._garbage.__exit__()
        _RT = self._prev


class PathFacade:
    """stands in for ``os.path``: the functions that look at the file system
    look at the simulated one (each is a scheduling point), the purely
    lexical ones are the real ones"""
    _PURE = ("join", "basename", "dirname", "split", "splitext", "normpath",
             "isabs", "sep", "commonprefix", "commonpath", "relpath")

    def __getattr__(self, name):
        if name in self._PURE:
            return getattr(_os.path, name)
        _unmodelled(f"os.path.{name} is not modelled by simos")

    @staticmethod
    def _stat(path, what):
        rt = current()
        box = []

        def do():
            box.append(rt.world.stat(rt.pid(), path))
            return [box[0].st_mode, box[0].st_size]
        try:
            rt.syscall(what, (path,), do)
        except OSError:
            return None
        return box[0]

    def exists(self, path):
        return self._stat(path, "exists") is not None

    lexists = exists

    def isfile(self, path):
        st = self._stat(path, "isfile")
        return st is not None and st.st_mode & 0o170000 == 0o100000

    def isdir(self, path):
        st = self._stat(path, "isdir")
        return st is not None and st.st_mode & 0o170000 == 0o040000

    def getsize(self, path):
        rt = current()
        return rt.syscall("getsize", (path,),
                          lambda: rt.world.stat(rt.pid(), path).st_size)


class OsFacade:
    """stands in for module ``os`` inside a module under test"""
    _PURE = ("strerror", "fspath", "fsencode", "fsdecode", "sep", "error",
             "environ", "getenv")
    path = PathFacade()

    def __getattr__(self, name):
        v = getattr(_os, name)
        if isinstance(v, int) or name in self._PURE:
            return v
        _unmodelled(f"os.{name} is not modelled by simos")

    def getpid(self):
        """distinct numbers for distinct processes (see PID_BASE); for
        identical processes the number is renamed with the process"""
        rt = current()
        return rt.world.ospid(rt.pid())

    def getuid(self):
        return 0

    geteuid = getuid

    def kill(self, pid, sig):
        rt = current()
        return rt.syscall("kill", (pid, int(sig)),
                          lambda: rt.world.kill(rt.pid(), pid, int(sig)))

    def stat(self, path, *a, **kw):
        """os.stat / os.lstat of a path: type and size; the recorded result
        of the operation is [mode, size]"""
        if a or kw:
            _unmodelled("os.stat with dir_fd / follow_symlinks is not "
                        "modelled by simos")
        if isinstance(path, int):
            return self.fstat(path)
        rt = current()
        box = []

        def do():
            box.append(rt.world.stat(rt.pid(), path))
            return [box[0].st_mode, box[0].st_size]
        rt.syscall("stat", (path,), do)
        return box[0]

    lstat = stat

    def access(self, path, mode, *a, **kw):
        rt = current()

        def do():
            try:
                rt.world.stat(rt.pid(), path)
            except OSError:
                return False
            return True
        return rt.syscall("access", (path, mode), do)

    def link(self, src, dst, *a, **kw):
        if a or kw:
            _unmodelled("os.link with dir_fd is not modelled by simos")
        rt = current()
        return rt.syscall("link", (src, dst),
                          lambda: rt.world.link(rt.pid(), src, dst))

    def fsync(self, fd):
        rt = current()
        return rt.syscall("fsync", (fd,),
                          lambda: rt.world._fd(rt.pid(), fd) and None)

    fdatasync = fsync

    def lseek(self, fd, pos, how):
        rt = current()

        def do():
            of = rt.world._fd(rt.pid(), fd, "file")
            base = {0: 0, 1: of.pos, 2: len(of.ref.data)}.get(how)
            if base is None or base + pos < 0:
                raise _err(errno.EINVAL)
            of.pos = base + pos
            return of.pos
        return rt.syscall("lseek", (fd, pos, how), do)

    def makedirs(self, name, mode=0o777, exist_ok=False):
        rt = current()
        return rt.syscall("makedirs", (name,), lambda: rt.world.makedirs(
            rt.pid(), name, exist_ok))

    def mkdir(self, path, mode=0o777):
        rt = current()
        return rt.syscall("mkdir", (path,),
                          lambda: rt.world.mkdir(rt.pid(), path))

    def listdir(self, path):
        rt = current()
        return rt.syscall("listdir", (path,),
                          lambda: rt.world.listdir(rt.pid(), path))

    def rename(self, src, dst):
        rt = current()
        return rt.syscall("rename", (src, dst),
                          lambda: rt.world.rename(rt.pid(), src, dst))

    replace = rename

    def rmdir(self, path):
        rt = current()
        return rt.syscall("rmdir", (path,),
                          lambda: rt.world.rmdir(rt.pid(), path))

    def remove(self, path):
        rt = current()
        return rt.syscall("remove", (path,),
                          lambda: rt.world.remove(rt.pid(), path))

    unlink = remove

    def open(self, path, flags, mode=0o777):
        rt = current()
        return rt.syscall("open", (path, flags & ~_os.O_CLOEXEC),
                          lambda: rt.world.open(rt.pid(), path, flags))

    def close(self, fd):
        rt = current()
        return rt.syscall("close", (fd,),
                          lambda: rt.world.close(rt.pid(), fd))

    def write(self, fd, data):
        rt = current()
        return rt.syscall("write", (fd, bytes(data)),
                          lambda: rt.world.write(rt.pid(), fd, data))

    def read(self, fd, n):
        rt = current()
        return rt.syscall("read", (fd, n),
                          lambda: rt.world.read(rt.pid(), fd, n))

    def pread(self, fd, n, offset):
        rt = current()
        return rt.syscall("pread", (fd, n, offset),
                          lambda: rt.world.pread(rt.pid(), fd, n, offset))

    def pwrite(self, fd, data, offset):
        rt = current()
        return rt.syscall("pwrite", (fd, bytes(data), offset),
                          lambda: rt.world.pwrite(rt.pid(), fd, data, offset))

    def ftruncate(self, fd, length):
        rt = current()
        return rt.syscall("ftruncate", (fd, length),
                          lambda: rt.world.ftruncate(rt.pid(), fd, length))

    def fstat(self, fd):
        """os.fstat: only st_size is meaningful; the recorded result of the
        operation is the size"""
        rt = current()
        box = []

        def do():
            box.append(rt.world.fstat(rt.pid(), fd))
            return box[0].st_size
        rt.syscall("fstat", (fd,), do)
        return box[0]


class FcntlFacade:
    """stands in for module ``fcntl`` (only lockf)"""

    def __getattr__(self, name):
        import fcntl
        v = getattr(fcntl, name)
        if isinstance(v, int):
            return v
        _unmodelled(f"fcntl.{name} is not modelled by simos")

    def lockf(self, fd, cmd, len=0, start=0, whence=0):
        import fcntl
        rt = current()
        w, pid = rt.world, rt.pid()
        enabled = None
        if not cmd & (fcntl.LOCK_NB | fcntl.LOCK_UN):
            def enabled():
                return not w.lock_conflict(pid, fd, cmd, len, start)
        fail = None
        if cmd & fcntl.LOCK_NB:
            def fail():
                of = w.fds.get(pid, {}).get(fd)
                s, e = w._range(len, start)
                return (of.ref.ino, s, e,
                        "x" if cmd & fcntl.LOCK_EX else "s")
        return rt.syscall("lockf", (fd, cmd, len, start),
                          lambda: w.lockf(pid, fd, cmd, len, start, whence),
                          enabled=enabled, fail=fail)


class ShutilFacade:
    def __getattr__(self, name):
        _unmodelled(f"shutil.{name} is not modelled by simos")

    def rmtree(self, path, ignore_errors=False):
        rt = current()
        try:
            return rt.syscall("rmtree", (path,),
                              lambda: rt.world.rmtree(rt.pid(), path))
        except OSError:
            if not ignore_errors:
                raise


    def copyfile(self, src, dst, *, follow_symlinks=True):
        """what shutil.copyfile does, system call by system call: both files
        are opened (and closed again) by the calling process"""
        osf = OsFacade()
        fsrc = osf.open(src, _os.O_RDONLY)
        try:
            fdst = osf.open(dst, _os.O_WRONLY | _os.O_CREAT | _os.O_TRUNC)
            try:
                while True:
                    buf = osf.read(fsrc, 65536)
                    if not buf:
                        break
                    osf.write(fdst, buf)
            finally:
                osf.close(fdst)
        finally:
            osf.close(fsrc)
        return dst

    def copy(self, src, dst, *, follow_symlinks=True):
        return self.copyfile(src, dst)

    copy2 = copy


class TempfileFacade:
    def __getattr__(self, name):
        _unmodelled(f"tempfile.{name} is not modelled by simos")

    def mkdtemp(self, suffix=None, prefix=None, dir=None):
        rt = current()
        if dir is None or suffix:
            _unmodelled("mkdtemp needs dir= and no suffix in simos")
        return rt.syscall("mkdtemp", (dir,), lambda: rt.world.mkdtemp(
            rt.pid(), dir, prefix or "tmp"))


class SimTextFile:
    """what builtin open() returns: a buffered file.  What is written stays
    in the buffer until ``flush()`` / ``close()`` (two points: the file
    exists - empty - from ``open`` on, its content arrives later); reading
    flushes first.  Text mode unless ``binary``."""

    def __init__(self, fd, readable=True, binary=False, name=None, mode="r"):
        self.fd = fd
        self.buf = []
        self.closed = False
        self.readable = readable
        self.binary = binary
        self.name = name
        self.mode = mode
        self.rbuf = ""          # text mode: read ahead, not yet asked for

    def fileno(self):
        return self.fd

    def write(self, s):
        if self.closed:
            raise ValueError("I/O operation on closed file.")
        if self.binary:
            s = bytes(s)
        elif not isinstance(s, str):
            raise TypeError("write() argument must be str")
        self.buf.append(s)
        return len(s)

    def writelines(self, lines):
        for l in lines:
            self.write(l)

    def _pending(self):
        data = b"".join(self.buf) if self.binary \
            else "".join(self.buf).encode()
        self.buf = []
        return data

    def flush(self):
        data = self._pending()
        if data:
            rt = current()
            rt.syscall("write", (self.fd, data),
                       lambda: rt.world.write(rt.pid(), self.fd, data))

    def _raw(self, n):
        rt = current()
        return rt.syscall("read", (self.fd,), lambda: rt.world.read(
            rt.pid(), self.fd, n))

    def _read(self, n):
        if self.closed:
            raise ValueError("I/O operation on closed file.")
        self.flush()
        everything = n is None or n < 0
        if self.binary:
            return self._raw((1 << 30) if everything else n)
        # text: like TextIOWrapper the file is read ahead in chunks; what
        # was not asked for yet stays decoded in self.rbuf, and the file
        # position (where a write would land) is behind the chunk
        if everything:
            out = self.rbuf + self._raw(1 << 30).decode()
            self.rbuf = ""
            return out
        while len(self.rbuf) < n:
            chunk = self._raw(8192).decode()
            if not chunk:
                break
            self.rbuf += chunk
        out, self.rbuf = self.rbuf[:n], self.rbuf[n:]
        return out

    def read(self, n=-1):
        return self._read(n)

    def readline(self):
        if self.binary:
            # everything is read, what follows the line is given back by
            # moving the file position (no scheduling point of its own)
            rest = self._read(-1)
            i = rest.find(b"\n")
            if i < 0 or i == len(rest) - 1:
                return rest
            rt = current()
            of = rt.world._fd(rt.pid(), self.fd, "file")
            of.pos -= len(rest) - i - 1
            return rest[:i + 1]
        if self.closed:
            raise ValueError("I/O operation on closed file.")
        self.flush()
        while "\n" not in self.rbuf:
            chunk = self._raw(8192).decode()
            if not chunk:
                break
            self.rbuf += chunk
        i = self.rbuf.find("\n")
        i = len(self.rbuf) if i < 0 else i + 1
        out, self.rbuf = self.rbuf[:i], self.rbuf[i:]
        return out

    def readlines(self):
        return self._read(-1).splitlines(True)

    def __iter__(self):
        return iter(self.readlines())

    def seek(self, pos, whence=0):
        self.flush()
        if self.rbuf and whence == 1:
            _unmodelled("relative seek in a text file is not modelled")
        self.rbuf = ""
        rt = current()

        def do():
            of = rt.world._fd(rt.pid(), self.fd, "file")
            base = {0: 0, 1: of.pos, 2: len(of.ref.data)}.get(whence)
            if base is None or base + pos < 0:
                raise _err(errno.EINVAL)
            of.pos = base + pos
            return of.pos
        return rt.syscall("lseek", (self.fd, pos, whence), do)

    def tell(self):
        if self.rbuf:
            _unmodelled("tell() of a text file with read-ahead is not "
                        "modelled")
        rt = current()
        return rt.world._fd(rt.pid(), self.fd, "file").pos + sum(
            len(x if self.binary else x.encode()) for x in self.buf)

    def truncate(self, size=None):
        self.flush()
        rt = current()
        if size is None:
            size = rt.world._fd(rt.pid(), self.fd, "file").pos
        rt.syscall("ftruncate", (self.fd, size),
                   lambda: rt.world.ftruncate(rt.pid(), self.fd, size))
        return size

    def close(self):
        if self.closed:
            return
        rt = current()
        data = self._pending()

        def do():
            if data:
                rt.world.write(rt.pid(), self.fd, data)
            rt.world.close(rt.pid(), self.fd)
        rt.syscall("close", (self.fd, data), do)
        self.closed = True

    def __enter__(self):
        return self

    def __exit__(self, *a):
        self.close()


def sim_open(path, mode="r", *a, **kw):
    """builtin open() for the modes r, w, x, a, optionally with + and / or b
    (text is UTF-8; buffering / encoding arguments are ignored)"""
    if not isinstance(mode, str):
        raise TypeError("open() argument 'mode' must be str")
    if isinstance(path, int):
        _unmodelled("open() of a file descriptor is not modelled by simos")
    binary = "b" in mode
    plus = "+" in mode
    m = mode.replace("t", "").replace("b", "").replace("+", "")
    flags = {"r": 0,
             "w": _os.O_CREAT | _os.O_TRUNC,
             "x": _os.O_CREAT | _os.O_EXCL,
             "a": _os.O_CREAT | _os.O_APPEND}.get(m)
    if flags is None or len(mode) != len(set(mode)):
        _unmodelled(f"open mode {mode!r} not modelled")
    flags |= _os.O_RDWR if plus else \
        (_os.O_RDONLY if m == "r" else _os.O_WRONLY)
    rt = current()
    # (the recorded mode of the plain text modes is what it always was)
    shown = m + ("+" if plus else "") + ("b" if binary else "")
    fd = rt.syscall("open", (path, shown),
                    lambda: rt.world.open(rt.pid(), path, flags))
    return SimTextFile(fd, m == "r" or plus, binary, path, mode)


async def sim_sleep(delay=0, result=None):
    """asyncio.sleep: a scheduling point that advances nothing.  Directly
    after a failed non-blocking lockf (spin loop) the caller stays disabled
    until that range is free."""
    rt = current()
    rt.syscall("sleep", (), lambda: None, enabled=rt.spin_guard()
               if hasattr(rt, "spin_guard") else None)
    return result


def bpf_create_map(map_type, key_size, value_size, max_entries, *a, **kw):
    rt = current()
    return rt.syscall("create_map", (getattr(map_type, "name", map_type),),
                      lambda: rt.world.bpf_new(
                          rt.pid(), "map",
                          type=getattr(map_type, "name", str(map_type))))


def bpf_obj_pin(pathname, fd):
    rt = current()
    return rt.syscall("obj_pin", (pathname, fd),
                      lambda: rt.world.obj_pin(rt.pid(), pathname, fd))


def bpf_obj_get(pathname):
    rt = current()
    return rt.syscall("obj_get", (pathname,),
                      lambda: rt.world.obj_get(rt.pid(), pathname))


def bpf_prog_load(**attrs):
    """attrs may hold descriptors under keys ending in '_fd': they are
    resolved to object ids at load time (a program keeps its maps alive)"""
    rt = current()

    def do():
        a = {}
        for k, v in attrs.items():
            a[k[:-3] if k.endswith("_fd") else k] = \
                rt.world.resolve(rt.pid(), v) if k.endswith("_fd") else v
        return rt.world.bpf_new(rt.pid(), "prog", **a)
    return rt.syscall("prog_load", (_summ(sorted(attrs.items())),), do)


def bpf_set_xdp(ifname, fd):
    rt = current()
    return rt.syscall("set_xdp", (ifname, fd),
                      lambda: rt.world.set_xdp(rt.pid(), ifname, fd))


def bpf_close(fd):
    rt = current()
    return rt.syscall("close", (fd,), lambda: rt.world.close(rt.pid(), fd))


class Seams:
    """rebinding of module / class attributes with restore"""

    def __init__(self):
        self.saved = []

    def set(self, obj, name, value):
        missing = object()
        old = obj.__dict__.get(name, missing)
        self.saved.append((obj, name, old, missing))
        k = (id(obj), name)
        _SEAMED[k] = _SEAMED.get(k, 0) + 1
        setattr(obj, name, value)

    def restore(self):
        for obj, name, old, missing in reversed(self.saved):
            if old is missing:
                delattr(obj, name)
            else:
                setattr(obj, name, old)
            k = (id(obj), name)
            _SEAMED[k] = _SEAMED.get(k, 1) - 1
            if _SEAMED[k] <= 0:
                del _SEAMED[k]
        self.saved = []


_SEAMED = {}    # (id(holder), name) -> how many Seams rebind it right now


# ---- module-level and class-level data of the library -----------------------
# A library module may keep data in module globals or class attributes (a
# cache, a registry, a counter).  That data belongs to the *process*: a real
# process starts with the import-time value and no other process ever sees
# it.  The explorer runs thousands of executions, and all simulated processes
# of an execution, inside one Python process, so this ownership has to be
# modelled: for every module registered with ``own_library_state``
#   * the data is reset to its import-time value before every execution
#     (``Run.start``, ``DirectRuntime.__enter__``, ``reset_library_state``),
#     never inside one, so that no execution depends on the worker's history;
#   * inside a ``Run`` every simulated process has its private copy, swapped
#     in when the process gets the baton (a process made by
#     ``restart_process`` starts from the import-time value again).
# "Data" = attributes of the module and of the classes defined in it whose
# value is a dict / list / set / bytearray / deque (restored in place, by
# content), a number / str / bytes / tuple / frozenset / None (rebound), or
# any other non-callable object without __get__ that can be deep-copied
# (rebound to a copy); attributes that did not exist at import time are
# removed.  Names currently rebound through ``Seams`` are left alone.
class LibraryState:
    CONTAINERS = (dict, list, set, bytearray)
    SCALARS = (int, float, complex, str, bytes, type(None), tuple, frozenset)

    def __init__(self, module):
        import collections
        import copy
        import types
        self._copy, self._deep = copy.copy, copy.deepcopy
        self.CONTAINERS = LibraryState.CONTAINERS + (collections.deque,)
        self._skip = (types.ModuleType, type, types.FunctionType,
                      types.BuiltinFunctionType, types.MethodType,
                      staticmethod, classmethod, property)
        self.module = module
        self.holders = [module] + [
            v for v in vars(module).values()
            if isinstance(v, type) and v.__module__ == module.__name__]
        self.lens = [len(vars(h)) for h in self.holders]
        self.orig, self.snap = {}, {}
        for i, h in enumerate(self.holders):
            for name, v in list(vars(h).items()):
                if self._data(h, name, v):
                    self.orig[i, name] = v
                    self.snap[i, name] = self._deep(v)

    def _data(self, holder, name, v):
        if name.startswith("__") or (id(holder), name) in _SEAMED:
            return False
        if isinstance(v, self.CONTAINERS) or isinstance(v, self.SCALARS):
            return True
        if isinstance(v, self._skip) or callable(v) or hasattr(v, "__get__"):
            return False
        try:
            self._deep(v)
        except Exception:
            return False
        return True

    def fresh(self):
        """the import-time value (deep copies: nothing is shared between the
        executions / processes that start from it)"""
        return {k: self._deep(v) for k, v in self.snap.items()}

    def save(self):
        """what is installed right now (containers copied one level deep:
        whatever is inside belongs to the process that put it there)"""
        if not self.snap and all(len(vars(h)) == n for h, n in
                                 zip(self.holders, self.lens)):
            return {}
        out = {}
        for i, h in enumerate(self.holders):
            for name, v in list(vars(h).items()):
                if self._data(h, name, v):
                    out[i, name] = self._copy(v) \
                        if isinstance(v, self.CONTAINERS) else v
        return out

    def load(self, state):
        for i, h in enumerate(self.holders):
            for name, v in list(vars(h).items()):
                if (i, name) not in state and self._data(h, name, v):
                    delattr(h, name)
        for (i, name), v in state.items():
            h, o = self.holders[i], self.orig.get((i, name))
            if o is not None and isinstance(o, self.CONTAINERS) \
                    and type(o) is type(v):
                # the import-time object keeps its identity (something may
                # hold a reference to it), only its content is replaced
                if isinstance(o, (dict, set)):
                    o.clear()
                    o.update(v)
                else:
                    del o[:]
                    o.extend(v)
                v = o
            elif isinstance(v, self.CONTAINERS):
                v = self._copy(v)
            if vars(h).get(name, _MISSING) is not v:
                setattr(h, name, v)


_MISSING = object()
_LIBS = []      # LibraryState of every registered module, registration order


def own_library_state(module):
    """register a library module (call it right after importing the module,
    before anything used it: what it holds then is the import-time value)"""
    for ls in _LIBS:
        if ls.module is module:
            return ls
    _LIBS.append(LibraryState(module))
    return _LIBS[-1]


def owned_library_modules():
    return [ls.module.__name__ for ls in _LIBS]


def reset_library_state():
    """import-time value of all registered modules' data; to be called
    before an execution starts, never inside one"""
    for ls in _LIBS:
        if ls.snap or ls.save():
            ls.load(ls.fresh())


def selftest_library_state():
    """the ownership of library data works: reset before an execution,
    private copies per simulated process.  -> list of problems"""
    import types
    mod = types.ModuleType("simos_selftest_lib")
    exec("registry = []\n"
         "serial = 0\n"
         "import os\n"
         "class Cache:\n"
         "    table = {}\n"
         "    limit = 3\n"
         "    def put(self, k, v):\n"
         "        global serial\n"
         "        serial += 1\n"
         "        self.table[k] = v\n"
         "        registry.append(k)\n"
         "        type(self).last = k\n", mod.__dict__)
    bad = []

    def expect(what, got, want):
        if got != want:
            bad.append(f"{what}: {got!r}, expected {want!r}")
    ls = LibraryState(mod)
    table = mod.Cache.table
    seam = Seams()
    seam.set(mod, "os", "facade")
    mod.Cache().put("a", 1)
    mod.Cache.limit = 4
    expect("used", (mod.Cache.table, mod.registry, mod.serial,
                    mod.Cache.last), ({"a": 1}, ["a"], 1, "a"))
    used = ls.save()
    ls.load(ls.fresh())
    expect("reset", (mod.Cache.table, mod.registry, mod.serial,
                     mod.Cache.limit, hasattr(mod.Cache, "last"), mod.os),
           ({}, [], 0, 3, False, "facade"))
    expect("identity kept", mod.Cache.table is table, True)
    mod.Cache().put("b", 2)
    ls.load(used)
    expect("swapped in", (mod.Cache.table, mod.registry, mod.serial,
                          mod.Cache.limit, mod.Cache.last),
           ({"a": 1}, ["a"], 1, 4, "a"))
    seam.restore()
    expect("seam restored", mod.os, _os)
    ls.load(ls.fresh())
    # inside a Run: every simulated process has its own copy, and a new
    # execution starts from the import-time value
    _LIBS.append(ls)
    try:
        seen = {}

        def body(rt):
            pid = rt.pid()
            for i in range(2):
                rt.syscall("note", (i,), lambda: None)
                seen[pid, i] = (dict(mod.Cache.table), mod.serial)
                mod.Cache().put(f"p{pid}", i)
            return None
        for _ in range(2):
            seen.clear()
            run = Run(World(), [body, body]).start()
            try:
                run.play([(0, STEP), (1, STEP), (0, STEP), (1, STEP),
                          (1, STEP), (0, STEP)])
            finally:
                run.finish()
            expect("per process", seen, {
                (0, 0): ({}, 0), (1, 0): ({}, 0),
                (0, 1): ({"p0": 0}, 1), (1, 1): ({"p1": 0}, 1)})
    finally:
        _LIBS.remove(ls)
    return bad


def _lib_save():
    return [ls.save() for ls in _LIBS]


def _lib_load(states):
    for ls, st in zip(_LIBS, states):
        ls.load(st)


def _lib_fresh():
    return [ls.fresh() for ls in _LIBS]


def install_ebpfcat(seams, ebpfcat_mod=True, lock_mod=True):
    """standard bindings for ebpfcat.ebpfcat and ebpfcat.lock"""
    osf, fc = OsFacade(), FcntlFacade()
    if ebpfcat_mod:
        import ebpfcat.ebpfcat as m
        seams.set(m, "os", osf)
        seams.set(m, "fcntl", fc)     # not imported today; for repairs
        seams.set(m, "shutil", ShutilFacade())
        seams.set(m, "tempfile", TempfileFacade())
        seams.set(m, "open", sim_open)
        seams.set(m, "sleep", sim_sleep)
        seams.set(m, "create_map", bpf_create_map)
        seams.set(m, "obj_pin", bpf_obj_pin)
        seams.set(m, "obj_get", bpf_obj_get)
    if lock_mod:
        import ebpfcat.lock as l
        seams.set(l, "os", osf)
        seams.set(l, "fcntl", fc)
        seams.set(l, "sleep", sim_sleep)
        guard_module(seams, l, osf, fc)
    if ebpfcat_mod:
        guard_module(seams, m, osf, fc)
    return osf, fc


class _UnmodelledThing:
    """stands in for a module / function / class of the operating system
    interface that a module under test holds and simos has no model of: any
    use is an unmodelled call (never a silent visit to the real OS)"""

    def __init__(self, what):
        self.__dict__["_what"] = what

    def __getattr__(self, name):
        if name.startswith("__") and name.endswith("__"):
            raise AttributeError(name)
        _unmodelled(f"{self._what}.{name} is not modelled by simos")

    def __call__(self, *a, **kw):
        _unmodelled(f"{self._what} is not modelled by simos")


_OS_MODULES = ("pathlib", "glob", "signal", "subprocess", "psutil")
_OS_FUNCTION_HOMES = {"posix": "os", "os": "os", "posixpath": "os.path",
                      "genericpath": "os.path", "shutil": "shutil",
                      "tempfile": "tempfile", "fcntl": "fcntl",
                      "pathlib": "pathlib", "glob": "glob",
                      "signal": "signal", "subprocess": "subprocess"}


def guard_module(seams, module, osf=None, fc=None):
    """whatever else `module` holds of the operating-system interface - a
    module object (``import pathlib``) or a function / class imported by name
    (``from os import kill``, ``from os.path import exists``, ``from pathlib
    import Path``) - is rebound: to the facade's function of that name where
    there is one, else to a stand-in whose use is an unmodelled call.  Names
    that are already rebound through Seams are left alone."""
    import types
    osf = osf or OsFacade()
    fc = fc or FcntlFacade()
    facades = {"os": osf, "os.path": osf.path, "shutil": ShutilFacade(),
               "tempfile": TempfileFacade(), "fcntl": fc}
    for name, v in sorted(vars(module).items()):
        if name.startswith("__") or (id(module), name) in _SEAMED:
            continue
        if isinstance(v, types.ModuleType):
            # a module of the OS interface under whatever name
            fac = {"os": osf, "posix": osf, "posixpath": osf.path,
                   "genericpath": osf.path, "shutil": facades["shutil"],
                   "tempfile": facades["tempfile"],
                   "fcntl": fc}.get(v.__name__)
            if fac is not None:
                seams.set(module, name, fac)
            elif v.__name__.partition(".")[0] in _OS_MODULES:
                seams.set(module, name, _UnmodelledThing(v.__name__))
            continue
        home = getattr(v, "__module__", None)
        if not callable(v) or not isinstance(home, str):
            continue
        home = _OS_FUNCTION_HOMES.get(home.partition(".")[0]
                                      if home.startswith("pathlib") else home)
        if home is None:
            continue
        real = getattr(v, "__name__", name)
        fac = facades.get(home)
        if home == "os.path" and real in PathFacade._PURE:
            continue
        if fac is not None and any(real in vars(c) for c in type(fac).__mro__):
            seams.set(module, name, getattr(fac, real))
        elif not (home == "os" and real in OsFacade._PURE):
            seams.set(module, name, _UnmodelledThing(f"{home}.{real}"))


def drive(coro):
    """run a coroutine whose awaits never suspend (all awaited things are
    simos stubs); a real suspension is a harness bug"""
    try:
        y = coro.send(None)
    except StopIteration as s:
        return s.value
    coro.close()
    raise SimBug(f"coroutine really suspended on {y!r}: an await reached "
                 "something that is not stubbed")


# =========================================================================
# 3. Run - baton scheduler
# =========================================================================
def _signal():
    """binary semaphore, initially 0: a plain lock that is held; release()
    signals, acquire() waits (cheaper than threading.Semaphore: every
    hand-over is one futex operation, no Python-level condition variable)"""
    l = threading.Lock()
    l.acquire()
    return l


class _Host:
    """a reusable thread: creating a thread per simulated process and run is
    by far the most expensive part of a replay"""

    def __init__(self):
        self.wake = _signal()
        self.job = None
        self.idle = True
        self.thread = threading.Thread(target=self._loop, daemon=True)
        self.thread.start()

    def _loop(self):
        while True:
            self.wake.acquire()
            job, self.job = self.job, None
            if job is None:
                return
            try:
                job()
            except BaseException:     # _main handles everything itself
                pass
            self.idle = True
            _hosts().append(self)

    def run(self, job):
        self.idle = False
        self.job = job
        self.wake.release()


_HOSTS = (None, [], [])     # (os pid, idle hosts, all hosts)


def _hosts(all=False):
    global _HOSTS
    if _HOSTS[0] != _os.getpid():     # first use, or we are a forked child
        _HOSTS = (_os.getpid(), [], [])
    return _HOSTS[2] if all else _HOSTS[1]


def _get_host():
    idle = _hosts()
    try:
        return idle.pop()
    except IndexError:
        h = _Host()
        _hosts(all=True).append(h)
        return h


def shutdown_hosts():
    """end all pooled threads of this OS process (before forking)"""
    import time
    for h in list(_hosts(all=True)):
        while not h.idle:
            time.sleep(0.0005)
        h.job = None
        h.wake.release()
        h.thread.join()
    del _hosts(all=True)[:]
    del _hosts()[:]


class Proc:
    def __init__(self, pid, body):
        self.pid = pid
        self.body = body
        self.sem = _signal()
        self.thread = None
        self.status = "new"     # new parked running done failed crashed
        self.pending = None     # (name, args) of the parked operation
        self.pending_raw = None  # ... with the arguments as they were given
        self.enabled = None     # predicate or None
        self.options = None     # list for a choice point
        self.chosen = None
        self.abandon = False
        self.hist = hashlib.blake2b(digest_size=10)
        self.nops = 0
        self.events = []        # (global step, name, args, result)
        self.flags = {}
        self.tried = {}
        self.outcome = None
        self.lock_fail = None   # (ino, s, e, mode) of a just-failed NB lockf
        self.libstate = None    # its copy of the library's module/class data
        self.refs = []          # (symmetric) other processes whose pid
        #                         numbers occur in the history, in order


class Run:
    """one execution: a World plus processes on threads under a baton.

    The controller logic (which process executes next) is a *script* of
    choices handed over with ``play``; it is evaluated by whichever thread
    just parked, so consecutive choices for the same process cost no thread
    switch at all.  Control returns to the caller of ``play`` when the script
    is used up."""

    def __init__(self, world, bodies, params=None, symmetric=False):
        self.world = world
        self.procs = [Proc(i, b) for i, b in enumerate(bodies)]
        self.ctl = _signal()
        self.cur = None          # pid holding the baton
        self.log = []            # (step, pid, name, args, result)
        self.nsteps = 0
        self.bug = None
        self.params = params or {}
        # all bodies identical: only schedules in which the processes take
        # their first step in pid order are kept (every other schedule is
        # such a schedule with the processes renamed)
        self.symmetric = symmetric
        self.started = False
        self.finished = False
        self.script = []
        self.si = 0
        self.allow_crash = True
        self._lib_owner = None   # whose library data is installed right now
        # True: a process that asks for something simos does not model is
        # frozen there (see Unmodelled) instead of ending the run as a SimBug
        self.tolerate_unmodelled = False
        if getattr(world, "nprocs", 0) is None:
            world.nprocs = len(self.procs)

    # ---- called on process threads -------------------------------------
    def pid(self):
        if self.cur is None:
            raise SimBug("no process holds the baton")
        return self.cur

    def _hand_over(self, p):
        """thread of p gives the baton away: to the process of the next
        scripted choice, or to the controller.  -> True if p itself is next"""
        while True:
            q = None
            if self.bug is None and self.si < len(self.script) \
                    and self.script[self.si][1] != CRASH:
                q = self._take(self.script[self.si])
            if q is None:
                self.ctl.release()
                return False
            if q is p:
                return True
            q.sem.release()
            return False

    def _take(self, c):
        """validate the scripted choice c and consume it -> Proc (None and
        self.bug set when it is not available: replay divergence)"""
        c = tuple(c)
        if c not in self.choices():
            self.bug = core.Internal(
                f"replay divergence: choice {c} (number {self.si}) is not "
                f"available, available are {self.choices()}")
            return None
        self.si += 1
        self.nsteps += 1
        p = self.procs[c[0]]
        if p.options is not None:
            p.chosen = c[1]
        return p

    def _park(self, p, pending, enabled=None, options=None, raw=None):
        if p.abandon:
            raise Abandon()
        p.pending, p.enabled, p.options = pending, enabled, options
        p.pending_raw = pending if raw is None else raw
        p.status = "parked"
        self.cur = None
        if not self._hand_over(p):
            p.sem.acquire()
        self.cur = p.pid
        if p.abandon:
            raise Abandon()
        self._own_lib(p)
        p.status = "running"
        p.pending = p.enabled = p.options = p.pending_raw = None

    def _own_lib(self, p):
        """p got the baton: the module-level / class-level data of the
        registered library modules is p's own (see LibraryState)"""
        cur = self._lib_owner
        if cur is p or not _LIBS:
            return
        self._lib_owner = p
        now = _lib_save()
        if cur is not None:
            cur.libstate = now
        new = p.libstate if p.libstate is not None else _lib_fresh()
        if any(now) or any(new):
            _lib_load(new)

    def _sym(self, p, x, refs):
        """_summ for the history of one of several identical processes: pid
        numbers (integers, decimal tokens in str / bytes) do not tell who is
        who - the own one becomes <self>, another process's <pid> and the
        process is noted in `refs` (renamed with the state, see
        key_and_renaming)"""
        def repl(i, g):
            if i == p.pid:
                return f"<self.{g}>"
            refs.append(i)
            return f"<pid.{g}>"
        if isinstance(x, (bytes, bytearray)):
            return _summ(_pid_tokens(bytes(x), repl))
        if isinstance(x, str):
            return _pid_tokens(x, repl)
        if isinstance(x, int) and not isinstance(x, bool):
            d = pid_decode(x)
            return x if d is None else repl(*d)
        if isinstance(x, (list, tuple)):
            return [self._sym(p, i, refs) for i in x]
        return _summ(x)

    def _record(self, p, name, args, result, raw=_MISSING):
        ev = (name, _summ(args), result)
        if self.symmetric:      # own mkdtemp names / pid must not tell who
            h = (name, self._sym(p, args, p.refs),      # I am
                 result if raw is _MISSING else self._sym(p, raw, p.refs))
            p.hist.update(repr(h).replace(f".p{p.pid}.", ".pSELF.")
                          .encode())
        else:
            p.hist.update(repr(ev).encode())
        p.nops += 1
        p.events.append((self.nsteps,) + ev)
        self.log.append((self.nsteps, p.pid) + ev)

    def syscall(self, name, args, thunk, enabled=None, fail=None):
        if self.finished:       # a destructor, run while the rest is collected
            raise Abandon()
        p = self.procs[self.pid()]
        self._park(p, (name, _summ(args)), enabled, raw=(name, args))
        p.lock_fail = None
        try:
            r = thunk()
        except Unmodelled as e:
            if self.tolerate_unmodelled:
                self.outside_model(str(e))
            self.bug = self.bug or e
            raise
        except SimBug as e:
            self.bug = self.bug or e
            raise
        except Exception as e:
            if fail is not None and isinstance(e, BlockingIOError):
                p.lock_fail = fail()
            self._record(p, name, args, _exc_summ(e))
            raise
        self._record(p, name, args, _summ(r), raw=r)
        return r

    def outside_model(self, what):
        """the process holding the baton is about to do something simos does
        not model: it stays where it is for the rest of the execution (all
        states reached with it standing there are real), is neither parked
        nor finished, and its thread is unwound when the execution ends.
        Does not return."""
        if self.finished or self.cur is None:
            raise Abandon()
        p = self.procs[self.cur]
        if p.abandon:
            raise Abandon()
        p.status = "unmodelled"
        p.pending = p.pending_raw = ("unmodelled", what)
        p.enabled = p.options = None
        p.outcome = ("outside model", what)
        self.cur = None
        if not self._hand_over(p):
            p.sem.acquire()
        raise Abandon()

    def spin_guard(self):
        p = self.procs[self.pid()]
        lf = p.lock_fail
        if lf is None:
            return None
        w, pid = self.world, p.pid
        return lambda: not w.range_conflict(pid, *lf)

    def choose(self, name, domain):
        """explorer-owned answer of a random source.  A value is never
        offered twice to the same process for the same source; when the
        domain is used up the answers continue upward deterministically."""
        if self.finished:
            raise Abandon()
        p = self.procs[self.pid()]
        if p.abandon:
            raise Abandon()
        tried = p.tried.setdefault(name, [])
        opts = [v for v in domain if v not in tried]
        if not opts:
            v = max(list(domain) + tried) + 1
        elif len(opts) == 1:
            v = opts[0]
        else:
            lf = p.lock_fail
            self._park(p, ("choose", name), None, opts)
            p.lock_fail = lf
            v = p.chosen
        tried.append(v)
        self._record(p, "choose", (name,), v)
        return v

    def restart_process(self):
        """the current process exits (descriptors closed, locks dropped);
        what the body does afterwards is a new process with the same id"""
        p = self.procs[self.pid()]
        self.syscall("exit", ("restart",),
                     lambda: self.world.exit_process(p.pid))
        p.tried.clear()
        p.flags.clear()
        if hasattr(self.world, "new_process"):   # ... with a new pid
            self.world.new_process(p.pid)
        if _LIBS:               # a new process: import-time library data
            self._lib_owner = None
            p.libstate = None
            self._own_lib(p)

    def flag(self, k, v):
        p = self.procs[self.pid()]
        if p.abandon:
            return
        if v is None:
            p.flags.pop(k, None)
        else:
            p.flags[k] = v

    def _main(self, p):
        p.sem.acquire()
        if p.abandon:
            p.status = "abandoned"
            self.ctl.release()
            return
        p.status = "running"
        self.cur = p.pid
        try:
            try:
                self._own_lib(p)
                r = p.body(self)
                p.outcome = ("ok", _summ(r))
            except (Abandon, SimBug):
                raise
            except BaseException as e:   # what the library raised
                p.outcome = ("exc", type(e).__name__,
                             getattr(e, "errno", None), str(e)[:120])
            p.flags.clear()
            self.syscall("exit", (),
                         lambda: self.world.exit_process(p.pid))
            p.status = "done" if p.outcome[0] == "ok" else "failed"
        except Abandon:
            if p.status not in ("crashed", "unmodelled"):
                p.status = "abandoned"
        except SimBug as e:
            self.bug = self.bug or e
            p.status = "abandoned"
        except BaseException as e:       # exception inside simos itself
            self.bug = self.bug or SimBug(f"{type(e).__name__}: {e}")
            p.status = "abandoned"
        finally:
            self.cur = None
            if p.abandon:
                self.ctl.release()
            else:
                self._hand_over(p)

    # ---- called on the controller thread -------------------------------
    def _check_bug(self):
        if self.bug is not None:
            bug = self.bug
            self.finish()
            if isinstance(bug, core.Internal):
                raise bug
            raise core.Internal(f"simulation problem: {bug}")

    def start(self):
        global _RT
        if _RT is not None and not getattr(_RT, "finished", True):
            raise core.Internal("another Run is still active")
        _RT = self
        self.started = True
        reset_library_state()
        self._garbage = own_garbage().__enter__()
        for p in self.procs:
            p.thread = _get_host()
            p.thread.run(lambda p=p: self._main(p))
            p.sem.release()
            self.ctl.acquire()
            self._check_bug()
        return self

    def play(self, choices):
        """execute the given choices in order"""
        self.script = [tuple(c) for c in choices]
        self.si = 0
        while self.si < len(self.script):
            c = self.script[self.si]
            if c[1] == CRASH:
                if c not in self.choices(crash=True):
                    self.bug = core.Internal(
                        f"replay divergence: {c} not available")
                    self._check_bug()
                self.si += 1
                self.nsteps += 1
                self._crash(self.procs[c[0]])
                continue
            p = self._take(c)
            self._check_bug()
            p.sem.release()
            self.ctl.acquire()
            self._check_bug()
        self.script, self.si = [], 0

    def step(self, choice):
        self.play([choice])

    def _crash(self, p):
        self.world.exit_process(p.pid)
        p.status = "crashed"
        p.flags.clear()
        p.outcome = ("crashed", p.pending[0])
        p.hist.update(b"crash")
        self.log.append((self.nsteps, p.pid, "CRASH", list(p.pending), None))
        p.pending = p.enabled = p.options = p.pending_raw = None
        p.abandon = True
        p.sem.release()
        self.ctl.acquire()

    def parked(self):
        return [p for p in self.procs if p.status == "parked"]

    def enabled_procs(self):
        ps = self.parked()
        loc = [p for p in ps if p.options is not None]
        if loc:
            return loc[:1]
        ps = [p for p in ps if p.enabled is None or p.enabled()]
        if self.symmetric:
            ps = [p for p in ps if p.nops > 0 or self._may_start(p)]
        return ps

    def _may_start(self, p):
        if p.pid == 0:
            return True
        prev = self.procs[p.pid - 1]
        if prev.nops > 0 or prev.status != "parked":
            return True
        return prev.enabled is not None and not prev.enabled()

    def choices(self, crash=False):
        out = []
        for p in self.enabled_procs():
            if p.options is not None:
                out.extend((p.pid, v) for v in p.options)
            else:
                out.append((p.pid, STEP))
        if crash and not any(p.options is not None for p in self.parked()):
            out.extend((p.pid, CRASH) for p in self.parked()
                       if p.nops > 0 or not self.symmetric)
        return out

    def terminal(self):
        return not self.parked()

    def outside(self):
        """[(pid, what)] of the processes frozen at an unmodelled call"""
        return [(p.pid, p.pending[1]) for p in self.procs
                if p.status == "unmodelled"]

    def deadlock(self):
        # with a process frozen outside the model nobody can tell whether
        # the others wait for it in vain
        return bool(self.parked()) and not self.enabled_procs() \
            and not self.outside()

    def finish(self):
        global _RT
        if self.finished:
            return
        self.finished = True
        self.script, self.si = [], 0
        for p in self.procs:
            if p.thread is None:
                continue
            if p.status in ("parked", "unmodelled"):
                # blocked on its semaphore: unwind
                p.abandon = True
                p.sem.release()
                self.ctl.acquire()
            # any other status: the thread is past its last hand-over
        # the processes are gone (exited, killed or abandoned): whatever
        # their objects' destructors still ask of the OS gets Abandon; this
        # happens now, while this Run is the current runtime, and not when a
        # later execution has installed its World
        if getattr(self, "_garbage", None) is not None:
            self._garbage.__exit__()
            self._garbage = None
        if _RT is self:
            _RT = None

    # ---- state ----------------------------------------------------------
    def key(self):
        return self.key_and_renaming()[0]

    def key_and_renaming(self):
        """-> (canonical key, {pid: canonical pid}).  For identical
        processes the key is the smallest one over all renamings that are
        compatible with the processes' own (pid independent) states."""
        refs = {}

        def sig(p):
            pend = repr(p.pending)
            if self.symmetric:
                # pid numbers in the pending operation: as in the history
                r = list(p.refs)
                pend = repr(self._sym(p, p.pending_raw
                                      if p.pending is not None else None, r))
                refs[p.pid] = r
            s = (p.status, p.nops, p.hist.hexdigest(), pend,
                 repr(p.options), repr(sorted(p.flags.items())))
            if self.symmetric:
                s = tuple(x.replace(f".p{p.pid}.", ".pSELF.")
                          if isinstance(x, str) else x for x in s)
            return s
        sigs = [sig(p) for p in self.procs]
        ident = {p.pid: p.pid for p in self.procs}
        if not self.symmetric:
            cands = [ident]
        else:
            order = sorted(range(len(sigs)), key=lambda i: (sigs[i], i))
            groups, cands = [], [{}]
            for i in order:
                if groups and sigs[groups[-1][0]] == sigs[i]:
                    groups[-1].append(i)
                else:
                    groups.append([i])
            pos = 0
            for g in groups:
                new = []
                for perm in itertools.permutations(g):
                    for c in cands:
                        d = dict(c)
                        for k, pid in enumerate(perm):
                            d[pid] = pos + k
                        new.append(d)
                cands = new
                pos += len(g)
        best = None
        for r in cands:
            inv = sorted(r, key=r.get)     # canonical position -> pid
            # (whose pid numbers a process has seen, under this renaming)
            rep = repr([self.world.canon(None if r == ident else r)]
                       + [sigs[i] + (tuple(r[q] for q in refs.get(i, ())),)
                          for i in inv])
            if best is None or rep < best[0]:
                best = (rep, r)
        return (hashlib.blake2b(best[0].encode(), digest_size=12)
                .hexdigest(), best[1])

    def outcomes(self):
        return tuple(p.outcome for p in self.procs)


# =========================================================================
# =========================================================================
# 4. explorer
# =========================================================================
class Space:
    def __init__(self, name, factory, monitor, preempt=None, crashes=0,
                 params=None, describe=None, state_cap=None):
        self.name = name
        self.factory = factory
        self.monitor = monitor
        self.preempt = preempt
        self.crashes = crashes
        self.params = params or {}
        self.describe = describe or (lambda run: None)
        self.state_cap = state_cap


def _vid(v):
    return (str(v.get("inv")), str(v.get("kind")),
            tuple(v.get("who", ())))


def _state_violations(space, run):
    out = list(space.monitor(run))
    if run.deadlock():
        alive = [p.pid for p in run.parked()]
        out.append(dict(
            inv="deadlock", kind="nobody enabled", who=alive,
            expected="some process can continue",
            observed=f"processes {alive} parked on "
                     f"{[p.pending for p in run.parked()]}, none enabled"))
    return out


def _observe(space, run):
    ps = run.parked()
    en = run.enabled_procs()
    key, renaming = run.key_and_renaming()
    return dict(
        key=key, renaming=renaming,
        enabled=run.choices(),
        alive=[p.pid for p in ps],
        crashable=[c[0] for c in run.choices(crash=True) if c[1] == CRASH],
        local=any(p.options is not None for p in ps),
        enabled_pids=[p.pid for p in en],
        ncrashed=sum(1 for p in run.procs if p.status == "crashed"),
        terminal=run.terminal(),
        deadlock=run.deadlock(),
        outside=run.outside(),
        outcomes=run.outcomes() if run.terminal() else None,
        describe=space.describe(run))


def run_to(space, prefix, last=None, parent_key=None):
    """replay prefix (+ one more choice): -> (violations before the last
    choice, violations after, observation of the reached state)"""
    run = space.factory()
    run.start()
    try:
        run.play(prefix)
        if parent_key is not None and run.key() != parent_key:
            raise core.Internal(
                f"replay divergence in {space.name}: state after "
                f"{len(prefix)} choices differs from the recorded one")
        before = []
        if last is not None:
            before = _state_violations(space, run)
            run.step(tuple(last))
        after = _state_violations(space, run)
        obs = _observe(space, run)
    finally:
        run.finish()
    return before, after, obs


def execute(space, schedule):
    """replay a complete schedule; -> dict(trace, violations (first state at
    which each appears), outcomes, key, digest)"""
    run = space.factory()
    run.start()
    seen, viols = set(), []
    try:
        def look(i):
            for v in _state_violations(space, run):
                if _vid(v) not in seen:
                    seen.add(_vid(v))
                    viols.append(dict(v, at_choice=i))
        look(0)
        for i, c in enumerate(schedule):
            run.step(tuple(c))
            look(i + 1)
        out = dict(trace=[list(e) for e in run.log], violations=viols,
                   outcomes=[list(o) if o else None for o in run.outcomes()],
                   key=run.key(), terminal=run.terminal(),
                   pending=[[p.pid, p.status, p.pending] for p in run.procs])
    finally:
        run.finish()
    out["digest"] = core.digest([out["trace"], out["key"],
                                 [(_vid(v), v["at_choice"]) for v in viols]])
    return out


def _allowed(space, obs, cur, used):
    """choices of a state that stay within the budgets -> [(choice, cost)]"""
    out = []
    for c in obs["enabled"]:
        cost = 0
        if space.preempt is not None and cur is not None and c[0] != cur \
                and cur in obs["enabled_pids"]:
            cost = 1
        if space.preempt is None or used + cost <= space.preempt:
            out.append((tuple(c), cost))
    if obs["ncrashed"] < space.crashes and not obs["local"]:
        out.extend(((pid, CRASH), 0) for pid in obs["crashable"])
    return out


def explore(ctx, space, res, inline_below=96):
    """level-synchronous BFS with replay; fills res (violations, outcomes,
    nontrivial).  -> stats dict (states, transitions, executions, ...)"""
    stats = dict(states=0, transitions=0, executions=0, levels=0,
                 terminal_states=0, max_frontier=0, deadlocks=0,
                 complete=True)
    with frozen_heap():
        return _explore(ctx, space, res, inline_below, stats)


def _explore(ctx, space, res, inline_below, stats):
    _, v0, obs0 = run_to(space, ())
    for v in v0:
        _report(space, res, v, ())
    states = {obs0["key"]}
    frontier = [((), obs0["key"], None, 0, _allowed(space, obs0, None, 0))]
    bounded = space.preempt is not None

    def expand(item, r):
        prefix, pkey, cur, used, allowed = item
        for c, cost in allowed:
            before, after, obs = run_to(space, prefix, c, pkey)
            r.count("transitions")
            old = {_vid(v) for v in before}
            for v in after:
                if _vid(v) not in old:
                    _report(space, r, v, prefix + (c,))
            if c[1] == CRASH:
                ncur = None if c[0] == cur else cur
            else:
                ncur = c[0]
            if ncur not in obs["enabled_pids"]:
                ncur = None
            r.cov.setdefault("succ", []).append(
                (obs["key"], ncur, used + cost, prefix + (c,), obs))

    global _EXPAND
    _EXPAND = expand
    pool = None
    try:
        while frontier:
            frontier, go_on = _level(ctx, space, res, stats, states,
                                     frontier, expand, bounded,
                                     inline_below, lambda: pool)
            if not go_on:
                break
            if pool is None and len(frontier) >= inline_below \
                    and ctx.workers > 1:
                # forked once, after `expand` exists; lives for all levels
                shutdown_hosts()
                pool = mp.get_context("fork").Pool(ctx.workers)
    finally:
        _EXPAND = None
        if pool is not None:
            pool.terminate()
            pool.join()
    stats["states"] = len(states)
    stats["executions"] = stats["transitions"] + 1
    return stats


_EXPAND = None


def _pool_call(chunk):
    r = core.Result()
    for item in chunk:
        _EXPAND(item, r)
    return r


def _level(ctx, space, res, stats, states, frontier, expand, bounded,
           inline_below, get_pool):
    """expand one BFS level -> (next frontier, continue?)"""
    stats["levels"] += 1
    stats["max_frontier"] = max(stats["max_frontier"], len(frontier))
    pool = get_pool()
    r = core.Result()
    if pool is None or len(frontier) < inline_below:
        for item in frontier:
            expand(item, r)
    else:
        n = max(1, min(64, len(frontier) // (ctx.workers * 3) or 1))
        chunks = [frontier[i:i + n] for i in range(0, len(frontier), n)]
        for part in pool.imap(_pool_call, chunks):
            r.merge(part)
    succ = r.cov.pop("succ", [])
    stats["transitions"] += r.cov.pop("transitions", 0)
    res.merge(r)
    if _os.environ.get("SIMOS_DEBUG"):
        import sys
        print(f"[simos] {space.name} level {stats['levels']}: frontier "
              f"{len(frontier)}, successors {len(succ)}, states "
              f"{len(states)}", file=sys.stderr, flush=True)
    nxt = {}
    for key, cur, used, prefix, obs in succ:
        dk = (key, None if cur is None else obs["renaming"][cur]) \
            if bounded else key
        old = nxt.get(dk)
        if old is None or (used, prefix) < (old[2], old[3]):
            nxt[dk] = (key, cur, used, prefix, obs)
    frontier = []
    for dk in sorted(nxt, key=lambda k: nxt[k][3]):
        key, cur, used, prefix, obs = nxt[dk]
        if key not in states:
            states.add(key)
            if obs["describe"] and obs["describe"].get("nontrivial"):
                res.nontrivial.add(key)
            if obs["terminal"]:
                stats["terminal_states"] += 1
                res.outcomes.add(repr(obs["outcomes"]))
            if obs["deadlock"]:
                stats["deadlocks"] += 1
            if obs.get("outside"):
                # somebody stands at a call simos does not model
                stats["outside_model_states"] = \
                    stats.get("outside_model_states", 0) + 1
                stats["unmodelled_calls"] = sorted(
                    set(stats.get("unmodelled_calls", []))
                    | {w for _, w in obs["outside"]})
        if obs["terminal"] or obs["deadlock"]:
            continue
        allowed = _allowed(space, obs, cur, used)
        if allowed:
            frontier.append((prefix, key, cur, used, allowed))
    if space.state_cap and len(states) > space.state_cap:
        stats["complete"] = False
        res.caps_hit.append(f"{space.name}: state cap {space.state_cap} "
                            f"reached at level {stats['levels']}")
        res.exhaustive = False
        return frontier, False
    return frontier, True


def _report(space, res, v, schedule):
    case = dict(space=space.name, params=space.params,
                schedule=[list(c) for c in schedule])
    res.violation(
        case, v.get("expected", "invariant " + str(v.get("inv"))),
        v.get("observed", v.get("kind")), kf=v.get("kf"),
        sig=core.digest([str(v.get("inv")), str(v.get("kind")),
                         v.get("kf")]),
        note=f"invariant {v.get('inv')}: {v.get('kind')}"
             + (f" ({v['note']})" if v.get("note") else ""))


def confirm(space, res, limit=16):
    """replay the first violation of every signature twice; identical
    observations required and the violation must re-occur"""
    done = {}
    for v in res.violations:
        if v["case"].get("space") != space.name or v["sig"] in done:
            continue
        if len(done) >= limit:
            break
        a = execute(space, v["case"]["schedule"])
        b = execute(space, v["case"]["schedule"])
        if a["digest"] != b["digest"]:
            raise core.Internal(
                f"replay of {v['case']} is not deterministic")
        sigs = {core.digest([str(x.get("inv")), str(x.get("kind")),
                             x.get("kf")]) for x in a["violations"]}
        if v["sig"] not in sigs:
            raise core.Internal(
                f"violation {v['note']} did not re-occur when replaying "
                f"{v['case']}")
        done[v["sig"]] = True
    return len(done)


# =========================================================================
# conformance of the World + facades against the real OS
# =========================================================================
def _conf_scripts(root):
    """each script: list of (pid, target var or None, op, args).  Paths are
    below root; '$x' refers to a stored result."""
    import fcntl
    R = root
    RW = _os.O_RDWR | _os.O_CLOEXEC
    CX = _os.O_CREAT | _os.O_EXCL | RW
    EX, NB, UN, SH = fcntl.LOCK_EX, fcntl.LOCK_NB, fcntl.LOCK_UN, \
        fcntl.LOCK_SH
    s = {}
    s["dirs"] = [
        (0, None, "makedirs", (R + "/a/b/c",), dict(exist_ok=True)),
        (0, None, "makedirs", (R + "/a/b/c",), dict(exist_ok=True)),
        (0, None, "makedirs", (R + "/a/b/c",), {}),
        (0, None, "makedirs", (R + "/a/b",), dict(exist_ok=True)),
        (0, "t", "mkdtemp", (), dict(dir=R + "/a")),
        (0, None, "mkdtemp", (), dict(dir=R + "/missing")),
        (0, None, "openx", ("$t/f.lock", "x", "  1000\n"), {}),
        (0, None, "openx", ("$t/f.lock", "x", "again"), {}),
        (0, None, "openx", (R + "/nodir/f", "x", "q"), {}),
        (0, None, "makedirs", ("$t/f.lock",), dict(exist_ok=True)),
        (0, None, "makedirs", ("$t/f.lock/x",), dict(exist_ok=True)),
        (0, None, "listdir", ("$t",), {}),
        (0, None, "rmdir", ("$t",), {}),
        (0, None, "rmdir", (R + "/a/b/c",), {}),
        (0, None, "rmdir", (R + "/a/b/c",), {}),
        (0, None, "rmdir", ("$t/f.lock",), {}),
        (0, None, "remove", ("$t",), {}),
        (0, None, "remove", ("$t/f.lock",), {}),
        (0, None, "remove", ("$t/f.lock",), {}),
        (0, None, "rmdir", ("$t",), {}),
        (0, None, "listdir", (R + "/a",), {}),
    ]
    s["rename"] = [
        (0, None, "makedirs", (R + "/lock",), {}),
        (0, "t1", "mkdtemp", (), dict(dir=R + "/lock")),
        (0, "t2", "mkdtemp", (), dict(dir=R + "/lock")),
        (0, "t3", "mkdtemp", (), dict(dir=R + "/lock")),
        (0, None, "openx", ("$t1/1.lock", "x", "a"), {}),
        (0, None, "openx", ("$t2/2.lock", "x", "b"), {}),
        (0, None, "openx", ("$t3/3.lock", "x", "c"), {}),
        # onto a missing directory
        (0, None, "rename", ("$t1", R + "/lock/L"), {}),
        # onto a non-empty directory
        (0, None, "rename", ("$t2", R + "/lock/L"), {}),
        (0, None, "listdir", (R + "/lock/L",), {}),
        (0, None, "rmtree", ("$t2",), {}),
        (0, None, "rmtree", ("$t2",), {}),
        (0, None, "remove", (R + "/lock/L/1.lock",), {}),
        # onto an existing empty directory: replaces it
        (0, None, "rename", ("$t3", R + "/lock/L"), {}),
        (0, None, "listdir", (R + "/lock/L",), {}),
        (0, None, "rmdir", (R + "/lock/L",), {}),
        (0, None, "rename", (R + "/lock/none", R + "/lock/L"), {}),
        (0, None, "rename", (R + "/lock/L", R + "/nodir/L"), {}),
        (0, None, "rename", (R + "/lock/L", R + "/lock/L/sub"), {}),
        (0, None, "rename", (R + "/lock/L/3.lock", R + "/lock/L"), {}),
        (0, None, "rename", (R + "/lock/L", R + "/lock/L/3.lock"), {}),
        (0, None, "openx", (R + "/lock/f", "x", "f"), {}),
        (0, None, "rename", (R + "/lock/f", R + "/lock/L/3.lock"), {}),
        (0, None, "rename", (R + "/lock/L/3.lock", R + "/lock/L/3.lock"),
         {}),
        (0, None, "rmtree", (R + "/lock/L/3.lock",), {}),
        (0, None, "openx", (R + "/lock/L/3.lock", "r", None), {}),
        (0, None, "openx", (R + "/lock/L/3.lock", "w", "over"), {}),
        (0, None, "openx", (R + "/lock/L/3.lock", "r", None), {}),
        (0, None, "rmtree", (R + "/lock",), {}),
        (0, None, "listdir", (R,), {}),
    ]
    s["files"] = [
        (0, None, "makedirs", (R + "/run/ebpf",), dict(exist_ok=True)),
        (0, None, "os_open", (R + "/run/ebpf/f", RW), {}),
        (0, "fd", "os_open", (R + "/run/ebpf/f", CX), {}),
        (0, None, "os_open", (R + "/run/ebpf/f", CX), {}),
        (0, None, "os_open", (R + "/run/ebpf", CX), {}),
        (0, None, "os_open", (R + "/run/ebpf", RW), {}),
        (0, None, "os_open", (R + "/run/nodir/f", CX), {}),
        (1, "g", "os_open", (R + "/run/ebpf/f", RW), {}),
        (1, None, "pread", ("$g", 64, 0), {}),
        (1, None, "pread", ("$g", 1, 17), {}),
        (1, None, "fstat", ("$g",), {}),
        (0, None, "write", ("$fd", b"\2" + bytes(7)), {}),
        (1, None, "fstat", ("$g",), {}),
        (1, None, "pread", ("$g", 64, 0), {}),
        (1, None, "pread", ("$g", 4, 6), {}),
        (1, None, "pread", ("$g", 4, 8), {}),
        (1, None, "pwrite", ("$g", b"\x10", 12), {}),
        (0, None, "pread", ("$fd", 64, 0), {}),
        (0, None, "write", ("$fd", b"zz"), {}),
        (0, None, "pread", ("$fd", 64, 0), {}),
        (1, None, "ftruncate", ("$g", 4), {}),
        (0, None, "pread", ("$fd", 64, 0), {}),
        (0, None, "write", ("$fd", b"y"), {}),
        (0, None, "pread", ("$fd", 64, 0), {}),
        (1, None, "ftruncate", ("$g", 16), {}),
        (0, None, "pread", ("$fd", 64, 0), {}),
        (1, None, "pwrite", ("$g", b"", 40), {}),
        (0, None, "pread", ("$fd", 64, 0), {}),
        (0, None, "remove", (R + "/run/ebpf/f",), {}),
        (1, None, "pwrite", ("$g", b"AB", 1), {}),
        (0, None, "pread", ("$fd", 4, 0), {}),
        (0, "h", "os_open", (R + "/run/ebpf/f", CX), {}),
        (0, None, "pread", ("$h", 4, 0), {}),
        (0, None, "close", ("$fd",), {}),
        (0, None, "close", ("$fd",), {}),
        (0, None, "pread", ("$fd", 4, 0), {}),
        (0, "ro", "os_open", (R + "/run/ebpf/f", _os.O_RDONLY), {}),
        (0, None, "write", ("$ro", b"x"), {}),
        (0, None, "pwrite", ("$ro", b"x", 0), {}),
        (0, None, "ftruncate", ("$ro", 0), {}),
        (0, None, "lockf", ("$ro", EX | NB), {}),
        (0, None, "lockf", ("$ro", SH | NB), {}),
        (0, None, "rmtree", (R + "/run/ebpf/f",), {}),
        (0, None, "rmtree", (R + "/run",), {}),
    ]
    s["lockf"] = [
        (0, None, "makedirs", (R + "/l",), {}),
        (0, "a", "os_open", (R + "/l/f", CX), {}),
        (0, None, "write", ("$a", bytes(16)), {}),
        (1, "b", "os_open", (R + "/l/f", RW), {}),
        (0, None, "lockf", ("$a", EX | NB, 1, 3), {}),
        (1, None, "lockf", ("$b", EX | NB, 1, 3), {}),
        (1, None, "lockf", ("$b", EX | NB, 1, 4), {}),
        (1, None, "lockf", ("$b", EX | NB, 2, 2), {}),
        (1, None, "lockf", ("$b", EX | NB, 2, 1), {}),
        (1, None, "lockf", ("$b", EX | NB), {}),
        (0, None, "lockf", ("$a", EX | NB, 1, 4), {}),
        (0, None, "lockf", ("$a", EX | NB, 1, 3), {}),
        (0, None, "lockf", ("$a", UN, 1, 3), {}),
        (1, None, "lockf", ("$b", EX | NB, 1, 3), {}),
        (1, None, "lockf", ("$b", UN), {}),
        (0, None, "lockf", ("$a", EX | NB), {}),
        (1, None, "lockf", ("$b", EX | NB, 1, 100), {}),
        (1, None, "lockf", ("$b", SH | NB, 1, 100), {}),
        (0, None, "lockf", ("$a", UN, 4, 8), {}),
        (1, None, "lockf", ("$b", EX | NB, 1, 7), {}),
        (1, None, "lockf", ("$b", EX | NB, 4, 8), {}),
        (1, None, "lockf", ("$b", EX | NB, 5, 8), {}),
        (1, None, "lockf", ("$b", UN, 2, 9), {}),
        (0, None, "lockf", ("$a", EX | NB, 2, 8), {}),
        (0, None, "lockf", ("$a", EX | NB, 2, 10), {}),
        (0, None, "lockf", ("$a", SH | NB, 2, 12), {}),
        (1, None, "lockf", ("$b", SH | NB, 2, 12), {}),
        (1, None, "lockf", ("$b", EX | NB, 2, 12), {}),
        (0, None, "lockf", ("$a", UN), {}),
        (1, None, "lockf", ("$b", UN), {}),
        # closing another descriptor of the file drops the process's locks
        (0, None, "lockf", ("$a", EX | NB, 1, 0), {}),
        (0, "a2", "os_open", (R + "/l/f", RW), {}),
        (1, None, "lockf", ("$b", EX | NB, 1, 0), {}),
        (0, None, "close", ("$a2",), {}),
        (1, None, "lockf", ("$b", EX | NB, 1, 0), {}),
        # ... all of them, through whichever descriptor they were taken, also
        # when the closed descriptor never locked anything (a second
        # LockFile object of the process that is dropped)
        (1, None, "lockf", ("$b", UN), {}),
        (0, None, "lockf", ("$a", EX | NB, 1, 3), {}),
        (0, "a3", "os_open", (R + "/l/f", RW), {}),
        (0, None, "lockf", ("$a3", EX | NB, 1, 5), {}),
        (0, "a4", "os_open", (R + "/l/f", RW), {}),
        (1, None, "lockf", ("$b", EX | NB, 1, 3), {}),
        (1, None, "lockf", ("$b", EX | NB, 1, 5), {}),
        (1, None, "lockf", ("$b", EX | NB, 1, 4), {}),
        (1, None, "lockf", ("$b", UN, 1, 4), {}),
        (0, None, "close", ("$a4",), {}),
        (1, None, "lockf", ("$b", EX | NB, 1, 3), {}),
        (1, None, "lockf", ("$b", EX | NB, 1, 5), {}),
        (0, None, "lockf", ("$a", EX | NB, 1, 3), {}),
        (0, None, "lockf", ("$a3", UN, 1, 5), {}),
        (1, None, "lockf", ("$b", UN), {}),
        # unlocking through one descriptor what another one locked
        (0, None, "lockf", ("$a", EX | NB, 1, 3), {}),
        (0, None, "lockf", ("$a3", UN, 1, 3), {}),
        (1, None, "lockf", ("$b", EX | NB, 1, 3), {}),
        (1, None, "lockf", ("$b", UN), {}),
        (0, None, "lockf", ("$a3", EX | NB, 1, 5), {}),
        (0, None, "close", ("$a3",), {}),
        (0, None, "lockf", ("$a3", EX | NB, 1, 5), {}),
        (1, None, "lockf", ("$b", EX | NB, 1, 5), {}),
        (1, None, "lockf", ("$b", UN), {}),
        (1, None, "lockf", ("$b", EX | NB, 1, 0), {}),
        # a dying process releases its locks
        (0, None, "lockf", ("$a", EX | NB, 1, 0), {}),
        (1, None, "exit", (), {}),
        (0, None, "lockf", ("$a", EX | NB, 1, 0), {}),
        (0, None, "lockf", ("$a", EX, 1, 0), {}),
        (0, None, "close", ("$a",), {}),
        (0, None, "rmtree", (R + "/l",), {}),
    ]
    # life cycle of a shared lock file: the last participant unlinks it and
    # keeps its descriptor, participants come back.  An open descriptor keeps
    # the unlinked inode (content, record locks) alive, a new file of the
    # same name is another inode, record locks are per inode
    CR = _os.O_CREAT | RW
    s["unlink"] = [
        (0, None, "makedirs", (R + "/u",), {}),
        (0, "a", "os_open", (R + "/u/f", CR), {}),
        (0, None, "ftruncate", ("$a", 8), {}),
        (1, "b", "os_open", (R + "/u/f", CR), {}),
        (0, None, "pwrite", ("$a", b"\3", 5), {}),
        (0, None, "lockf", ("$a", EX | NB, 1, 5), {}),
        (0, None, "remove", (R + "/u/f",), {}),
        (0, None, "remove", (R + "/u/f",), {}),
        (0, None, "listdir", (R + "/u",), {}),
        (0, None, "fstat", ("$a",), {}),
        (1, None, "pread", ("$b", 8, 0), {}),
        (1, None, "lockf", ("$b", EX | NB, 1, 5), {}),
        (1, None, "os_open", (R + "/u/f", RW), {}),
        (1, "c", "os_open", (R + "/u/f", CR), {}),
        (1, None, "fstat", ("$c",), {}),
        (1, None, "ftruncate", ("$c", 8), {}),
        (1, None, "pread", ("$c", 8, 0), {}),
        (1, None, "lockf", ("$c", EX | NB, 1, 5), {}),
        (1, None, "pwrite", ("$c", b"\1", 5), {}),
        (0, None, "pread", ("$a", 8, 0), {}),
        (1, None, "pwrite", ("$b", b"\7", 6), {}),
        (0, None, "pread", ("$a", 8, 0), {}),
        # the process that unlinked it joins again: the new inode
        (0, "d", "os_open", (R + "/u/f", CR), {}),
        (0, None, "pread", ("$d", 8, 0), {}),
        (0, None, "lockf", ("$d", EX | NB, 1, 5), {}),
        (0, None, "lockf", ("$d", EX | NB, 1, 4), {}),
        (0, None, "lockf", ("$a", EX | NB, 1, 5), {}),
        # closing the descriptor of the unlinked inode drops the locks on
        # that inode only
        (0, None, "close", ("$a",), {}),
        (1, None, "lockf", ("$c", EX | NB, 1, 4), {}),
        (1, None, "lockf", ("$b", EX | NB, 1, 5), {}),
        (1, None, "lockf", ("$c", UN), {}),
        (0, None, "lockf", ("$d", EX | NB, 1, 5), {}),
        # unlinked a second time while both use it, and created again
        (1, None, "remove", (R + "/u/f",), {}),
        (1, None, "lockf", ("$c", EX | NB, 1, 5), {}),
        (1, "e", "os_open", (R + "/u/f", CR), {}),
        (1, None, "lockf", ("$e", EX | NB, 1, 5), {}),
        (1, None, "pread", ("$e", 8, 0), {}),
        (0, None, "close", ("$d",), {}),
        (1, None, "lockf", ("$c", EX | NB, 1, 5), {}),
        (1, None, "pread", ("$c", 8, 0), {}),
        (1, None, "close", ("$b",), {}),
        (1, None, "close", ("$c",), {}),
        (1, None, "close", ("$e",), {}),
        (0, None, "listdir", (R + "/u",), {}),
        (0, None, "rmtree", (R + "/u",), {}),
    ]
    # a lock file written with builtin open(): it exists - empty - from the
    # open on, the content arrives with flush / close (two points); what
    # other processes see of it (read, stat, exists); probing its owner with
    # kill(pid, 0); unlink + re-create while the first owner still has it
    # open; hard links
    s["probe"] = [
        (0, None, "makedirs", (R + "/p",), {}),
        (0, None, "exists", (R + "/p/l.lock",), {}),
        (0, "f", "fopen", (R + "/p/l.lock", "x"), {}),
        (0, None, "fwrite", ("$f", "     12345\n"), {}),
        (1, None, "exists", (R + "/p/l.lock",), {}),
        (1, None, "isfile", (R + "/p/l.lock",), {}),
        (1, None, "isdir", (R + "/p/l.lock",), {}),
        (1, None, "isdir", (R + "/p",), {}),
        (1, None, "getsize", (R + "/p/l.lock",), {}),
        (1, None, "stat", (R + "/p/l.lock",), {}),
        (1, None, "stat", (R + "/p",), {}),
        (1, None, "stat", (R + "/p/none",), {}),
        (1, None, "getsize", (R + "/p/none",), {}),
        (1, None, "openx", (R + "/p/l.lock", "r", None), {}),
        (1, None, "fopen", (R + "/p/l.lock", "x"), {}),
        (1, None, "remove", (R + "/p/l.lock",), {}),
        (1, "g", "fopen", (R + "/p/l.lock", "x"), {}),
        (1, None, "fwrite", ("$g", "mine\n"), {}),
        (1, None, "fflush", ("$g",), {}),
        (0, None, "openx", (R + "/p/l.lock", "r", None), {}),
        (0, None, "fclose", ("$f",), {}),
        (0, None, "fclose", ("$f",), {}),
        (0, None, "openx", (R + "/p/l.lock", "r", None), {}),
        (1, None, "fwrite", ("$g", "more\n"), {}),
        (1, None, "fclose", ("$g",), {}),
        (0, None, "getsize", (R + "/p/l.lock",), {}),
        (0, "h", "fopen", (R + "/p/l.lock", "r"), {}),
        (0, None, "freadline", ("$h",), {}),
        (0, None, "fread", ("$h",), {}),
        (0, None, "fread", ("$h",), {}),
        (0, None, "fclose", ("$h",), {}),
        (0, "k", "fopen", (R + "/p/l.lock", "r+"), {}),
        (0, None, "fread", ("$k", 2), {}),
        (0, None, "fwrite", ("$k", "XY"), {}),
        (0, None, "fseek", ("$k", 0), {}),
        (0, None, "fread", ("$k",), {}),
        (0, None, "fclose", ("$k",), {}),
        (0, None, "fopen", (R + "/p/none", "r"), {}),
        (0, None, "fopen", (R + "/p", "w"), {}),
        (0, None, "openx", (R + "/p/a.lock", "a", "one"), {}),
        (0, None, "openx", (R + "/p/a.lock", "a", "two"), {}),
        (0, None, "openx", (R + "/p/a.lock", "r", None), {}),
        (0, None, "link", (R + "/p/a.lock", R + "/p/b.lock"), {}),
        (0, None, "link", (R + "/p/a.lock", R + "/p/b.lock"), {}),
        (0, None, "link", (R + "/p/none", R + "/p/c.lock"), {}),
        (0, None, "link", (R + "/p", R + "/p/d"), {}),
        (0, None, "openx", (R + "/p/b.lock", "a", "three"), {}),
        (0, None, "remove", (R + "/p/a.lock",), {}),
        (0, None, "openx", (R + "/p/b.lock", "r", None), {}),
        (0, None, "listdir", (R + "/p",), {}),
        # is the owner of a pid still there?
        (0, None, "kill", ("$pid1", 0), {}),
        (0, None, "kill", ("$pid0", 0), {}),
        (1, None, "kill", ("$pid0", 0), {}),
        (0, None, "kill", ("$nopid", 0), {}),
        (1, None, "exit", (), {}),
        (0, None, "kill", ("$pid1", 0), {}),
        (0, None, "rmtree", (R + "/p",), {}),
    ]
    return s


class _Backend:
    def __init__(self, mods):
        self.os, self.fcntl, self.shutil, self.tempfile, self.open = mods
        self.vars = {}

    def sub(self, x):
        if isinstance(x, str) and x.startswith("$"):
            name, _, rest = x[1:].partition("/")
            v = self.vars.get(name, "/nonexistent-var")
            return v + ("/" + rest if rest else "") if isinstance(v, str) \
                else v
        return x

    def do(self, op, args, kw):
        args = [self.sub(a) for a in args]
        o = self.os
        if op == "openx":
            path, mode, text = args
            with self.open(path, mode) as f:
                if text is None:
                    return f.read()
                f.write(text)
            return None
        if op == "os_open":
            return o.open(*args)
        if op == "mkdtemp":
            return self.tempfile.mkdtemp(**kw)
        if op == "rmtree":
            return self.shutil.rmtree(*args)
        if op == "lockf":
            return self.fcntl.lockf(*args)
        if op == "listdir":
            return sorted(o.listdir(*args))
        if op == "fstat":
            return o.fstat(*args).st_size
        if op == "stat":        # file type, and the size of a regular file
            st = o.stat(*args)
            reg = st.st_mode & 0o170000 == 0o100000
            return [st.st_mode & 0o170000, st.st_size if reg else None]
        if op in ("exists", "isfile", "isdir", "getsize"):
            return getattr(o.path, op)(*args)
        if op == "fopen":       # builtin open, kept open: -> the file object
            return self.open(*args)
        if op in ("fwrite", "fread", "freadline", "fflush", "fclose",
                  "fseek"):
            f, rest = args[0], args[1:]
            return getattr(f, {"fwrite": "write", "fread": "read",
                               "freadline": "readline", "fflush": "flush",
                               "fclose": "close", "fseek": "seek"}[op])(*rest)
        return getattr(o, op)(*args, **kw)

    def step(self, target, op, args, kw, names):
        try:
            r = self.do(op, args, kw)
        except OSError as e:
            return ["!", type(e).__name__, e.errno]
        if target:
            self.vars[target] = r
        if op in ("os_open",):
            return "fd"
        if op == "fopen":
            return "file"
        if op == "mkdtemp":
            names[_os.path.basename(r)] = "$" + target
            return "path"
        if op == "listdir":
            return [names.get(n, n) for n in r]
        return _summ(r)


def _real_child(rd, wr):
    """pid 1 of the real backend: executes pickled steps"""
    import fcntl
    import pickle
    import shutil
    import tempfile
    be = _Backend((_os, fcntl, shutil, tempfile, open))
    names = {}
    f_in, f_out = _os.fdopen(rd, "rb"), _os.fdopen(wr, "wb")
    while True:
        try:
            msg = pickle.load(f_in)
        except EOFError:
            break
        if msg[1] == "exit":
            pickle.dump("exited", f_out)
            f_out.flush()
            break
        pickle.dump(be.step(*msg, names), f_out)
        f_out.flush()
    _os._exit(0)


def selftest_pids(ctx):
    """pids and the symmetry reduction: three identical processes compete
    for a lock file that carries the owner's pid; the losers read it, probe
    the owner (kill(pid, 0)) and remember what they saw; the owner leaves
    (or not) before.  The complete space explored with and without the
    reduction must give the same outcomes (as multisets over the processes),
    the reduced one must be smaller, and an unmodelled call must freeze only
    its caller.  -> list of problems"""
    osf = OsFacade()

    def body(rt):
        try:
            f = sim_open("/d/l.lock", "x")
        except FileExistsError:
            try:
                with sim_open("/d/l.lock") as g:
                    txt = g.read()
            except FileNotFoundError:
                return "gone"
            try:
                osf.kill(int(txt), 0)
            except ValueError:
                return "empty"
            except ProcessLookupError:
                return "dead"
            if int(txt) == osf.getpid():
                return "myself?"
            if rt.params.get("unmodelled"):
                osf.getsid(int(txt))
            return "alive"
        f.write(f"{osf.getpid():10}\n")
        f.close()
        return "owner"

    def space(sym, **params):
        def factory():
            run = Run(World(["/d"]), [body] * 3, params=params,
                      symmetric=sym)
            run.tolerate_unmodelled = bool(params)
            return run
        return Space(f"pids-{sym}-{sorted(params)}", factory,
                     lambda run: [])
    bad, got = [], {}
    for sym in (True, False):
        r = core.Result()
        st = explore(ctx, space(sym), r, inline_below=1 << 30)
        got[sym] = (st["states"], sorted(
            {repr(sorted(eval(o), key=repr)) for o in r.outcomes}))
    if got[True][1] != got[False][1]:
        bad.append(f"outcomes differ: reduced {got[True][1]} complete "
                   f"{got[False][1]}")
    if not any("dead" in o for o in got[True][1]) or \
            not any("alive" in o for o in got[True][1]) or \
            not any("empty" in o for o in got[True][1]):
        bad.append(f"dead / alive / empty owner not all seen: {got[True][1]}")
    if any("myself" in o for o in got[False][1]):
        bad.append("a process read its own pid from another's file")
    if not got[True][0] * 3 < got[False][0]:
        bad.append(f"no reduction: {got[True][0]} states vs {got[False][0]}")
    r = core.Result()
    st = explore(ctx, space(True, unmodelled=1), r, inline_below=1 << 30)
    if not st.get("outside_model_states") or st.get("unmodelled_calls") != \
            ["os.getsid is not modelled by simos"]:
        bad.append(f"unmodelled call not counted: {st}")
    if r.violations or not any("owner" in o and "outside model" in o
                               for o in r.outcomes):
        bad.append("frozen process: others did not go on / deadlock reported")
    return bad


def _unused_pid():
    """a pid number that no process of this machine has right now"""
    for n in range(4194000, 4194300):
        try:
            _os.kill(n, 0)
        except ProcessLookupError:
            return n
        except OSError:
            continue
    raise SimBug("no unused pid found for the conformance test")


def conformance(scratch_parent="/tmp"):
    """-> list of differences between model and real OS (empty = OK)"""
    import fcntl
    import pickle
    import shutil
    import tempfile
    diffs = []
    root = tempfile.mkdtemp(prefix="simos-conf-", dir=scratch_parent)
    try:
        for sname, script in sorted(_conf_scripts(root).items()):
            sroot = root
            # ---------------- real
            c2p_r, c2p_w = _os.pipe()
            p2c_r, p2c_w = _os.pipe()
            child = _os.fork()
            if child == 0:
                _os.close(c2p_r)
                _os.close(p2c_w)
                try:
                    _real_child(p2c_r, c2p_w)
                finally:
                    _os._exit(0)
            _os.close(c2p_w)
            _os.close(p2c_r)
            to_c, from_c = _os.fdopen(p2c_w, "wb"), _os.fdopen(c2p_r, "rb")
            be = _Backend((_os, fcntl, shutil, tempfile, open))
            be.vars.update(pid0=_os.getpid(), pid1=child,
                           nopid=_unused_pid())
            names, real = {}, []
            try:
                for pid, target, op, args, kw in script:
                    if pid == 0:
                        if op == "exit":
                            raise SimBug("script: pid 0 cannot exit")
                        real.append(be.step(target, op, args, kw, names))
                    else:
                        # the child keeps its own variables; parent-side
                        # variables (paths) are substituted here
                        a2 = [be.sub(a) if isinstance(a, str)
                              and a.startswith("$")
                              and a[1:].partition("/")[0] in be.vars
                              else a for a in args]
                        pickle.dump((target, op, a2, kw), to_c)
                        to_c.flush()
                        r = pickle.load(from_c)
                        if op == "exit":
                            _os.waitpid(child, 0)
                            child = None
                        real.append(r)
            finally:
                to_c.close()
                from_c.close()
                if child is not None:
                    _os.waitpid(child, 0)
            real_tree = {}
            for dp, dns, fns in _os.walk(sroot):
                rel = dp[len(sroot):]
                rel = "/".join(names.get(x, x) for x in rel.split("/"))
                real_tree[rel or "/"] = "dir"
                for fn in fns:
                    with open(_os.path.join(dp, fn), "rb") as f:
                        real_tree[rel + "/" + names.get(fn, fn)] = f.read()
            for n in _os.listdir(sroot):
                p = _os.path.join(sroot, n)
                shutil.rmtree(p) if _os.path.isdir(p) else _os.remove(p)
            # ---------------- model
            w = World([sroot])
            mods = (OsFacade(), FcntlFacade(), ShutilFacade(),
                    TempfileFacade(), sim_open)
            bes = {0: _Backend(mods), 1: _Backend(mods)}
            bes[0].vars.update(pid0=w.ospid(0), pid1=w.ospid(1),
                               nopid=pid_number(PID_STRIDE - 1))
            w.nprocs = 2
            names, model = {}, []
            with DirectRuntime(w) as rt:
                for pid, target, op, args, kw in script:
                    rt.set_pid(pid)
                    if op == "exit":
                        w.exit_process(pid)
                        model.append("exited")
                        continue
                    a2 = [bes[0].sub(a) if pid == 1 and isinstance(a, str)
                          and a.startswith("$")
                          and a[1:].partition("/")[0] in bes[0].vars
                          else a for a in args]
                    model.append(bes[pid].step(target, op, a2, kw, names))
            model_tree = {}
            for p, v in w.dump(sroot).items():
                rel = p[len(sroot):]
                rel = "/".join(names.get(x, x) for x in rel.split("/"))
                model_tree[rel or "/"] = v
            for i, (a, b) in enumerate(zip(real, model)):
                if a != b:
                    diffs.append(f"{sname}[{i}] {script[i][2]}"
                                 f"{script[i][3]!r}: real {a!r} model {b!r}")
            if real_tree != model_tree:
                diffs.append(f"{sname}: final tree real {real_tree!r} "
                             f"model {model_tree!r}")
    finally:
        shutil.rmtree(root, ignore_errors=True)
    return diffs
