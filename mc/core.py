"""Shared plumbing: context, results, violations, parallel map, evidence.

Every harness module exposes
    PROP   = "Cnn"
    run(ctx)            -> Result
    replay(ctx, case)   -> prints a trace, returns list of violations (may be empty)
"""
import hashlib
import json
import multiprocessing as mp
import os
import sys
import time

VERIF = os.path.dirname(os.path.dirname(os.path.abspath(__file__)))


class Internal(Exception):
    """harness/model problem: exit 2, never a VIOLATION"""


class Ctx:
    def __init__(self, prop, tier, seed, workers=None):
        self.prop = prop
        self.tier = tier
        self.seed = seed
        self.quick = tier == "quick"
        self.workers = workers or int(os.environ.get("VERIF_WORKERS", "0")) \
            or min(16, os.cpu_count() or 1)
        self.t0 = time.time()

    def elapsed(self):
        return time.time() - self.t0


class Result:
    def __init__(self):
        self.violations = []   # list of dict(case, expected, observed, kf, sig)
        self.cov = {}          # free-form counters (ints are summed on merge)
        self.samples = []
        self.outcomes = set()  # distinct observed outcomes (vacuity guard)
        self.nontrivial = set()  # digests of distinct non-trivial cases
        self.assumptions = []
        self.caps_hit = []
        self.exhaustive = True

    def count(self, key, n=1):
        self.cov[key] = self.cov.get(key, 0) + n

    def violation(self, case, expected, observed, kf=None, sig=None, note=""):
        if sig is None:
            sig = digest([case, expected, observed])
        self.violations.append(dict(case=case, expected=expected,
                                    observed=observed, kf=kf, sig=sig,
                                    note=note))

    def sample(self, s, limit=6):
        if len(self.samples) < limit:
            self.samples.append(s)

    def merge(self, other):
        self.violations.extend(other.violations)
        for k, v in other.cov.items():
            if isinstance(v, (int, float)) and not isinstance(v, bool):
                self.cov[k] = self.cov.get(k, 0) + v
            elif isinstance(v, (set, frozenset)):
                self.cov[k] = set(self.cov.get(k, set())) | set(v)
            elif isinstance(v, list):
                self.cov[k] = self.cov.get(k, []) + v
            else:
                self.cov[k] = v
        for s in other.samples:
            self.sample(s)
        self.outcomes |= other.outcomes
        self.nontrivial |= other.nontrivial
        for a in other.assumptions:
            if a not in self.assumptions:
                self.assumptions.append(a)
        self.caps_hit.extend(other.caps_hit)
        self.exhaustive = self.exhaustive and other.exhaustive


def digest(obj, n=12):
    return hashlib.sha1(json.dumps(obj, sort_keys=True, default=repr)
                        .encode()).hexdigest()[:n]


def jsonable(o):
    if isinstance(o, (bytes, bytearray, memoryview)):
        return bytes(o).hex()
    if isinstance(o, (set, frozenset)):
        return sorted((jsonable(x) for x in o), key=repr)
    if isinstance(o, tuple):
        return [jsonable(x) for x in o]
    if isinstance(o, list):
        return [jsonable(x) for x in o]
    if isinstance(o, dict):
        return {str(k): jsonable(v) for k, v in o.items()}
    if isinstance(o, (int, float, str, bool)) or o is None:
        return o
    return repr(o)


# ---------------------------------------------------------------- parallel map
_FN = None


FLOOD = 20000    # unattributed violations after which a run stops early


_STOP = None     # shared flag: set by the parent when the run is flooded


def _call(chunk):
    res = Result()
    for item in chunk:
        if _STOP is not None and _STOP.value:
            break
        _FN(item, res)
        if sum(1 for v in res.violations if v["kf"] is None) > FLOOD:
            res.caps_hit.append("chunk stopped early: violation flood")
            res.exhaustive = False
            break
    return res


def _call_indexed(arg):
    i, chunk = arg
    return i, _call(chunk)


def pmap(ctx, fn, items, chunk=None):
    """run fn(item, result) for every item, on ctx.workers forked workers.

    Partitioning is deterministic (consecutive chunks, merge in chunk
    order).  A run that has collected more than FLOOD violations without a
    known-finding id stops early (the check fails anyway; a tree that is
    broken that badly can also be arbitrarily slow): the cap is reported."""
    global _FN, _STOP
    items = list(items)
    total = Result()
    if not items:
        return total
    workers = max(1, min(ctx.workers, len(items)))
    if chunk is None:
        chunk = max(1, min(200, len(items) // (workers * 4) or 1))
    chunks = [items[i:i + chunk] for i in range(0, len(items), chunk)]
    _FN = fn
    done = {}
    bad = 0

    def flooded(r):
        nonlocal bad
        bad += sum(1 for v in r.violations if v["kf"] is None)
        return bad > FLOOD
    if workers == 1:
        for i, c in enumerate(chunks):
            done[i] = _call(c)
            if flooded(done[i]):
                break
    else:
        mpctx = mp.get_context("fork")
        _STOP = mpctx.Value("i", 0)
        stopped = False
        with mpctx.Pool(workers) as pool:
            # after a flood the workers skip their remaining items; the
            # results are still drained (terminating a pool whose result
            # pipe is full can hang)
            for i, r in pool.imap_unordered(_call_indexed,
                                            list(enumerate(chunks))):
                if stopped:
                    continue
                done[i] = r
                if flooded(r):
                    stopped = True
                    _STOP.value = 1
        _STOP = None
    for i in sorted(done):
        total.merge(done[i])
    if len(done) < len(chunks):
        total.caps_hit.append(
            f"stopped early after more than {FLOOD} unattributed violations: "
            f"{len(done)} of {len(chunks)} chunks were explored")
        total.exhaustive = False
    return total


# ---------------------------------------------------------------- known findings
def load_known():
    paths = [os.path.join(VERIF, "known_findings.jsonl")]
    extra = os.environ.get("VERIF_EXTRA_KF")   # development aid only
    if extra:
        paths.append(extra)
    out = []
    for path in paths:
        if os.path.exists(path):
            with open(path) as f:
                for line in f:
                    line = line.strip()
                    if line and not line.startswith("#"):
                        out.append(json.loads(line))
    return out
