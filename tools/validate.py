#!/usr/bin/env python3-vt
"""validate MANIFEST.json and every evidence file against the schemas"""
import json, sys, glob, os, jsonschema
HERE = os.path.dirname(os.path.dirname(os.path.abspath(__file__)))
ok = True
m = json.load(open(os.path.join(HERE, "MANIFEST.json")))
jsonschema.validate(m, json.load(open("/root/.vp/MANIFEST.schema.json")))
es = json.load(open("/root/.vp/EVIDENCE.schema.json"))
for c in m["checks"]:
    p = c["evidence_file"]
    if not os.path.exists(p):
        print("MISSING", p); ok = False; continue
    try:
        ev = json.load(open(p))
        jsonschema.validate(ev, es)
        if ev["level"] != c["level_claimed"]["category"]:
            print("LEVEL MISMATCH", p); ok = False
    except Exception as e:
        print("INVALID", p, str(e)[:300]); ok = False
print("ok" if ok else "PROBLEMS")
sys.exit(0 if ok else 1)
