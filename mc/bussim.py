"""EtherCAT bus / terminal (ESC) model, written from ETG.1000.4 register and
command definitions; independent of ebpfcat (only mc.ecparse is used).

Terminal  - register file 0x0000..0x3fff with behaviours:
              0x0010 configured station address
              0x0120 AL control / 0x0130 AL status / 0x0134 AL status code
              0x0502 SII control/status, 0x0504 SII address, 0x0508 SII data
              0x0600+16*i FMMU entities, 0x0800+8*i sync managers
              mailbox (SM0 write mailbox, SM1 read mailbox) with a pluggable
              message handler (CoE server: mc/coe.py)
            nondeterministic timing (AL transition latency, SII busy, mailbox
            latency) is delegated to callbacks so that an explorer decides.
Bus       - ring of terminals; process(frame) runs every datagram through
            the terminals in order with the working-counter rules
            (read +1, write +1, read-write: +1 read, +2 write).
Master    - glue: virtual loop + a real ebpfcat EtherCat object whose
            transport feeds the bus; frames are delivered FIFO by default.
"""
import struct

from . import ecparse

INIT, PREOP, BOOT, SAFEOP, OP = 1, 2, 3, 4, 8


class Terminal:
    MEMSIZE = 0x4000

    def __init__(self, name="t", station=0, n_fmmu=4, sii=None,
                 sii_eight=False):
        self.name = name
        self.mem = bytearray(self.MEMSIZE)
        self.set16(0x10, station)
        self.mem[4] = n_fmmu
        self.n_fmmu = n_fmmu
        # AL state machine
        self.al_state = INIT
        self.al_error = False
        self.al_code = 0
        self.al_requested = None
        self.al_log = []            # ('ctl', value) / ('status', value)
        self.al_poll = None         # callback(term) -> 'stay'|'reach'|'error'
        # SII
        self.sii = bytearray(sii or b"")
        self.sii_eight = sii_eight
        self.sii_busy_polls = None  # callback(term, phase) -> polls
        self._sii_busy = 0
        self._sii_data = bytes(8)
        self.sii_log = []
        # mailbox
        self.mbx_handler = None     # callable(term, message) -> [messages]
        self.mbx_out_queue = []     # responses waiting for the read mailbox
        self.mbx_latency = None     # callback(term) -> polls before ready
        self._mbx_wait = None
        self.mbx_log = []           # ('in', bytes) / ('out', bytes)
        self.write_log = []         # (ado, bytes) of every register write
        self.addr_log = []          # station address writes

    # ------------------------------------------------------------ helpers
    def get16(self, a):
        return struct.unpack_from("<H", self.mem, a)[0]

    def set16(self, a, v):
        struct.pack_into("<H", self.mem, a, v & 0xffff)

    @property
    def station(self):
        return self.get16(0x10)

    def sm(self, i):
        """(start, length, control, status, activate)"""
        start, length, ctl, status, act = struct.unpack_from(
            "<HHBBB", self.mem, 0x800 + 8 * i)
        return start, length, ctl, status, act

    # ------------------------------------------------------------ AL
    def _al_status(self):
        if self.al_requested is not None:
            action = self.al_poll(self) if self.al_poll else "reach"
            if action == "reach":
                self.al_state = self.al_requested
                self.al_requested = None
            elif action == "error":
                self.al_error = True
                self.al_code = 0x0011
                self.al_requested = None
        v = self.al_state | (0x10 if self.al_error else 0)
        self.al_log.append(("status", v))
        return v

    def _al_control(self, v):
        self.al_log.append(("ctl", v))
        if v & 0x10:
            self.al_error = False
            self.al_code = 0
        req = v & 0x0f
        if req in (INIT, PREOP, BOOT, SAFEOP, OP):
            if self.al_error:
                return      # state changes are refused until acknowledged
            self.al_requested = req

    # ------------------------------------------------------------ SII
    def _sii_command(self, ctl, addr):
        self.sii_log.append(("cmd", ctl, addr))
        if ctl & 0x100:     # read
            n = 8 if self.sii_eight else 4
            data = bytes(self.sii[addr * 2:addr * 2 + n])
            data += b"\xff" * (n - len(data))
            self._sii_data = data + bytes(8 - n)
            self._sii_busy = self.sii_busy_polls(self, "read") \
                if self.sii_busy_polls else 0

    def _sii_status(self):
        v = 0x0040 if self.sii_eight else 0
        if self._sii_busy > 0:
            self._sii_busy -= 1
            v |= 0x8000
        return v

    # ------------------------------------------------------------ memory
    def read(self, ado, n):
        if ado + n > self.MEMSIZE:
            return None
        out = bytearray(self.mem[ado:ado + n])

        def overlay(a, data):
            lo, hi = max(a, ado), min(a + len(data), ado + n)
            if lo < hi:
                out[lo - ado:hi - ado] = data[lo - a:hi - a]
        if ado < 0x136 and ado + n > 0x130:
            overlay(0x130, struct.pack("<HHH", self._al_status(), 0,
                                       self.al_code))
        if ado < 0x510 and ado + n > 0x502:
            busy_before = self._sii_busy > 0
            overlay(0x502, struct.pack("<H", self._sii_status()))
            if not busy_before:
                overlay(0x508, self._sii_data)
            else:
                overlay(0x508, b"\xee" * 8)
        # read mailbox (SM1)
        start, length, ctl, status, act = self.sm(1)
        if ado <= 0x80d < ado + n:
            self._mbx_poll()
            overlay(0x80d, bytes([self.mem[0x80d]]))
        if length and ado < start + length and ado + n > start:
            if ado + n >= start + length and self.mem[0x80d] & 8:
                self.mem[0x80d] &= ~8       # read the last byte: emptied
        return bytes(out)

    def write(self, ado, data):
        n = len(data)
        if ado + n > self.MEMSIZE:
            return False
        self.write_log.append((ado, bytes(data)))
        self.mem[ado:ado + n] = data
        if ado <= 0x10 < ado + n or ado <= 0x11 < ado + n:
            self.addr_log.append(self.station)
        if ado <= 0x120 < ado + n:
            self._al_control(self.get16(0x120))
        if ado <= 0x502 < ado + n:
            ctl = self.get16(0x502)
            addr = struct.unpack_from("<I", self.mem, 0x504)[0]
            self._sii_command(ctl, addr)
        start, length, ctl, status, act = self.sm(0)
        if length and ado < start + length and ado + n >= start + length \
                and ado + n > start:
            msg = bytes(self.mem[start:start + length])
            self.mbx_log.append(("in", msg))
            if self.mbx_handler is not None:
                for r in self.mbx_handler(self, msg):
                    self.mbx_out_queue.append(r)
        return True

    def _mbx_poll(self):
        """called when the master looks at SM1's status"""
        if self.mem[0x80d] & 8 or not self.mbx_out_queue:
            return
        if self._mbx_wait is None:
            self._mbx_wait = self.mbx_latency(self) if self.mbx_latency else 0
        if self._mbx_wait > 0:
            self._mbx_wait -= 1
            return
        self._mbx_wait = None
        msg = self.mbx_out_queue.pop(0)
        start, length, ctl, status, act = self.sm(1)
        buf = bytes(msg[:length]).ljust(length, b"\0")
        self.mem[start:start + length] = buf
        self.mem[0x80d] |= 8
        self.mbx_log.append(("out", bytes(msg)))

    # ------------------------------------------------------------ FMMU
    def fmmus(self):
        for i in range(self.n_fmmu):
            b = 0x600 + 16 * i
            lstart, length, lsb, leb, pstart, psb, typ, act = \
                struct.unpack_from("<IHBBHBBB", self.mem, b)
            if act & 1 and length:
                yield i, lstart, length, pstart, typ

    def logical(self, laddr, data, do_read, do_write):
        """-> (new data, read_hit, write_hit)"""
        out = bytearray(data)
        rhit = whit = False
        for i, lstart, length, pstart, typ in self.fmmus():
            lo, hi = max(lstart, laddr), min(lstart + length,
                                             laddr + len(data))
            if lo >= hi:
                continue
            p = pstart + (lo - lstart)
            if do_read and typ & 1:
                out[lo - laddr:hi - laddr] = self.mem[p:p + hi - lo]
                rhit = True
            if do_write and typ & 2:
                self.mem[p:p + hi - lo] = data[lo - laddr:hi - laddr]
                whit = True
        return bytes(out), rhit, whit


class Bus:
    def __init__(self, terminals):
        self.terminals = list(terminals)
        self.log = []       # (cmd, adp, ado, len, wkc) per processed datagram

    def process(self, frame):
        """run one frame around the ring; returns the returning frame"""
        try:
            _, dgs = ecparse.parse(frame, strict=False)
        except ecparse.ParseError:
            return bytes(frame)
        out = bytearray(frame)
        for d in dgs:
            data, wkc, adp = bytearray(d.data), d.wkc, d.adp
            cmd, ado = d.cmd, d.ado
            for t in self.terminals:
                addressed = False
                if cmd in (1, 2, 3, 13):
                    addressed = adp == 0
                    adp = (adp + 1) & 0xffff
                elif cmd in (4, 5, 6, 14):
                    addressed = adp == t.station
                elif cmd in (7, 8, 9):
                    addressed = True
                    adp = (adp + 1) & 0xffff
                elif cmd in (10, 11, 12):
                    new, rhit, whit = t.logical(
                        d.addr, bytes(data), cmd in (10, 12), cmd in (11, 12))
                    if rhit:
                        data[:] = new
                        wkc += 1
                    if whit:
                        wkc += 2 if cmd == 12 else 1
                    continue
                if not addressed or cmd in (13, 14):
                    continue
                rd = cmd in (1, 3, 4, 6, 7, 9)
                wr = cmd in (2, 3, 5, 6, 8, 9)
                if rd:
                    r = t.read(ado, len(data))
                    if r is not None:
                        if cmd in (7, 9):
                            r = bytes(a | b for a, b in zip(r, data))
                        olddata = bytes(data)
                        if wr:
                            # read-write: returns old content, writes new
                            if t.write(ado, olddata):
                                wkc += 2
                        data[:] = r
                        wkc += 1
                        continue
                if wr and not rd:
                    if t.write(ado, bytes(data)):
                        wkc += 1
            self.log.append((cmd, d.adp, ado, d.length, wkc))
            out[d.data_pos:d.wkc_pos] = data
            struct.pack_into("<H", out, d.wkc_pos, wkc & 0xffff)
            if cmd not in (10, 11, 12):
                struct.pack_into("<H", out, d.hdr_pos + 2, adp)
        return bytes(out)


class Transport:
    def __init__(self):
        self.sent = []
        self.inflight = []

    def sendto(self, data, addr=None):
        self.sent.append(bytes(data))
        self.inflight.append(bytes(data))


class Master:
    """virtual loop + real EtherCat object + bus, default FIFO delivery"""

    def __init__(self, bus, ec_factory, loop):
        import asyncio
        self.bus = bus
        self.loop = loop
        self.ec = ec_factory()
        self.ec.send_queue = asyncio.Queue()
        self.transport = self.ec.transport = Transport()
        self.sendtask = asyncio.ensure_future(self.ec.sendloop())
        self.frames = 0

    def deliver(self, i=0):
        frame = self.transport.inflight.pop(i)
        back = self.bus.process(frame)
        self.frames += 1
        self.loop.call_soon(self.ec.datagram_received, back, None)

    def run(self, fut, max_frames=20000, on_idle=None):
        """run until fut is done, delivering frames FIFO whenever the loop
        is idle; timers fire when nothing else can happen.  on_idle(master)
        may inject events and return True to suppress the default delivery.
        Returns True if fut finished."""
        while True:
            self.loop.run_until_idle()
            if fut is not None and fut.done():
                return True
            if on_idle is not None and on_idle(self):
                continue
            if self.transport.inflight:
                if self.frames >= max_frames:
                    return False
                self.deliver(0)
            elif not self.loop.advance():
                return fut is None
