"""C04 - writing one variable never changes another.

Program shapes (main frame with locals and bit fields, a Dict with Structure
key/value, array-map, hash-map and packet variables, 0-2 subprogram classes
with 1-2 instances) x statements under test are enumerated; each program is
written with the real DSL on a real XDP subclass, assembled, and executed in
the independent interpreter up to the statement, through it, and the complete
interpreter memory (stack, packet, every map) is compared before/after.

Two observers:
 static   byte ranges the descriptors report for distinct declared variables
          must be disjoint; stack temporaries handed out by EBPF.get_stack
          during the statement must not intersect a live variable
 dynamic  all variables hold sentinels (stack ones planted by raw
          instructions); bytes changed by the statement must lie in the target
          variable or in bytes of no declared (live) variable

Fixed interpretation (DESIGN.md, C04): frames of different subprogram
instances overlay each other by construction, so subprogram locals are scratch
that is live only while that subprogram's program() is being executed.  Every
statement is therefore judged once per context: 'main' (no subprogram local is
live) and 'sub k' (the locals of instance k are live).

Two further dimensions of the enumeration:
 lookup block  on every shape with a Dict every statement of the alphabet
          (but update()/lookup themselves) is also issued inside a
          `with d.lookup() as (value, Else)` block - r0 is the pointer to the
          looked-up value - or inside its Else (the key is then missing),
          followed by an access to a member of the looked-up value
          (value.m = const, value.m += const, or a read of value.m into the
          dedicated array-map variable gr).  The whole block is the statement
          under test: the inner target, and member m of the looked-up entry
          resp. gr, may change; every other byte of every Dict entry and all
          other variables are sentinels; a read member must arrive as the
          entry's sentinel (third observer 'readback').
 history  statements that use stack temporaries or save registers (and one
          plain store per shape for the static observer) are also built on a
          main class that is instantiated more than once, as FastSyncGroup
          is: another instance H with a different subprogram list (none / one
          without locals / one with a 24 byte frame) is constructed and
          assembled before the instance under test T is constructed ('pre')
          or between T's construction and T's assemble() ('mid'), and once
          more after T is complete; T is then judged as always, and the
          places its descriptors report must not have moved.  All other cases
          use a fresh class with a single instance.
 bit fields  a second, independent family: 2..3 bit-field variables
          (pos, bits) declared next to each other, every non-overlapping
          layout of one byte with bits 1..7, for every variable kind that
          takes a bit-field format: xdp.PacketVar and the TerminalVar-linked
          ebpfcat.ebpfcat.PacketVar (single bits only) - all fields share ONE
          packet byte -, LocalVar and array-map variables (a byte of their
          own each, adjacent), with byte neighbours below and above.  Every
          field is written once with every value of: constants in range, too
          wide and negative, True/False, a 64 bit register, other variables
          (wider than the field), another field of the family, an
          expression, a comparison; on previous byte values 0x00/0xff/0xa5.
          Judged per BIT: every bit of every other declared variable keeps
          its value (what the written field itself holds is only counted).
"""
import contextlib
import itertools

from mc import bpfvm, core
from mc.dsl import Raw
import ebpfcat.arraymap
import ebpfcat.hashmap
from ebpfcat.arraymap import ArrayMap
from ebpfcat.hashmap import Dict, HashMap
from ebpfcat.ebpf import (EBPF, Instruction, LocalVar, Member, Structure,
                          SubProgram, fmtsize, ktime, prandom)
from ebpfcat.xdp import XDP, PacketVar

PROP = "C04"
LEVEL = "model_checking"
RULE = ("programs = shape (main locals sequence, Dict position, subprogram "
        "classes x instances with locals) x statement under test (kind x "
        "target x source, incl. hash-map variable <- hash-map variable; on "
        "shapes with a Dict also every such statement inside a Dict lookup "
        "block or its Else, followed by a write/add/read of a member of the "
        "looked-up value) x history of the main class (fresh class with one "
        "instance; for statements using temporaries also a class shared "
        "with an instance that has another subprogram list, built before / "
        "between construction and assembly of / after the instance under "
        "test); each is executed in the interpreter with two "
        "sentinel sets and judged in every context (main, inside each "
        "subprogram instance); a case is non-trivial when the statement ran to "
        "its end and changed at least one byte of interpreter memory; "
        "distinct = distinct (shape, statement, history); second family: "
        "kind of variable (packet, TerminalVar, local, array map) x layout "
        "of 2..3 bit fields in a byte x written field x value (constants in "
        "range / too wide / negative, booleans, register, variables, other "
        "field, expression, comparison) x previous byte value, judged per "
        "bit")

K_MAIN = ["B", "h", "I", "q", (3, 1), (1, 3)]
K_SUB = ["B", "I", "q", "h", (3, 1)]
GUARD = 32
PKTLEN = 64
KF_TEMP = "C04-temporary-in-subprogram-frame"


def fmtname(f):
    return f if isinstance(f, str) else f"bits{f[0]}_{f[1]}"


# ------------------------------------------------------------ fake maps
class FakeMaps:
    def __init__(self):
        self.kernel = bpfvm.Kernel()
        self.fds = []

    def create_map(self, map_type, key_size, value_size, max_entries,
                   attributes=None):
        fd = 100 + len(self.fds)
        self.kernel.maps[fd] = bpfvm.BpfMap(map_type.value, key_size,
                                            value_size, max_entries)
        self.fds.append(fd)
        return fd

    def mmap(self, fd, size):
        return self.kernel.maps[fd].area

    @contextlib.contextmanager
    def bound(self):
        am, hm = ebpfcat.arraymap, ebpfcat.hashmap
        old = am.create_map, am.mmap, hm.create_map
        am.create_map, am.mmap, hm.create_map = \
            self.create_map, self.mmap, self.create_map
        try:
            yield self
        finally:
            am.create_map, am.mmap, hm.create_map = old


# ------------------------------------------------------------ programs
class Var:
    def __init__(self, path, region, off, size, live):
        self.path, self.region, self.off, self.size, self.live = \
            path, region, off, size, live
        self._bytes = frozenset((region, off + i) for i in range(size))

    def bytes_(self):
        return self._bytes

    def __repr__(self):
        return f"{'.'.join(map(str, self.path))}@{self.region}+{self.off}" \
               f"/{self.size}"


HISTS = {"E": "no subprogram", "S": "one subprogram without locals",
         "D": "one subprogram with three 8-byte locals"}
HASHY = ("hget", "hset", "hsetx", "hsetr")


class Prog:
    """one shape + one statement (+ one history of the main class)

    hist None: a fresh main class with the one instance under test T.
    hist (kind, order): the same class object is instantiated several times,
    as ebpfcat does with FastSyncGroup: H (another subprogram list, see HISTS)
    is constructed and assembled before T is constructed (order 'pre') or
    between T's construction and T's assemble() (order 'mid'); in both
    orders one more H is constructed and assembled after T is complete."""

    def __init__(self, shape, stmt, hist=None):
        self.shape, self.stmt, self.hist = shape, stmt, hist
        main, dictpos, subcls, insts = shape
        self.fake = FakeMaps()
        self.templog = []
        self.in_stmt = False
        self._sent = {}
        self._mapidx = {}
        self.e = None
        self.hit_key = None
        prog = self
        Key = type("Key", (Structure,), {"kI": Member("I"),
                                         "kB": Member("B")})
        Val = type("Val", (Structure,), {"vq": Member("q"),
                                         "vI": Member("I"),
                                         "vB": Member("B")})
        self.Val = Val
        attrs = {"minimumPacketSize": GUARD}
        if dictpos == "first":
            attrs["d"] = Dict(key=Key, value=Val, size=4)
        for j, k in enumerate(main):
            attrs[f"m{j}"] = LocalVar(k)
        if dictpos == "last":
            attrs["d"] = Dict(key=Key, value=Val, size=4)
        amap = attrs["amap"] = ArrayMap()
        attrs["ga"] = amap.globalVar("I")
        attrs["gb"] = amap.globalVar("q")
        attrs["gf"] = amap.globalVar((2, 1))
        attrs["gr"] = amap.globalVar("Q")
        attrs["gm"] = amap.globalVar("4I")   # several items: only a sentinel
        hmap = attrs["hmap"] = HashMap()
        attrs["hv"] = hmap.globalVar("Q")
        attrs["hw"] = hmap.globalVar("i")
        attrs["pv"] = PacketVar(4, "I")
        attrs["pw"] = PacketVar(9, "H")

        @contextlib.contextmanager
        def get_stack(e, size):
            with EBPF.get_stack(e, size) as s:
                if prog.in_stmt:
                    prog.templog.append((s, size))
                yield s
        attrs["get_stack"] = get_stack

        def program(e):
            if e is prog.e:
                prog.emit(e)
            else:
                prog.emit_other(e)
        attrs["program"] = program
        self.scls = []
        for j, locs in enumerate(subcls):
            sattrs = {f"l{i}": LocalVar(k) for i, k in enumerate(locs)}
            sattrs["sa"] = amap.globalVar("H")
            self.scls.append(type(f"S{j}", (SubProgram,), sattrs))
        self.subs = [self.scls[c]() for c in insts]
        cls = self.cls = type("C04P", (XDP,), attrs)
        kind, order = hist if hist else (None, None)
        if kind == "S":
            self.hcls = type("HS", (SubProgram,),
                             {"sa": amap.globalVar("H")})
        elif kind == "D":
            self.hcls = type("HD", (SubProgram,), dict(
                {f"l{i}": LocalVar("q") for i in range(3)},
                sa=amap.globalVar("H")))
        with self.fake.bound():
            if order == "pre":
                self.other(kind)
            self.fd0 = len(self.fake.fds)
            e = self.e = cls(license="GPL", subprograms=self.subs)
            self.main_stack = cls.stack
            self.collect_vars()
            if order == "mid":
                self.other(kind)
            self.code = e.assemble()
            if hist:
                self.other(kind)
        self.moved = []
        if hist:
            first = self.vars
            self.collect_vars()
            self.moved = [(a, b) for a, b in zip(first, self.vars)
                          if (a.region, a.off, a.size)
                          != (b.region, b.off, b.size)]
            self.vars = first
            self.byvar = {v.path: v for v in first}
        self.insns = bpfvm.decode(self.code)

    def other(self, kind):
        """another instance of the same main class, constructed and
        assembled"""
        subs = [] if kind == "E" else [self.hcls()]
        self.cls(license="GPL", subprograms=subs).assemble()

    def emit_other(self, e):
        e.hw = e.hv + 1
        e.ga = e.hv
        for p in e.subprograms:
            for n, d in type(p).__dict__.items():
                if isinstance(d, LocalVar):
                    setattr(p, n, 1)
            p.sa = 2
        if self.shape[1] != "none":
            e.d.key.kI = 1
            with e.d.lookup() as (value, Else):
                value.vI = 2

    # ---------------------------------------------------------- variables
    def holder(self, path):
        k = path[0]
        if k in ("m", "ga", "gb", "gf", "gr", "gm", "hv", "hw", "pv", "pw"):
            return self.e, (f"m{path[1]}" if k == "m" else k)
        if k == "dk":
            return self.e.d.key, path[1]
        if k == "dv":
            return self.e.d.value, path[1]
        if k == "s":
            return self.subs[path[1]], f"l{path[2]}"
        if k == "sa":
            return self.subs[path[1]], "sa"
        raise core.Internal(f"path {path}")

    def get(self, path):
        h, name = self.holder(path)
        return getattr(h, name)

    def set(self, path, value):
        h, name = self.holder(path)
        setattr(h, name, value)

    def desc(self, path):
        h, name = self.holder(path)
        for c in type(h).__mro__:
            if name in c.__dict__:
                return c.__dict__[name], h
        raise core.Internal(f"no descriptor for {path}")

    def collect_vars(self):
        main, dictpos, subcls, insts = self.shape
        vs = []

        def add(path, region, live="always", base=0):
            d, h = self.desc(path)
            fmt, addr = d.fmt_addr(h)
            vs.append(Var(path, region, addr + base, fmtsize(fmt), live))
        for j in range(len(main)):
            add(("m", j), "stack", base=512)
        if dictpos != "none":
            for m in ("kI", "kB"):
                add(("dk", m), "stack", base=512)
            for m in ("vq", "vI", "vB"):
                add(("dv", m), "stack", base=512)
        for g in ("ga", "gb", "gf", "gr", "gm"):
            add((g,), "arr")
        add(("pv",), "pkt")
        add(("pw",), "pkt")
        for k, c in enumerate(insts):
            for i in range(len(subcls[c])):
                add(("s", k, i), "stack", live=("sub", k), base=512)
            add(("sa", k), "arr")
        # hash-map variables: one entry each, the value starts at offset 0
        for name in ("hv", "hw"):
            d = self.cls.__dict__[name]
            vs.append(Var((name,), ("hash", d.count), 0, fmtsize(d.fmt),
                          "always"))
        self.vars = vs
        self.byvar = {v.path: v for v in vs}

    # ---------------------------------------------------------- emission
    def raw(self, op, dst, src, off, imm):
        self.e.opcodes.append(Instruction(Raw(op), dst, src, off, imm))

    def ld64(self, no, value):
        self.e.opcodes.append(Instruction(Raw(0x18), no, 0, 0,
                                          value & 0xffffffff))
        self.e.opcodes.append(Instruction(Raw(0), 0, 0, 0, value >> 32))
        self.e.owners.add(no)

    def sentinel(self, var, which):
        key = (var.path, which)
        out = self._sent.get(key)
        if out is None:
            j = self.vars.index(var)
            out = bytes((0x31 + 0x0b * j + 0x3 * i) & 0xff
                        for i in range(var.size))
            if which:
                out = bytes(b ^ 0xff for b in out)
            self._sent[key] = out
        return out

    def emit(self, e):
        # sentinels into every stack variable, by raw byte stores; locals of
        # subprogram instances first (they overlay each other: later wins)
        order = sorted((v for v in self.vars if v.region == "stack"),
                       key=lambda v: (v.live == "always",
                                      -1 if v.live == "always"
                                      else v.live[1]))
        if self.dict_area is not None:
            lo, hi = self.dict_area
            for off in range(lo, hi - 3, 4):
                self.raw(0x62, 10, 0, off - 512, 0x5d5d5d5d)
            for off in range(lo + (hi - lo) // 4 * 4, hi):
                self.raw(0x72, 10, 0, off - 512, 0x5d)
        for v in order:
            sb = self.sentinel(v, 0)
            i = 0
            while i < len(sb):
                if len(sb) - i >= 4:
                    self.raw(0x62, 10, 0, v.off - 512 + i,
                             int.from_bytes(sb[i:i + 4], "little"))
                    i += 4
                else:
                    self.raw(0x72, 10, 0, v.off - 512 + i, sb[i])
                    i += 1
        # operand registers only where the statement needs them (a hash-map
        # access has to save every owned register below r6 in a free one)
        k = self.stmt[0]
        if k == "in":
            # in a lookup block r0 is taken as well: the expressions get
            # constants instead of operand registers there
            pass
        if k in ("expr", "hsetx", "hsetr"):
            self.ld64(2, 0x0102030405060708)
        if k == "expr":
            self.ld64(3, 11)
        if k in ("dupd", "dlook"):
            # "possible errors are returned in register 0": the program
            # owns r0 before it uses the Dict
            self.raw(0xb7, 0, 0, 0, 0)
            e.owners.add(0)
        self.start = len(e.opcodes)
        self.in_stmt = True
        try:
            self.statement(e)
        finally:
            self.in_stmt = False
        self.end = len(e.opcodes)

    @property
    def dict_area(self):
        if self.shape[1] == "none":
            return None
        d = self.cls.__dict__["d"]
        lo = 512 + d.value_offset
        hi = 512 + d.key_offset + d.Key.stack
        return lo, hi

    def statement(self, e):
        st = self.stmt
        if st[0] != "in":
            return self.do(e, st)
        # the inner statement inside a Dict lookup block (r0 = pointer to
        # the looked-up value) or inside its Else, and an access to a member
        # of the looked-up value after it
        _, place, inner, member, access = st
        with e.d.lookup() as (value, Else):
            if place == "body":
                self.do(e, inner, True)
            if access == "set":
                setattr(value, member, 9)
            elif access == "iadd":
                setattr(value, member, _iadd(getattr(value, member), 3))
            else:
                e.gr = getattr(value, member)
        if place == "else":
            with Else:
                self.do(e, inner, True)

    def do(self, e, st, inblock=False):
        k = st[0]
        if k == "const":
            self.set(st[1], 1 if self.isbit(st[1]) == 1 else 5)
        elif k == "zero":
            self.set(st[1], 0)
        elif k == "copy":
            self.set(st[1], self.get(st[2]))
        elif k == "expr" and inblock:
            self.set(st[1], (self.get(st[2]) + 0x0102030405) * 3 - 11)
        elif k == "expr":
            self.set(st[1], (self.get(st[2]) + e.r2) * 3 - e.r3)
        elif k == "hget":
            self.set(st[1], self.get(st[2]))
        elif k == "ktime":
            self.set(st[1], ktime(e))
        elif k == "prandom":
            self.set(st[1], prandom(e))
        elif k == "cond":
            self.set(st[1], self.get(st[2]) > 3)
        elif k == "iadd":
            h, name = self.holder(st[1])
            setattr(h, name, _iadd(getattr(h, name), 3))
        elif k == "hset":
            self.set(st[1], self.get(st[2]))
        elif k == "hsetx" and inblock:
            self.set(st[1], self.get(st[2]) + 0x0102030405)
        elif k == "hsetx":
            self.set(st[1], self.get(st[2]) + e.r2)
        elif k == "hsetr":
            self.set(st[1], e.r2)
        elif k == "dupd":
            e.d.update()
        elif k == "dlook":
            with e.d.lookup() as (value, Else):
                if st[2] == "set":
                    setattr(value, st[1], 9)
                else:
                    setattr(value, st[1], _iadd(getattr(value, st[1]), 3))
            if st[3]:
                with Else:
                    e.r3 = 1
        else:
            raise core.Internal(f"statement {st}")

    def isbit(self, path):
        d, h = self.desc(path)
        return d.fmt[1] if isinstance(d.fmt, tuple) else 0

    # ---------------------------------------------------------- running
    def world(self, which):
        """fresh interpreter with every non-stack variable holding its
        sentinel -> vm"""
        k = self.fake.kernel
        arr = self.map("amap")
        arr.area[:] = bytes((0x90 + 7 * i) & 0xff
                            for i in range(len(arr.area)))
        pkt = bytearray((0x40 + 3 * i) & 0xff for i in range(PKTLEN))
        for v in self.vars:
            s = self.sentinel(v, which)
            if v.region == "arr":
                arr.area[v.off:v.off + v.size] = s
            elif v.region == "pkt":
                pkt[v.off:v.off + v.size] = s
        hm = self.map("hmap")
        hm.entries.clear()
        for v in self.vars:
            if isinstance(v.region, tuple):
                val = bytearray(b"\x77" * 8)
                val[:v.size] = self.sentinel(v, which)
                hm.entries[bytes([v.region[1]])] = val
        if self.shape[1] != "none":
            dm = self.map("d")
            dm.entries.clear()
            key = bytearray(b"\x5d" * dm.key_size)
            for m in ("kI", "kB"):
                v = self.byvar[("dk", m)]
                o = v.off - (512 + self.cls.__dict__["d"].key_offset)
                key[o:o + v.size] = self.sentinel(v, which)
            self.hit_key = bytes(key)
            if self.stmt[0] == "in" and self.stmt[1] == "else":
                # the lookup under test misses: its Else is executed
                self.hit_key = None
                key = bytearray(b ^ 0xff for b in key)
            dm.entries[bytes(key)] = bytearray(
                (0xc1 + 5 * i) & 0xff for i in range(dm.value_size))
            dm.entries[bytes(b"\x01" * dm.key_size)] = bytearray(
                (0x11 + i) & 0xff for i in range(dm.value_size))
        self.packet = pkt
        return bpfvm.VM(k, self.insns, pkt)

    def map(self, name):
        """the interpreter's map behind Map `name` of the instance under
        test"""
        return self.fake.kernel.maps[
            self.fake.fds[self.fd0 + self.mapidx(name)]]

    def mapidx(self, name):
        """creation order of the maps = order of Map objects in the class,
        for every instance"""
        if not self._mapidx:
            from ebpfcat.ebpf import Map
            names = [n for n, v in self.cls.__dict__.items()
                     if isinstance(v, Map)]
            self._mapidx = {n: i for i, n in enumerate(names)}
        return self._mapidx[name]

    def snapshot(self, vm):
        k = self.fake.kernel
        out = {"stack": bytes(vm.stack), "pkt": bytes(self.packet),
               "arr": bytes(self.map("amap").area)}
        hm = self.map("hmap")
        for key, val in hm.entries.items():
            out[("hash", key[0])] = bytes(val)
        if self.shape[1] != "none":
            dm = self.map("d")
            out["dict"] = tuple(sorted((kk, bytes(vv))
                                       for kk, vv in dm.entries.items()))
        return out

    def run(self, which):
        """-> (status, before, after, steps)"""
        vm = self.world(which)
        try:
            while vm.pc != self.start:
                if vm.done:
                    return "exit before the statement", None, None, vm.steps
                vm.step()
        except bpfvm.Trap as t:
            return "trap before the statement: " + str(t), None, None, \
                vm.steps
        if which:
            for v in self.vars:
                if v.region == "stack":
                    vm.stack[v.off:v.off + v.size] = self.sentinel(v, 1)
        before = self.snapshot(vm)
        status = "end"
        try:
            while vm.pc != self.end:
                if vm.done:
                    status = "exit"
                    break
                vm.step()
        except bpfvm.Trap as t:
            status = "trap: " + str(t)
        return status, before, self.snapshot(vm), vm.steps


def _iadd(a, b):
    a += b
    return a


# ------------------------------------------------------------ the observers
def contexts(prog):
    return ["main"] + [("sub", k) for k in range(len(prog.subs))]


def live_in(prog, ctx):
    return [v for v in prog.vars
            if v.live == "always" or v.live == ctx]


def target_bytes(prog):
    """bytes the statement is allowed to change (its target variable)"""
    st = prog.stmt
    if st[0] == "dupd" or st[0] == "dlook":
        return "dict"
    if st[0] == "in":
        out = set(prog.byvar[st[2][1]].bytes_())
        if st[1] == "body" and st[4] == "get":
            out |= prog.byvar[("gr",)].bytes_()
        return out
    v = prog.byvar[st[1]]
    return v.bytes_()


def target_name(prog):
    st = prog.stmt
    if st[0] in ("dupd", "dlook"):
        return "the Dict entry"
    if st[0] != "in":
        return str(prog.byvar[st[1]])
    out = [str(prog.byvar[st[2][1]])]
    if st[1] == "body":
        out.append(str(prog.byvar[("gr",)]) if st[4] == "get" else
                   f"member {st[3]} of the looked-up Dict entry")
    return " and ".join(out)


def member_range(prog, member):
    d = prog.Val.__dict__[member]
    return d.relative_addr, fmtsize(d.fmt)


def judge_lookup(prog, status, before, after, res, report):
    """statement kind 'in': the Dict entries and the value read back"""
    _, place, inner, member, access = prog.stmt
    bd, ad = dict(before["dict"]), dict(after["dict"])
    lo, n = member_range(prog, member)
    bad = []
    if sorted(bd) != sorted(ad):
        bad.append("the set of keys changed")
    for key in sorted(bd):
        b, a = bd[key], ad.get(key, bd[key])
        diff = [i for i in range(len(b)) if b[i] != a[i]]
        if key == prog.hit_key and access != "get":
            diff = [i for i in diff if not lo <= i < lo + n]
        if diff:
            bad.append(f"entry {key.hex()} bytes {diff}")
    if place == "body" and access != "get" and \
            bd[prog.hit_key][lo:lo + n] != \
            ad.get(prog.hit_key, bd[prog.hit_key])[lo:lo + n]:
        res.count("lookup_member_written")
    if place == "else" and status == "end":
        res.count("lookup_else_executed")
    if bad:
        report("dynamic", "main",
               "Dict entries unchanged" + (
                   f" but for bytes [{lo}, {lo + n}) of entry "
                   f"{prog.hit_key.hex()}"
                   if prog.hit_key is not None and access != "get" else ""),
               "; ".join(bad), None,
               "Dict map changed by an unrelated statement")
    if place == "body" and access == "get" and status == "end":
        gr = prog.byvar[("gr",)]
        exp = bd[prog.hit_key][lo:lo + n] + bytes(8 - n)
        obs = after["arr"][gr.off:gr.off + 8]
        if exp == obs:
            res.count("lookup_member_read_back")
        else:
            report("readback", "main",
                   f"member {member} of the looked-up entry reads back its "
                   f"sentinel {exp.hex()} after the inner statement",
                   f"read {obs.hex()}", None,
                   "looked-up Dict member read back wrong after an "
                   "unrelated statement")


def static_observer(prog, res, report):
    vs = prog.vars
    for a, b in itertools.combinations(vs, 2):
        if not (a.bytes_() & b.bytes_()):
            continue
        if a.live != "always" and b.live != "always" and a.live != b.live:
            res.count("overlay_pairs")      # two subprogram frames
            continue
        report("static", None, f"{a} and {b} are disjoint",
               f"{a} and {b} overlap", None, "declared variables overlap")
    for a, b in prog.moved:
        report("static", None,
               f"{a} stays where it is when another instance of the class "
               "is built", f"its descriptor now reports {b}", None,
               "variable moved by another instance of the program class")


def judge(prog, status, before, after, res, report):
    """dynamic observer + temporaries, once per context"""
    changed = set()
    for region in before:
        if region == "dict":
            continue
        b, a = before[region], after.get(region)
        if a is None:
            changed |= {(region, i) for i in range(len(b))}
            continue
        changed |= {(region, i) for i in range(len(b)) if b[i] != a[i]}
    tgt = target_bytes(prog)
    if tgt == "dict":
        tgt = set()
    elif prog.stmt[0] == "in":
        judge_lookup(prog, status, before, after, res, report)
    elif before.get("dict") != after.get("dict"):
        report("dynamic", "main", "Dict entries unchanged",
               "statement changed entries of the Dict", None,
               "Dict map changed by an unrelated statement")
    temps = set()
    for s, size in prog.templog:
        temps |= {("stack", 512 + s + i) for i in range(size)}
    temps_below = all(s + size <= prog.main_stack
                      for s, size in prog.templog)
    for ctx in contexts(prog):
        live = live_in(prog, ctx)
        hit = [v for v in live if (v.bytes_() & changed) - tgt]
        static_hit = [v for v in live if v.bytes_() & temps]
        own = [v for v in prog.vars if v.live == ctx] if ctx != "main" else []
        for kind, vs, what in (("dynamic", hit, "changed"),
                               ("static", static_hit, "temporary")):
            if not vs:
                continue
            kf = None
            if ctx != "main" and prog.hist is None and temps_below \
                    and all(v in own for v in vs) \
                    and all(((v.bytes_() & changed) - tgt) <= temps
                            for v in vs if kind == "dynamic"):
                kf = KF_TEMP
            if kind == "dynamic":
                exp = "only " + target_name(prog) + " changes"
                obs = "also changed: " + ", ".join(
                    f"{v} {sorted(o for r, o in (v.bytes_() & changed))}"
                    for v in vs)
                note = "statement changed another live variable"
            else:
                exp = "stack temporaries " + str(prog.templog) + \
                    " (r10 relative) outside every live variable"
                obs = "temporary overlaps " + ", ".join(map(str, vs))
                note = "stack temporary allocated on a live variable"
            report(kind, ctx, exp, obs, kf, note)
    return len(changed)


def ctxname(ctx):
    return "main" if ctx == "main" else "sub"


_stored = {}
KEEP = 2      # stored violations per signature and work item (shape)


def kindname(stmt, hist):
    k = stmt[0] if stmt[0] != "in" else f"in-{stmt[1]}:{stmt[2][0]}"
    return k + ("" if hist is None else "@" + "-".join(hist))


def run_case(shape, stmt, hist, res, caseno):
    cj = dict(shape=shape_json(shape), stmt=list(stmt),
              hist=list(hist) if hist else None)
    try:
        p = Prog(shape, stmt, hist)
    except core.Internal:
        raise
    except Exception as e:
        res.count("rejected_by_generator")
        res.outcomes.add("rejected:" + type(e).__name__)
        return
    res.count("programs")
    if hist:
        res.count("programs_with_history")
    if stmt[0] == "in":
        res.count("programs_in_lookup_block")
    seen = set()

    def report(kind, ctx, exp, obs, kf, note):
        key = (kind, ctx, note)
        if key in seen:
            return
        seen.add(key)
        sig = core.digest([kind, ctxname(ctx) if ctx else None, note,
                           kindname(stmt, hist), str(kf)])
        n = _stored[sig] = _stored.get(sig, 0) + 1
        if n > KEEP:
            res.count("violations_not_stored")
            return
        res.violation(dict(cj, context=ctx, observer=kind), exp, obs, kf=kf,
                      sig=sig, note=note)
    static_observer(p, res, report)
    for which in (0, 1):
        status, before, after, steps = p.run(which)
        res.count("evaluations")
        res.count("transitions", steps)
        if before is None:
            res.count("not_reached")
            res.outcomes.add((status[:60],))
            continue
        if status.startswith("trap"):
            res.count("trapped")
            res.outcomes.add(("trap", kindname(stmt, None), status[6:40]))
            continue
        n = judge(p, status, before, after, res, report)
        res.outcomes.add((status, kindname(stmt, None), min(n, 9)))
        if status == "end" and n:
            res.nontrivial.add(caseno)


def shape_json(shape):
    main, dictpos, subcls, insts = shape
    return dict(main=[list(k) if isinstance(k, tuple) else k for k in main],
                dict=dictpos,
                subcls=[[list(k) if isinstance(k, tuple) else k for k in c]
                        for c in subcls],
                insts=list(insts))


def shape_from(j):
    def t(k):
        return tuple(k) if isinstance(k, list) else k
    return (tuple(t(k) for k in j["main"]), j["dict"],
            tuple(tuple(t(k) for k in c) for c in j["subcls"]),
            tuple(j["insts"]))


# ------------------------------------------------------------ bit fields
# Families of 2..3 bit-field variables.  xdp.PacketVar and the
# ebpfcat.ebpfcat.PacketVar behind a TerminalVar take the address from the
# declaration: all fields of a family share ONE byte there.  LocalVar and
# array-map bit fields are given a byte of their own each (adjacent bytes).
BF_KINDS = ("pkt", "tvar", "local", "arr")
BF_ADDR = {"pkt": 14, "tvar": 19}     # tvar: 14 + pdo_assign 3 + position 2
BF_SRC = 0x81c3a5e7                   # LocalVar 'I' src
BF_GSRC = 0xb6d9                      # array-map 'H' gsrc
BF_REGS = (0xf123456789abcdb7, 0xffffffffffffffff)
BF_KEEP = 1     # stored violations per signature and work item


def bf_layouts(single=False):
    """all sets of 2..3 non-overlapping fields (pos, bits) in one byte,
    bits 1..7 (single: bits == 1 only)"""
    ivs = [(p, b) for p in range(8) for b in range(1, 2 if single else 8)
           if p + b <= 8]
    out = []
    for n in (2, 3):
        for c in itertools.combinations(ivs, n):
            if all(c[i][0] + c[i][1] <= c[i + 1][0] for i in range(n - 1)):
                out.append(c)
    return out


def bf_values(layout, k, quick, seed):
    bits = layout[k][1]
    top = (1 << bits) - 1
    consts = [0, top, 0x55 & top, 1 << bits, 0xff, -1, -2,
              -(1 << (bits - 1))]
    if not quick:
        consts += [1, top + 2, 0x80, 0x1ff, -(1 << bits), -(1 << bits) - 1,
                   -128, -129, 1 << 31, (1 << 32) + 1, -(1 << 31)]
    if seed:
        consts += [(37 * seed + 11) & 0xff, -((29 * seed + 3) & 0xff) - 1]
    vals = []
    for c in consts:
        if ("c", c) not in vals:
            vals.append(("c", c))
    vals += [("b", True), ("b", False), ("reg", 0), ("var", "src"),
             ("var", "nhi"), ("expr",), ("cmp",)]
    vals += [("field", j) for j in range(len(layout)) if j != k]
    if not quick:
        vals += [("reg", 1), ("var", "gsrc"), ("var", "nlo"), ("neg",)]
    return vals


def bf_prevs(seed):
    return [0x00, 0xff, 0xa5] + ([(0x3c + 0x4f * seed) & 0xff] if seed
                                 else [])


class BitProg:
    """family `layout` of bit fields of one kind, neighbours nlo/nhi ('B')
    of the same kind below/above, one statement: field k = value"""

    def __init__(self, kind, layout, k, val):
        self.kind, self.layout, self.k, self.val = kind, layout, k, val
        self.fake = FakeMaps()
        self.start = self.end = None
        n = len(layout)
        attrs = {"minimumPacketSize": GUARD}
        amap = attrs["amap"] = ArrayMap()
        attrs["src"] = LocalVar("I")
        attrs["gsrc"] = amap.globalVar("H")
        names = ["nlo"] + [f"f{j}" for j in range(n)] + ["nhi"]
        fmts = ["B"] + list(layout) + ["B"]
        self.dev = None
        if kind in ("pkt", "tvar"):
            a = BF_ADDR[kind]
            attrs["nlo"] = PacketVar(a - 1, "B")
            attrs["nhi"] = PacketVar(a + 1, "B")
            if kind == "pkt":
                for j, f in enumerate(layout):
                    attrs[f"f{j}"] = PacketVar(a, f)
        elif kind == "local":
            for nm, f in zip(names, fmts):
                attrs[nm] = LocalVar(f)
        elif kind == "arr":
            for nm, f in zip(names, fmts):
                attrs[nm] = amap.globalVar(f)
        else:
            raise core.Internal(f"kind {kind}")
        prog = self

        def program(e):
            prog.emit(e)
        attrs["program"] = program
        cls = self.cls = type("C04B", (XDP,), attrs)
        with self.fake.bound():
            e = self.e = cls(license="GPL")
            if kind == "tvar":
                from ebpfcat.ebpfcat import PacketVar as ECPacketVar
                from ebpfcat.ebpfcat import TerminalVar
                import types
                term = object()
                Dev = type("Dev", (), {f"f{j}": TerminalVar()
                                       for j in range(n)})
                dev = self.dev = Dev()
                dev.ebpf = e
                dev.sync_group = types.SimpleNamespace(
                    current_data=None, pdo_assign={term: {0: 3}})
                for j, (pos, bits) in enumerate(layout):
                    setattr(dev, f"f{j}", ECPacketVar(term, 0, 2, pos))
            self.collect()
            self.error = None
            try:
                self.code = e.assemble()
            except core.Internal:
                raise
            except Exception as ex:
                if self.start is None:
                    raise core.Internal(f"before the statement: {ex!r}")
                self.error = type(ex).__name__
                return
        if self.end is None:
            raise core.Internal("statement not emitted")
        self.insns = bpfvm.decode(self.code)

    def holder(self, name):
        return self.dev if self.dev is not None and name[0] == "f" \
            and name[1:].isdigit() else self.e

    def collect(self):
        """-> self.vars: name -> (region, offset, size, mask)"""
        e, kind = self.e, self.kind
        vs = {}

        def where(name):
            for c in type(e).__mro__:
                if name in c.__dict__:
                    return c.__dict__[name].fmt_addr(e)[1]
            raise core.Internal(name)
        vs["src"] = ("stack", 512 + where("src"), 4, 0xff)
        vs["gsrc"] = ("arr", where("gsrc"), 2, 0xff)
        names = ["nlo"] + [f"f{j}" for j in range(len(self.layout))] \
            + ["nhi"]
        for i, nm in enumerate(names):
            f = self.layout[i - 1] if nm[0] == "f" else None
            mask = 0xff if f is None else ((1 << f[1]) - 1) << f[0]
            if kind in ("pkt", "tvar"):
                off = BF_ADDR[kind] + (-1 if nm == "nlo" else
                                       1 if nm == "nhi" else 0)
                vs[nm] = ("pkt", off, 1, mask)
            elif kind == "local":
                vs[nm] = ("stack", 512 + where(nm), 1, mask)
            else:
                vs[nm] = ("arr", where(nm), 1, mask)
        self.vars = vs

    def emit(self, e):
        val = self.val
        if val[0] == "reg":
            v = BF_REGS[val[1]]
            e.opcodes.append(Instruction(Raw(0x18), 2, 0, 0,
                                         v & 0xffffffff))
            e.opcodes.append(Instruction(Raw(0), 0, 0, 0, v >> 32))
            e.owners.add(2)
        self.start = len(e.opcodes)
        h = self.holder(f"f{self.k}")
        setattr(h, f"f{self.k}", self.value(e))
        self.end = len(e.opcodes)

    def value(self, e):
        val = self.val
        if val[0] in ("c", "b"):
            return val[1]
        if val[0] == "reg":
            return e.r2
        if val[0] == "var":
            return getattr(e, val[1])
        if val[0] == "field":
            return getattr(self.holder(f"f{val[1]}"), f"f{val[1]}")
        if val[0] == "expr":
            return e.src + 0x1234
        if val[0] == "neg":
            return -e.src
        if val[0] == "cmp":
            return e.src > 3
        raise core.Internal(f"value {val}")

    def run(self, prev):
        """-> status, before, after, steps"""
        arr = self.fake.kernel.maps[self.fake.fds[0]]
        arr.area[:] = bytes((0x90 + 7 * i) & 0xff
                            for i in range(len(arr.area)))
        pkt = bytearray((0x40 + 3 * i) & 0xff for i in range(PKTLEN))
        vm = bpfvm.VM(self.fake.kernel, self.insns, pkt)
        try:
            while vm.pc != self.start:
                if vm.done:
                    return "exit before the statement", None, None, vm.steps
                vm.step()
        except bpfvm.Trap as t:
            return "trap before the statement: " + str(t), None, None, \
                vm.steps
        mem = {"stack": vm.stack, "pkt": pkt, "arr": arr.area}
        for nm, (region, off, size, mask) in self.vars.items():
            x = {"src": BF_SRC, "gsrc": BF_GSRC, "nlo": prev ^ 0x5a,
                 "nhi": prev ^ 0xc3}.get(nm, prev)
            mem[region][off:off + size] = x.to_bytes(size, "little")
            if region == "stack":
                vm.stack_init[off:off + size] = b"\1" * size

        def snap():
            return {r: bytes(b) for r, b in mem.items()}
        before = snap()
        status = "end"
        try:
            while vm.pc != self.end:
                if vm.done:
                    status = "exit"
                    break
                vm.step()
        except bpfvm.Trap as t:
            status = "trap: " + str(t)
        return status, before, snap(), vm.steps


def bf_valkind(layout, k, val):
    bits = layout[k][1]
    if val[0] == "c":
        c = val[1]
        return "const:" + ("negative" if c < 0 else "in range"
                           if c < (1 << bits) else "too wide")
    return {"b": "bool", "var": "variable", "field": "other field",
            "reg": "register", "expr": "expression", "neg": "expression",
            "cmp": "comparison"}[val[0]]


def bf_run_case(kind, layout, k, val, prevs, res, caseno):
    cj = dict(family="bits", kind=kind, layout=[list(f) for f in layout],
              written=k, value=list(val))
    p = BitProg(kind, layout, k, val)
    vk = bf_valkind(layout, k, val)
    width = "1 bit" if layout[k][1] == 1 else "several bits"
    if p.error:
        res.count("rejected_by_generator")
        res.count("bits_rejected_by_generator")
        res.outcomes.add(("bits", "rejected", vk, width, p.error))
        return
    res.count("programs")
    res.count("programs_bit_field_family")
    pos, bits = layout[k]
    tname = f"f{k}"
    tregion, toff, _, tmask = p.vars[tname]
    seen = set()
    for prev in prevs:
        status, before, after, steps = p.run(prev)
        res.count("evaluations")
        res.count("transitions", steps)
        if before is None:
            res.count("not_reached")
            res.outcomes.add(("bits", status[:60]))
            continue
        if status.startswith("trap"):
            res.count("trapped")
            res.outcomes.add(("bits", "trap", kind, vk, status[6:40]))
            continue
        changed = {}
        for r in before:
            b, a = before[r], after[r]
            for i in range(len(b)):
                if b[i] != a[i]:
                    changed[(r, i)] = b[i] ^ a[i]
        hit = []
        for nm, (region, off, size, mask) in p.vars.items():
            if nm == tname:
                continue
            x = [changed.get((region, off + i), 0) & mask
                 for i in range(size)]
            if any(x):
                hit.append(
                    f"{nm} ({region} byte {off}, bits {mask:#04x}): "
                    f"{before[region][off:off + size].hex()} -> "
                    f"{after[region][off:off + size].hex()}")
        if val[0] in ("c", "b") and status == "end":
            got = (after[tregion][toff] & tmask) >> pos
            res.count("bits_constant_stored_reduced_to_width"
                      if got == int(val[1]) & (tmask >> pos)
                      else "bits_constant_stored_otherwise")
        res.outcomes.add(("bits", status, kind, vk, width,
                          min(len(changed), 3)))
        if status == "end" and changed:
            res.nontrivial.add(caseno)
        if hit and "hit" not in seen:
            seen.add("hit")
            note = "bit-field write changed another declared variable"
            sig = core.digest(["bits", kind, vk, width, note])
            n = _stored[sig] = _stored.get(sig, 0) + 1
            if n > BF_KEEP:
                res.count("violations_not_stored")
                continue
            res.violation(
                dict(cj, previous_byte=prev, context="main",
                     observer="dynamic"),
                f"only {tname} = bits {pos}..{pos + bits - 1} of {tregion} "
                f"byte {toff} changes (the other declared variables: "
                + ", ".join(f"{nm} bits {v[3]:#04x} of {v[0]} byte {v[1]}"
                            for nm, v in p.vars.items()
                            if nm != tname and nm[0] in "fn") + ")",
                "also changed: " + "; ".join(hit), sig=sig, note=note)
    return p


def bf_items(ctx):
    """-> [(kind, layouts)] work items"""
    quick = ctx.quick
    allof = bf_layouts()
    pairs = [lay for lay in allof if len(lay) == 2]
    out = []
    for kind in BF_KINDS:
        if kind == "tvar":
            lays = bf_layouts(single=True)
        elif kind == "pkt":
            lays = allof
        else:
            lays = pairs if quick else allof
        size = 48
        out += [(kind, tuple(lays[i:i + size]))
                for i in range(0, len(lays), size)]
    return out


def bf_cases(kind, layouts, quick, seed):
    for layout in layouts:
        for k in range(len(layout)):
            for val in bf_values(layout, k, quick, seed):
                yield layout, k, val


def bf_work(item, res):
    (_, kind, layouts, quick, seed), base = item
    _stored.clear()
    prevs = bf_prevs(seed)
    for i, (layout, k, val) in enumerate(bf_cases(kind, layouts, quick,
                                                  seed)):
        bf_run_case(kind, layout, k, val, prevs, res, base + i)


# ------------------------------------------------------------ alphabets
def statements(shape, quick):
    main, dictpos, subcls, insts = shape
    targets = [("m", j) for j in range(len(main))]
    if dictpos != "none":
        targets += [("dk", "kI"), ("dk", "kB"), ("dv", "vq"), ("dv", "vB")]
        if not quick:
            targets += [("dv", "vI")]
    targets += [("ga",), ("gb",), ("gf",), ("pv",)]
    if not quick:
        targets += [("pw",)]
    for k, c in enumerate(insts):
        targets += [("s", k, i) for i in range(len(subcls[c]))]
        targets += [("sa", k)]
    sources = [("gb",)]
    if main:
        sources.append(("m", 0))
    if insts and subcls[insts[0]]:
        sources.append(("s", 0, 0))
    out = []

    def fmt_of(path):
        if path[0] == "m":
            return main[path[1]]
        if path[0] == "s":
            return subcls[insts[path[1]]][path[2]]
        return {"gf": (2, 1)}.get(path[0], "I")
    for t in targets:
        bit = isinstance(fmt_of(t), tuple)
        out.append(("const", t))
        if bit:
            out.append(("zero", t))
        for s in sources:
            if s != t:
                out.append(("copy", t, s))
                if bit and fmt_of(t)[1] == 1:
                    out.append(("cond", t, s))
        out.append(("expr", t, sources[-1] if sources[-1] != t
                    else sources[0]))
        out.append(("hget", t, ("hv",)))
        if not quick:
            out.append(("hget", t, ("hw",)))
        out.append(("ktime", t))
        if not bit:
            out.append(("iadd", t))
    out.append(("prandom", targets[0]))
    for h in (("hv",), ("hw",)):
        for s in sources:
            out.append(("hset", h, s))
        out.append(("hsetx", h, sources[-1]))
        out.append(("hsetr", h))
    # hash-map variable <- hash-map variable (the pointer of the source's
    # map value is handed to map_update_elem directly)
    out.append(("hset", ("hv",), ("hw",)))
    out.append(("hset", ("hw",), ("hv",)))
    if dictpos != "none":
        out.append(("dupd",))
        for m in ("vq", "vB"):
            out.append(("dlook", m, "set", True))
            out.append(("dlook", m, "iadd", False))
    return out


# (place, member of the looked-up value, access after the inner statement)
LOOKUP_QUICK = [("body", "vq", "set")]
LOOKUP_QUICK_HASHY = [("body", "vI", "get"), ("body", "vq", "iadd"),
                      ("else", "vq", "set")]
LOOKUP_THOROUGH = [("body", "vq", "set"), ("body", "vI", "get"),
                   ("else", "vq", "set")]
LOOKUP_THOROUGH_HASHY = [("body", "vq", "iadd"), ("body", "vB", "set"),
                         ("body", "vq", "get"), ("else", "vI", "get")]
LOOKUP_HIST = {True: [("body", "vq", "set")],
               False: [("body", "vq", "set"), ("else", "vq", "set")]}
HIST_QUICK = [("S", "pre"), ("S", "mid"), ("D", "pre")]
HIST_THOROUGH = [(k, o) for k in "ESD" for o in ("pre", "mid")]


STORAGE = dict(m="main", dk="dict", dv="dict", ga="arr", gb="arr", gf="arr",
               sa="arr", pv="pkt", pw="pkt", s="sub")


def uses_temporaries(st):
    """statements that take stack temporaries / save registers around a
    helper call: what a wrong idea of the frames of this instance breaks"""
    if st[0] == "in":
        return st[2][0] in HASHY
    return st[0] in HASHY or st[0] in ("dupd", "dlook")


def cases(shape, quick):
    """-> [(statement, history)]: every statement on a fresh class; on a
    shape with a Dict every statement also inside a lookup block; statements
    using temporaries (and one plain store, for the static observer) under
    every history of the main class"""
    plain = statements(shape, quick)
    wrapped = []
    if shape[1] != "none":
        for st in plain:
            if st[0] in ("dupd", "dlook", "hsetr"):
                # update/lookup take r0 themselves; with r0, r1 (context)
                # and an operand register taken, 'hashvar = register' is
                # always rejected there ("not enough registers")
                continue
            vs = LOOKUP_QUICK if quick else LOOKUP_THOROUGH
            if st[0] in HASHY:
                vs = vs + (LOOKUP_QUICK_HASHY if quick
                           else LOOKUP_THOROUGH_HASHY)
            wrapped += [("in", place, st, member, access)
                        for place, member, access in vs]
    out = [(st, None) for st in plain + wrapped]
    # under a history 'var = hashvar' goes to one target per kind of storage
    # (main frame, Dict areas, array map, packet, subprogram frame)
    reps = {}
    for st in plain:
        if st[0] == "hget":
            reps.setdefault(STORAGE[st[1][0]], st[1])
    withhist = [plain[0]] + [
        st for st in plain + wrapped if uses_temporaries(st)
        and (st[0] != "in" or st[1:2] + st[3:] in LOOKUP_HIST[quick])
        and ((st[2] if st[0] == "in" else st)[0] != "hget"
             or (st[2] if st[0] == "in" else st)[1] in reps.values())]
    for h in (HIST_QUICK if quick else HIST_THOROUGH):
        out += [(st, h) for st in withhist]
    return out


def seqs(alpha, lo, hi):
    for n in range(lo, hi + 1):
        yield from itertools.product(alpha, repeat=n)


def shapes(ctx):
    """family 1: main-frame centred; family 2: subprogram-frame centred"""
    out = []
    lmax = 2 if ctx.quick else 3
    for main in seqs(K_MAIN, 0, lmax):
        for dictpos in ("none", "first", "last"):
            if ctx.quick and len(main) == 2 and dictpos == "first" \
                    and (K_MAIN.index(main[0]) + ctx.seed) % 2:
                continue
            out.append((main, dictpos, (), ()))
            out.append((main, dictpos, (("I",),), (0,)))
    mains2 = [(), ("B",), ("I",), ("q",), ((3, 1),), ("q", "B")] \
        if not ctx.quick else [(), ("q",), ("q", "B")]
    seconds = [("I",), ("q", "B"), ("B",)] if not ctx.quick else [("q", "B")]
    for main in mains2:
        for dictpos in ("none", "last"):
            for a in seqs(K_SUB, 1, 2):
                if (main, dictpos, (a,), (0,)) not in out:
                    out.append((main, dictpos, (a,), (0,)))
                out.append((main, dictpos, (a,), (0, 0)))
                for b in seconds:
                    if ctx.quick and len(a) == 2 and \
                            (K_SUB.index(a[1]) + ctx.seed) % 2:
                        continue
                    out.append((main, dictpos, (a, b), (0, 1)))
    return out


def work(item, res):
    if item[0][0] == "bits":
        return bf_work(item, res)
    (shape, quick), base = item
    _stored.clear()
    for i, (st, hist) in enumerate(cases(shape, quick)):
        run_case(shape, st, hist, res, base + i)


def run(ctx):
    items = []
    base = 0
    for sh in shapes(ctx):
        items.append(((sh, ctx.quick), base))
        base += len(cases(sh, ctx.quick))
    nshapes = len(items)
    bf_n = bf_items_n = 0
    for kind, layouts in bf_items(ctx):
        # (ahead of the shapes: the larger items must not end the queue)
        items.insert(bf_items_n, (("bits", kind, layouts, ctx.quick,
                                   ctx.seed), base))
        bf_items_n += 1
        n = sum(1 for _ in bf_cases(kind, layouts, ctx.quick, ctx.seed))
        base += n
        bf_n += n
    res = core.pmap(ctx, work, items, chunk=2)
    res.cov["states"] = len(res.nontrivial)
    res.cov["traces_validated_against_impl"] = res.cov.get("evaluations", 0)
    res.cov["alphabet"] = dict(
        shapes=nshapes, programs_enumerated=base,
        bit_field_family_programs=bf_n,
        main_kinds=[fmtname(k) for k in K_MAIN],
        sub_kinds=[fmtname(k) for k in K_SUB],
        lookup_block=[list(v) for v in (
            LOOKUP_QUICK + LOOKUP_QUICK_HASHY if ctx.quick
            else LOOKUP_THOROUGH + LOOKUP_THOROUGH_HASHY)],
        histories=["-".join(h) for h in (HIST_QUICK if ctx.quick
                                         else HIST_THOROUGH)],
        history_instances=HISTS,
        bit_field_kinds=list(BF_KINDS),
        bit_field_layouts=dict(
            pkt=len(bf_layouts()), tvar=len(bf_layouts(single=True)),
            local_arr=len([x for x in bf_layouts()
                           if not ctx.quick or len(x) == 2])),
        bit_field_previous_bytes=bf_prevs(ctx.seed))
    res.sample(dict(shape=shape_json((("q",), "none", (("I",),), (0,))),
                    stmt=["hget", ["m", 0], ["hv"]], hist=None))
    res.sample(dict(shape=shape_json((("q",), "last", (("I",),), (0,))),
                    stmt=["in", "body", ["hset", ["hw"], ["hv"]], "vq",
                          "set"], hist=["S", "pre"]))
    res.sample(dict(family="bits", kind="pkt", layout=[[0, 3], [3, 4], [7, 1]],
                    written=1, value=["c", -1], previous_byte=0,
                    context="main", observer="dynamic"))
    res.assumptions += [
        "bit-field families: only the frame condition is judged (every bit "
        "of every other declared variable - the other fields sharing the "
        "byte, the neighbouring bytes, an unrelated local and array-map "
        "variable - keeps its value); what the written field holds "
        "afterwards (value reduced to the width; any non-zero constant sets "
        "a single bit) is counted, not judged (C01/C02).  Bits of the byte "
        "that belong to no declared field may change.  A value the "
        "generator rejects (a comparison for a field of several bits) is "
        "counted.  The TerminalVar kind uses the real TerminalVar and "
        "ebpfcat.ebpfcat.PacketVar descriptors on a stub device (ebpf, "
        "sync_group.current_data None, pdo_assign fixed)",
        "frames of different subprogram instances overlay each other by "
        "construction (pinned by the suite's test_local_subprog): subprogram "
        "locals are scratch, live only inside that instance's program(); a "
        "statement is judged in context 'main' (no subprogram local live) and "
        "in context 'sub k' (locals of instance k live).  Overlay pairs are "
        "counted, not alarmed",
        "changes are judged per byte: a bit-field variable owns its whole "
        "byte (each LocalVar/globalVar bit field is given a byte of its own)",
        "a statement that traps in the interpreter or is rejected by the "
        "generator is counted, not alarmed (loadability is C05's subject)",
        "registers are not declared variables; the operand registers r2/r3 "
        "and the map base registers are only observed through their effects",
        "inside a Dict lookup block the looked-up entry is a declared "
        "variable (its Structure members): the block may change the inner "
        "statement's target and the accessed member only; whether the "
        "member write itself stores the right value is not judged here "
        "(C01/C02), only that a member read after the inner statement "
        "delivers the entry's bytes.  update() and a nested lookup are not "
        "issued inside a lookup block (they take r0 themselves)",
        "histories: several instances of one program class with different "
        "subprogram lists are a supported use (ebpfcat.ebpfcat builds every "
        "FastSyncGroup this way); the other instance runs a fixed small "
        "program (hash-map read and write, stores to its subprograms' "
        "locals, a Dict lookup).  Under a history only statements that use "
        "stack temporaries or save registers are enumerated (hash-map "
        "variable reads with one target per kind of storage, all hash-map "
        "variable writes, Dict update/lookup, and these inside a lookup "
        "block), plus one plain store per shape",
    ]
    return res


def replay(ctx, rep):
    res = core.Result()
    c = rep["case"]
    if c.get("family") == "bits":
        _stored.clear()
        layout = tuple(tuple(f) for f in c["layout"])
        val = tuple(c["value"])
        prevs = bf_prevs(ctx.seed)
        if c["previous_byte"] not in prevs:
            prevs.append(c["previous_byte"])
        p = bf_run_case(c["kind"], layout, c["written"], val, prevs, res, 0)
        if p is not None:
            print("variables (region, byte, size, bits):", p.vars)
            print(bpfvm.disasm(p.insns[p.start:p.end]))
        return res.violations
    shape = shape_from(c["shape"])

    def tup(x):
        return tuple(tup(y) for y in x) if isinstance(x, list) else x
    stmt = tup(c["stmt"])
    hist = tup(c.get("hist"))
    run_case(shape, stmt, hist, res, 0)
    p = Prog(shape, stmt, hist)
    print("variables:", p.vars)
    print("main frame ends at r10%+d, statement = pcs [%d, %d), "
          "temporaries %s" % (p.main_stack, p.start, p.end, p.templog))
    print(bpfvm.disasm(p.insns[p.start:p.end]))
    return [v for v in res.violations
            if tup(core.jsonable(v["case"]["context"])) == tup(c["context"])
            and v["case"]["observer"] == c["observer"]]
