"""C03 - conditional blocks run exactly the branch the condition selects.

Bounded exhaustive enumeration of (condition tree, block structure) programs
x operand vectors.  Every program is written with the real DSL (`with cond as
Else: ... with Else: ...`), the assembled bytes are executed in the independent
interpreter (and, for a deterministic subset, by the kernel); every body and
Else body leaves markers (a flag byte, an ordered log of body ids, assignments)
made with *raw* instructions, a trailing marker proves that execution goes on
behind the construct.  The oracle evaluates the condition trees with exact
arithmetic on the planted operand values under the statement's width
precondition and interprets the abstract block structure.

Families: F1 one atom x all its boundary vectors; F2 trees of two and three
atoms x all truth assignments (F2s: atoms sharing a register); F3 block
structures (nested, sequenced, else-if chains, bodies that exit); F4 bit
fields: every comparison operator of a 1..4(5)-bit field at several bit
positions against every constant 0..2^bits and True/False, on every field value
with the other bits of the byte all 0 and all 1, alone (with, with/Else,
inverted) and as an operand of ~ & | trees; F5 variables declared with a
byte-order prefix (">H" ">I" ">h" "!i" "<H" "<I" ">q" "<q" ">B"; LocalVar,
PacketVar and ArrayMap variable) as left and right operand of the six
comparisons and of bit tests, against constants (small, >= 256 palindromic
and not, too big for the variable, negative), registers, other prefixed and
native variables, on values whose order changes when their bytes are
reversed - alone, in trees, nested blocks and else-if chains.  The bytes of
such a variable are planted as the format defines them for the number; the
reference compares the numbers.  F6 computed operands: `L <cmp> (A op B)` and
`(A op B) <cmp> L` for L in sw w sr r / i I h q, op in >> // % + - * &, A an
8-byte leaf (sr r q Q), B a small constant or another 8-byte leaf, all six
comparisons, on leaf values far beyond 32 bits whose result fits 32 bits again
(and on small ones); the compared values are L and the exact value of A op B.
"""
import contextlib
import itertools
import operator
import os
import struct
import traceback
from fractions import Fraction

from mc import bpfvm, core, dsl, kern
import ebpfcat.arraymap
from ebpfcat.arraymap import ArrayMap
from ebpfcat.ebpf import LocalVar
from ebpfcat.xdp import PacketVar
from harness.c01_intexpr import values_for, sx

PROP = "C03"
LEVEL = "model_checking"
RULE = ("programs = block structure (with / with+Else / nested / sequenced / "
        "else-if chains, body lengths 0..5, bodies that exit the program) x "
        "condition trees over the stated atom alphabet, with operands private "
        "to each atom and with one register shared by all atoms; "
        "each runs on every operand vector of its family (boundary pairs per "
        "atom, all 2^n truth assignments for trees and nested blocks); "
        "bit fields (1-bit and multi-bit, several positions) are compared "
        "with == != < <= > >= against every constant 0..2^bits, True and "
        "False (field left and right) on every field value x the other bits "
        "of the byte all 0 / all 1, in with, with/Else, ~ and as either "
        "operand of two-atom & | trees, judged by the exact integer "
        "comparison of the field value; variables with a byte-order prefix "
        "(big/network/little endian, 1..8 bytes, signed and unsigned; local, "
        "packet and array-map memory) are left and right operand of all six "
        "comparisons and of bit tests against constants (small, >= 256, "
        "byte-palindromic, too big, negative), registers and other prefixed "
        "/ native variables, on boundary pairs, on the constant's "
        "neighbours among the byte-reversed numbers and on an alphabet of "
        "numbers whose order changes under byte reversal (every ordering "
        "atom must have a vector that tells the two orders apart), judged "
        "by the comparison of the numbers the formats define; computed "
        "operands A op B (op in >> // % + - * &; A an 8-byte register or "
        "variable, signed and unsigned; B one of three small constants per "
        "operator or another 8-byte leaf) are compared, on either side and "
        "with all six operators, with sw w sr r registers and i I h q "
        "variables on leaf values beyond 32 bits (low half zero, low half "
        "small, bit 31 / bit 63 set, negative) x second operands that bring "
        "the result back into 32 bits x the other side on, just below and "
        "just above the exact result and at an end of its range, judged by "
        "comparing that side with the exact integer result; a case "
        "(program, vector) is non-trivial when the generator accepted the "
        "program and every compared value fits the narrowest width involved; "
        "distinct = distinct (program, vector)")

M64 = (1 << 64) - 1
FB = 100000
REGKIND = {"r": (8, False, False), "sr": (8, True, False),
           "w": (4, False, False), "sw": (4, True, False),
           "x": (8, True, True)}
FMT = {"B": (1, False, False), "b": (1, True, False),
       "H": (2, False, False), "h": (2, True, False),
       "I": (4, False, False), "i": (4, True, False),
       "Q": (8, False, False), "q": (8, True, False),
       "x": (8, True, True)}
CMP = {">": operator.gt, ">=": operator.ge, "<": operator.lt,
       "<=": operator.le, "!=": operator.ne, "==": operator.eq}

KF_NARROW = "C03-narrow-signed-right-operand-zero-extended"
KF_ELIF = "C03-bittest-else-in-elif-chain"

LOG_BITS = 6          # ids 1..63, ten entries before the log wraps
FLAG_SLOT0 = 3        # output slots: 0 log, 1 fv, 2 r5, 3.. flag bytes


# ------------------------------------------------------------------ operands
# ("reg", kind, n) ("loc", fmt, n) ("pkt", fmt, n) ("arr", fmt, n)
# ("bf", pos, bits, n) ("const", value)
#   loc = LocalVar, pkt = PacketVar, arr = ArrayMap.globalVar; their format
#   may carry a byte-order prefix (">H", "!i", "<q" ...): env[o] is always
#   the NUMBER the format defines for the variable's bytes
MEMKINDS = ("loc", "pkt", "arr")
PV_SLOTS = dsl.PV_AREA // 8


def is_var(o):
    return o[0] != "const"


# ("expr", op, A, B): a computed operand `A op B`; A and B are register /
# memory leaves or constants.  Its value is the exact integer result.
EXPR_OPS = {">>": operator.rshift, "//": operator.floordiv,
            "%": operator.mod, "+": operator.add, "-": operator.sub,
            "*": operator.mul, "&": operator.and_}


def leaves(o):
    """the variables an operand reads"""
    if o[0] == "expr":
        return leaves(o[2]) + leaves(o[3])
    return [o] if is_var(o) else []


def otype(o):
    """(size, signed, fixed) of a variable operand"""
    if o[0] == "expr":
        # as wide as its narrowest leaf, signed as soon as a leaf is signed
        # or a constant negative
        parts = [otype(x) if is_var(x) else (8, x[1] < 0, False)
                 for x in (o[2], o[3])]
        if any(f for _, _, f in parts):
            raise core.Internal(f"fixed-point leaf in {o!r}")
        return (min(sz for sz, _, _ in parts), any(sg for _, sg, _ in parts),
                False)
    if o[0] == "reg":
        return REGKIND[o[1]]
    if o[0] in MEMKINDS:
        return FMT[o[1][-1]]
    if o[0] == "bf":
        return (1, False, False)
    raise core.Internal(f"no type for {o!r}")


def prefixed(o):
    """a memory variable declared with a byte-order prefix"""
    return o[0] in MEMKINDS and len(o[1]) > 1


def planted(o, v):
    """the integer a little-endian store of the variable's size has to write
    so that the variable's bytes are those its format defines for value v"""
    if not prefixed(o):
        return v
    return int.from_bytes(struct.pack(o[1], v), "little")


def native_reading(o, v):
    """what the bytes of variable o (holding the number v) mean when they are
    read in the machine's byte order, i.e. without the swap the prefix asks
    for (used only to measure that the chosen values tell the two apart)"""
    if not prefixed(o):
        return v
    return struct.unpack("<" + o[1][-1], struct.pack(o[1], v))[0]


def cval(c):
    return Fraction(repr(c)) if isinstance(c, float) else c


def oval(o, env):
    """the mathematical value of an operand"""
    if o[0] == "const":
        return cval(o[1])
    if o[0] == "expr":
        a, b = oval(o[2], env), oval(o[3], env)
        if o[1] in ("//", "%") and b == 0:
            raise Outside("division by zero")
        if o[1] == ">>" and not 0 <= b < 64:
            raise Outside("shift count outside 0..63")
        return EXPR_OPS[o[1]](a, b)
    raw = env[o]
    if o[0] == "bf":
        return (raw >> o[1]) & ((1 << o[2]) - 1)
    if otype(o)[2]:
        return Fraction(raw, FB)
    return raw


class Outside(Exception):
    """outside the statement's precondition"""


def fit_params(ops):
    sizes = [otype(o)[0] for o in ops if is_var(o)]
    W = 32 if sizes and min(sizes) <= 4 else 64
    fixed = any(otype(o)[2] if is_var(o) else isinstance(o[1], float)
                for o in ops)
    signed = any(otype(o)[1] if is_var(o) else o[1] < 0 for o in ops)
    return W, fixed, signed


def check_fit(ops, vals):
    """strictest reading of 'the compared values fit the narrowest width
    involved': every value (scaled by 100000 as soon as one side is fixed)
    lies in the signed W-bit range if any side is signed, in the unsigned
    W-bit range if the comparison is purely unsigned"""
    W, fixed, signed = fit_params(ops)
    lo, hi = (-(1 << (W - 1)), 1 << (W - 1)) if signed else (0, 1 << W)
    for v in vals:
        if fixed:
            v = v * FB
        if isinstance(v, Fraction):
            if v.denominator != 1:
                raise Outside("more than five fractional digits")
            v = int(v)
        if not lo <= v < hi:
            raise Outside(f"value does not fit {W} bits")


# --------------------------------------------------------------- conditions
# atoms: ("cmp", op, L, R)  ("jset", L, M, form)  ("nz", L)  ("bit", bf, form)
# trees: atom | ("not", t) | ("and", t, t) | ("or", t, t)
ATOMS = ("cmp", "jset", "nz", "bit")


def atom_operands(a):
    if a[0] == "cmp":
        return [a[2], a[3]]
    if a[0] == "jset":
        return [a[1], a[2]]
    return [a[1]]


def tree_atoms(t, out=None):
    if out is None:
        out = []
    if t[0] in ATOMS:
        out.append(t)
    else:
        for s in t[1:]:
            tree_atoms(s, out)
    return out


def atom_eval(a, env):
    k = a[0]
    if k == "cmp":
        l, r = oval(a[2], env), oval(a[3], env)
        check_fit((a[2], a[3]), (l, r))
        return CMP[a[1]](l, r)
    if k == "jset":
        l, m = oval(a[1], env), oval(a[2], env)
        check_fit((a[1], a[2]), (l, m))
        if isinstance(l, Fraction) or isinstance(m, Fraction):
            raise Outside("bit test of a fixed-point value")
        return ((l & m) != 0) != (a[3] == "eq0")
    if k == "nz":
        l = oval(a[1], env)
        check_fit((a[1],), (l,))
        return l != 0
    if k == "bit":
        return (oval(a[1], env) != 0) != (a[2] in ("inv", "eq0"))
    raise core.Internal(f"bad atom {a!r}")


def tree_eval(t, env, atomfn=atom_eval):
    if t[0] == "not":
        return not tree_eval(t[1], env, atomfn)
    if t[0] == "and":
        a, b = tree_eval(t[1], env, atomfn), tree_eval(t[2], env, atomfn)
        return a and b
    if t[0] == "or":
        a, b = tree_eval(t[1], env, atomfn), tree_eval(t[2], env, atomfn)
        return a or b
    return atomfn(t, env)


# ------------------------------------------------------- abstract programs
# stmt: ("m", id, L) | ("if", tree, body, els)     els: None or list of stmt
#   L=0 nothing, 1 flag byte, 2 log entry, 3 flag+log, 4 +fv=id, 5 +r5=id
#   ("x", id): flush the markers and `exit(64 + id)`; the program's return
#   value tells which body left the program (2 = ran to the end)
#   ("chain", [(tree, body), ...], final): else-if chain
#       with t1 as Else: b1 / with Else, t2 as Else: b2 / ... / with Else: final
EXIT_BASE = 64
RET_END = 2


def sub_bodies(s):
    """the statement lists nested in one statement"""
    if s[0] == "if":
        return [s[2]] + ([s[3]] if s[3] is not None else [])
    if s[0] == "chain":
        return [b for _, b in s[1]] + ([s[2]] if s[2] is not None else [])
    return []


def stmts_trees(stmts, out=None):
    if out is None:
        out = []
    for s in stmts:
        if s[0] == "if":
            out.append(s[1])
        elif s[0] == "chain":
            out.extend(t for t, _ in s[1])
        for b in sub_bodies(s):
            stmts_trees(b, out)
    return out


def stmts_markers(stmts, out=None):
    """all ("m", ...) and ("x", ...) statements"""
    if out is None:
        out = []
    for s in stmts:
        if s[0] in ("m", "x"):
            out.append(s)
        for b in sub_bodies(s):
            stmts_markers(b, out)
    return out


class Exited(Exception):
    pass


def interpret(stmts, truth, st, top=True):
    """st = [log, fv, r5, set(flags), return value]"""
    try:
        for s in stmts:
            if s[0] == "m":
                _, i, L = s
                if L in (1, 3, 4, 5):
                    st[3].add(i)
                if L >= 2:
                    st[0] = ((st[0] << LOG_BITS) | i) & M64
                if L >= 4:
                    st[1] = i
                if L >= 5:
                    st[2] = i
            elif s[0] == "x":
                st[4] = EXIT_BASE + s[1]
                raise Exited()
            elif s[0] == "chain":
                for tree, body in s[1]:
                    if truth(tree):
                        interpret(body, truth, st, False)
                        break
                else:
                    if s[2] is not None:
                        interpret(s[2], truth, st, False)
            elif truth(s[1]):
                interpret(s[2], truth, st, False)
            elif s[3] is not None:
                interpret(s[3], truth, st, False)
    except Exited:
        if not top:
            raise
    return st


def fresh_state():
    return [0, 0, 0, set(), RET_END]


class FakeMaps:
    """array maps created by ebpfcat land in an interpreter Kernel (C05 puts
    its own class with real kernel maps here)"""

    def __init__(self):
        self.kernel = bpfvm.Kernel()
        self.created = []

    def restart(self):
        pass

    def create_map(self, map_type, key_size, value_size, max_entries,
                   attributes=None):
        fd = 100 + len(self.created)
        self.kernel.maps[fd] = bpfvm.BpfMap(
            map_type.value, key_size, value_size, max_entries)
        self.created.append(fd)
        return fd

    def mmap(self, fd, size):
        return self.kernel.maps[fd].area

    @contextlib.contextmanager
    def bound(self):
        am = ebpfcat.arraymap
        old = am.create_map, am.mmap
        am.create_map, am.mmap = self.create_map, self.mmap
        try:
            yield self
        finally:
            am.create_map, am.mmap = old


class ExitCode:
    """stands in for an XDPExitCode member"""
    def __init__(self, value):
        self.value = value


class Prog:
    """one compiled abstract program; variable operand i comes from slot i"""

    def __init__(self, stmts):
        self.stmts = stmts
        ops = []
        for t in stmts_trees(stmts):
            for a in tree_atoms(t):
                for o in atom_operands(a):
                    for leaf in leaves(o):
                        if leaf not in ops:
                            ops.append(leaf)
        self.ops = ops
        marks = stmts_markers(stmts)
        self.has_exit = any(m[0] == "x" for m in marks)
        ids = [m[1] for m in marks]
        if len(set(ids)) != len(ids) or (ids and not 0 < min(ids) <= max(ids)
                                         < (1 << LOG_BITS)):
            raise core.Internal(f"bad marker ids {ids}")
        self.maxid = max(ids) if ids else 0
        self.use_r5 = any(m[0] == "m" and m[2] >= 5 for m in marks)
        attrs = {"fv": LocalVar("I")}
        self.names = {}
        self.pktoff = {}
        self.uses_map = any(o[0] == "arr" for o in ops)
        if self.uses_map:
            amap = attrs["amap"] = ArrayMap()
        for i, o in enumerate(ops):
            if o[0] == "loc":
                self.names[o] = f"v{i}"
                attrs[f"v{i}"] = LocalVar(o[1])
            elif o[0] == "pkt":
                if len(self.pktoff) >= PV_SLOTS:
                    raise core.Internal("packet variable slots exhausted")
                self.names[o] = f"v{i}"
                self.pktoff[o] = 8 * len(self.pktoff)
                attrs[f"v{i}"] = PacketVar(self.pktoff[o], o[1])
            elif o[0] == "arr":
                self.names[o] = f"v{i}"
                attrs[f"v{i}"] = amap.globalVar(o[1])
            elif o[0] == "bf":
                self.names[o] = f"v{i}"
                attrs[f"v{i}"] = LocalVar((o[1], o[2]))
        n_out = FLAG_SLOT0 + (self.maxid + 8) // 8
        self.fake = None
        if self.uses_map:
            # the map is looked up (r7 = address of its value) by the code
            # the generator emits in front of the harness' preamble
            self.fake = FakeMaps()
            with self.fake.bound():
                b = self.b = dsl.Builder(attrs, n_in=max(1, len(ops)),
                                         n_out=n_out)
        else:
            b = self.b = dsl.Builder(attrs, n_in=max(1, len(ops)),
                                     n_out=n_out)
        e = b.e
        e.owners.discard(1)            # ctx is not needed any more
        b.raw(0xb7, 6, 0, 0, 0)        # r6 = 0, the log
        e.owners.add(6)
        fv = b.cls.__dict__["fv"].relative_addr
        b.raw(0x62, 10, 0, fv, 0)      # fv = 0
        pool = [2, 3, 4, 8] if self.uses_map else [2, 3, 4, 7, 8]
        if self.use_r5:
            b.raw(0xb7, 5, 0, 0, 0)
            e.owners.add(5)
        else:
            pool.insert(3, 5)
        self.regno = {}
        for i, o in enumerate(ops):     # memory first: planting uses r0
            if o[0] in ("loc", "bf"):
                b.plant_local(self.names[o], i)
            elif o[0] == "pkt":
                b.plant_mem(9, self.pktoff[o], otype(o)[0], i)
            elif o[0] == "arr":
                b.plant_mem(ArrayMap.base_register,
                            e.__dict__[self.names[o]], otype(o)[0], i)
        for i, o in enumerate(ops):
            if o[0] == "reg":
                if not pool:
                    raise core.Internal("operand registers exhausted")
                no = pool.pop(0)
                self.regno[o] = no
                b.plant_reg(no, i, long=REGKIND[o[1]][0] == 8)
        self.flag_off = b.out_off + 8 * FLAG_SLOT0
        self.emit(stmts)
        self.flush()
        b.finish(RET_END)
        self.malformed = None
        try:
            b.code()
        except bpfvm.Trap as t:      # the assembled bytes do not decode
            self.malformed = str(t)

    def flush(self):
        b = self.b
        b.out_reg(6, 0)
        b.out_local("fv", 1)
        if self.use_r5:
            b.out_reg(5, 2)

    # -------------------------------------------------- DSL side
    def mk_op(self, o):
        e = self.b.e
        if o[0] == "const":
            return o[1]
        if o[0] == "expr":
            return EXPR_OPS[o[1]](self.mk_op(o[2]), self.mk_op(o[3]))
        if o[0] == "reg":
            return getattr(e, o[1])[self.regno[o]]
        return getattr(e, self.names[o])

    def mk(self, t):
        k = t[0]
        if k == "not":
            return ~self.mk(t[1])
        if k == "and":
            return self.mk(t[1]) & self.mk(t[2])
        if k == "or":
            return self.mk(t[1]) | self.mk(t[2])
        if k == "cmp":
            return CMP[t[1]](self.mk_op(t[2]), self.mk_op(t[3]))
        if k == "jset":
            x = self.mk_op(t[1]) & self.mk_op(t[2])
            if t[3] == "with":
                return x
            return (x != 0) if t[3] == "ne0" else (x == 0)
        if k == "nz":
            return self.mk_op(t[1])
        if k == "bit":
            x = self.mk_op(t[1])
            return {"bare": lambda: x, "inv": lambda: ~x,
                    "ne0": lambda: x != 0, "eq0": lambda: x == 0}[t[2]]()
        raise core.Internal(f"bad tree {t!r}")

    def marker(self, i, L):
        b, e = self.b, self.b.e
        if L in (1, 3, 4, 5):
            b.raw(0x72, 9, 0, self.flag_off + i, 1)
        if L >= 2:
            b.raw(0x67, 6, 0, 0, LOG_BITS)
            b.raw(0x47, 6, 0, 0, i)
        if L >= 4:
            e.fv = i
        if L >= 5:
            e.r5 = i

    def emit(self, stmts):
        e = self.b.e
        for s in stmts:
            if s[0] == "m":
                self.marker(s[1], s[2])
                continue
            if s[0] == "x":
                self.flush()             # raw; the body then ends in EXIT
                e.exit(ExitCode(EXIT_BASE + s[1]))
                continue
            if s[0] == "chain":
                links, final = s[1], s[2]
                with self.mk(links[0][0]) as Else:
                    self.emit(links[0][1])
                for tree, body in links[1:]:
                    with Else, self.mk(tree) as Else:
                        self.emit(body)
                if final is not None:
                    with Else:
                        self.emit(final)
                continue
            _, tree, body, els = s
            cond = self.mk(tree)
            if els is None:
                with cond:
                    self.emit(body)
            else:
                with cond as Else:
                    self.emit(body)
                with Else:
                    self.emit(els)

    # -------------------------------------------------- running
    def inputs(self, env):
        out = []
        for o in self.ops:
            v = env[o]
            if o[0] == "reg" and REGKIND[o[1]][0] == 4:
                v &= 0xffffffff        # the state a 32-bit write leaves
            out.append(planted(o, v) & M64)
        return out

    def observe(self, outs, pkt, ret=RET_END):
        flags = {i for i in range(1, self.maxid + 1)
                 if pkt[self.flag_off + i]}
        for i in range(self.flag_off, len(pkt)):
            if pkt[i] not in (0, 1) or (pkt[i] and
                                        i - self.flag_off > self.maxid):
                flags.add(("garbage", i - self.flag_off, pkt[i]))
        return [outs[0], outs[1] & 0xffffffff,
                outs[2] if self.use_r5 else 0, flags, ret]


REJECTIONS = ("AssembleError", "TypeError", "error", "NotImplementedError")


def build(stmts, res, family=""):
    """-> Prog or None (rejected by the generator)"""
    try:
        return Prog(stmts)
    except core.Internal:
        raise
    except Exception as ex:
        tb = traceback.extract_tb(ex.__traceback__)
        inside = bool(tb) and "/ebpfcat/" in tb[-1].filename
        if not inside and not (isinstance(ex, TypeError) and tb[-1].name in
                               ("mk", "mk_op", "emit", "<lambda>")):
            raise core.Internal(
                f"harness error while building {stmts!r}: {ex!r} "
                f"at {tb[-1].filename}:{tb[-1].lineno}")
        name = type(ex).__name__
        if name in REJECTIONS:
            # a deliberate refusal: the property is about accepted programs
            res.count("rejected_by_generator")
            res.outcomes.add("rejected:" + name)
            return None
        # an internal error of the generator (failed assertion about a jump
        # placeholder, missing attribute, index error ...) while writing a
        # form the statement quantifies over
        kf = None
        if has_chain(stmts):
            # the stale indices of KF_ELIF can also make the generator trip
            with no_splice():
                try:
                    Prog(stmts)
                    kf = KF_ELIF
                except Exception:
                    pass
        res.count("generator_crashed")
        res.outcomes.add(("crashed:" + name, str(kf)))
        res.violation(dict(stmts=stmts, family=family, env=[]),
                      "program is generated (or refused with AssembleError/"
                      "TypeError)", f"{name}: {ex} at "
                      f"{os.path.basename(tb[-1].filename)}:{tb[-1].name}",
                      kf=kf, sig=core.digest(["crash", name, tb[-1].name,
                                              shape_stmts(stmts), str(kf)]),
                      note="generator crashes with an internal error on a "
                           "form the statement covers")
        return None


# ------------------------------------------------------------- defect model
def narrow_signed_zx(a, env):
    """defect model for KF_NARROW: in a comparison whose left side is 64 bit
    wide (8-byte registers/variables; bit fields, which the generator also
    treats as 64 bit) a *negative* 1..4 byte signed right operand takes part
    as its zero-extended 32-bit pattern - a `sw` register always, a b/h/i
    memory variable when the left side is unsigned.
    -> truth value the defect predicts, or None if the atom is not affected"""
    if a[0] != "cmp":
        return None
    L, R = a[2], a[3]
    if not (is_var(L) and is_var(R)):
        return None
    lsize, lsigned, _ = otype(L)
    rsize, rsigned, rfixed = otype(R)
    if not (lsize == 8 or L[0] == "bf"):
        return None
    if not (rsigned and rsize <= 4 and not rfixed and env[R] < 0):
        return None
    if lsigned and R[0] != "reg":
        return None
    return CMP[a[1]](oval(L, env), env[R] & 0xffffffff)


# ------------------------------------------------------------------ running
def envj(env):
    return [[list(k), v] for k, v in env.items()]


def shape_op(o):
    if o[0] == "const":
        v = o[1]
        return ("const", "float" if isinstance(v, float) else
                "neg" if v < 0 else "big" if v >= 2 ** 31 else "small")
    if o[0] == "expr":
        return ("expr", o[1], shape_op(o[2]), shape_op(o[3]))
    return o[:-1]


def shape_tree(t):
    if t[0] == "cmp":
        return ("cmp", t[1], shape_op(t[2]), shape_op(t[3]))
    if t[0] == "jset":
        return ("jset", shape_op(t[1]), shape_op(t[2]), t[3])
    if t[0] == "nz":
        return ("nz", shape_op(t[1]))
    if t[0] == "bit":
        return ("bit", shape_op(t[1]), t[2])
    return (t[0],) + tuple(shape_tree(s) for s in t[1:])


def shape_stmts(stmts):
    out = []
    for s in stmts:
        if s[0] == "m":
            out.append(("m", s[2]))
        elif s[0] == "x":
            out.append(("x",))
        elif s[0] == "chain":
            out.append(("chain", [(shape_tree(t), shape_stmts(b))
                                  for t, b in s[1]],
                        None if s[2] is None else shape_stmts(s[2])))
        else:
            out.append(("if", shape_tree(s[1]), shape_stmts(s[2]),
                        None if s[3] is None else shape_stmts(s[3])))
    return out


@contextlib.contextmanager
def no_splice():
    """defect model for KF_ELIF: the generator with bit tests using the
    generic Else (jump over the Else block) instead of moving the Else block
    in front of the body afterwards, which leaves stale instruction indices
    and jump offsets in the other links of an else-if chain (the checked run
    never uses this)"""
    import ebpfcat.ebpf as eb
    orig = eb.AndComparison.Else
    eb.AndComparison.Else = eb.Comparison.Else
    try:
        yield
    finally:
        eb.AndComparison.Else = orig


def has_chain(stmts):
    return any(s[0] == "chain" or any(has_chain(b) for b in sub_bodies(s))
               for s in stmts)


def execute(p, env):
    """-> (observation or None, trap or None, vm steps)"""
    if p.malformed:
        return None, "malformed program: " + p.malformed, 0
    try:
        ret, outs, pkt, vm = p.b.run_vm(
            p.inputs(env), kernel=p.fake.kernel if p.fake else None)
        return p.observe(outs, pkt, ret), None, vm.steps
    except bpfvm.Trap as t:
        return None, str(t), 0


def run_prog(stmts, envs, res, kernel=False, family=""):
    p = build(stmts, res, family)
    if p is None:
        return
    res.count("programs")
    trees = stmts_trees(stmts)
    atoms = [a for t in trees for a in tree_atoms(t)]
    case = dict(stmts=stmts, family=family)
    kfd = None
    # a body that leaves the program makes the generator emit an
    # unreachable jump which the verifier refuses (C05's finding): such
    # programs are judged in the interpreter only
    if kernel and kern.available() and not p.has_exit and not p.malformed \
            and not p.uses_map:
        try:
            kfd = p.b.load_kernel()
        except kern.LoadError:
            res.count("kernel_rejected")
    pfix = []          # lazily: the program from the KF_ELIF generator
    try:
        for env in envs:
            res.count("evaluations")
            try:
                truth = {a: atom_eval(a, env) for a in atoms}
                outside = None
            except Outside as ex:
                truth, outside = None, str(ex)
            obs, trap, steps = execute(p, env)
            res.count("transitions", steps)
            if kfd is not None and trap is None:
                res.count("kernel_validated")
                kret, kouts, kpkt = p.b.run_kernel(kfd, p.inputs(env))
                kobs = p.observe(kouts, kpkt, kret)
                if kobs != obs:
                    raise core.Internal(
                        f"VM/kernel disagreement on {case} env={env}: "
                        f"vm={obs} kernel={kobs}")
            if outside is not None:
                res.count("outside_precondition")
                continue
            exp = interpret(stmts, lambda t: tree_eval(
                t, env, lambda a, _e: truth[a]), fresh_state())
            res.nontrivial.add(core.digest([stmts, envj(env)]))
            res.count("checked")
            if obs == exp:
                res.outcomes.add(("ok", tuple(sorted(exp[3], key=repr))
                                  [:3], exp[0] & 63, exp[4] != RET_END))
                continue
            # ---- wrong branch / trap: exactly the documented defects?
            kf = None
            pred = {a: narrow_signed_zx(a, env) for a in atoms}
            hit = [a for a in atoms if pred[a] is not None
                   and pred[a] != truth[a]]
            exp2 = None
            if hit:
                # each affected atom may or may not be reached; the defect
                # predicts the observation with all affected atoms deviating
                t2 = dict(truth)
                for a in hit:
                    t2[a] = pred[a]
                exp2 = interpret(stmts, lambda t: tree_eval(
                    t, env, lambda a, _e: t2[a]), fresh_state())
                if exp2 == obs:
                    kf = KF_NARROW
            if kf is None and has_chain(stmts):
                if not pfix:
                    with no_splice():
                        pfix.append(build(stmts, core.Result(), family))
                if pfix[0] is not None:
                    obs3 = execute(pfix[0], env)[0]
                    if obs3 is not None and obs3 == exp:
                        kf = KF_ELIF
                    elif obs3 is not None and obs3 == exp2:
                        kf = [KF_ELIF, KF_NARROW]
            if trap is not None:
                res.outcomes.add(("trap", str(kf)))
                res.violation(dict(case, env=envj(env)), fmt_obs(exp), trap,
                              kf=kf, sig=core.digest(
                                  ["trap", shape_stmts(stmts), str(kf)]),
                              note="generated program traps")
                continue
            res.outcomes.add(("wrong", str(kf)))
            res.violation(dict(case, env=envj(env)), fmt_obs(exp),
                          fmt_obs(obs), kf=kf,
                          sig=core.digest([shape_stmts(stmts), str(kf)]),
                          note="wrong branch taken / markers differ")
    finally:
        if kfd is not None:
            os.close(kfd)


def fmt_obs(o):
    log, ids = o[0], []
    while log:
        ids.append(log & ((1 << LOG_BITS) - 1))
        log >>= LOG_BITS
    return dict(log=ids[::-1], fv=o[1], r5=o[2],
                flags=sorted(o[3], key=repr), ret=o[4])


# ------------------------------------------------------------ operand values
def uniq(xs):
    out = []
    for x in xs:
        if x not in out:
            out.append(x)
    return out


def rng(o):
    size, signed, _ = otype(o)
    bits = 8 * size
    return (-(1 << (bits - 1)), (1 << (bits - 1)) - 1) if signed \
        else (0, (1 << bits) - 1)


def dom(o, seed, small):
    import random
    if o[0] == "bf":
        pos, bits = o[1], o[2]
        m = ((1 << bits) - 1) << pos
        return uniq([0, 0xff, m, 0xff ^ m, 1 << pos, 1 << (pos + bits - 1),
                     0x55, 0xaa, (5 << pos) & m | (0xff ^ m)])
    size, signed, fixed = otype(o)
    if fixed:
        rnd = random.Random(seed * 77 + 5)
        vs = [0, 1, -1, FB, -FB, 99999, 350000, 250000, -250000, 5 * FB,
              (1 << 31) * FB, (1 << 63) - 1, -(1 << 63),
              rnd.randrange(-10 ** 9, 10 ** 9)]
        return vs[:9] + vs[-2:] if small else vs
    if prefixed(o):
        return uniq(bswap_values(size, signed)
                    + values_for(size, signed, seed, small))
    return values_for(size, signed, seed, small)


def bswap_values(size, signed):
    """numbers of that width whose order (among each other and relative to
    small numbers) changes when their bytes are reversed"""
    if size == 1:
        return []
    bits = 8 * size
    seq = bytes(range(1, size + 1))
    vs = [int.from_bytes(seq, "big"), int.from_bytes(seq, "little"),
          0xff, 0xff << (bits - 8), 0x100, 1 << (bits - 8),
          int("01" * size, 16), 0x0150, 0x7f << (bits - 8)]
    return uniq([sx(v, bits) if signed else v for v in vs])


def swapped_number(fmt, v):
    """the number whose bytes (in format fmt) are those of v reversed, or
    None if v does not fit"""
    try:
        return struct.unpack("<" + fmt[-1], struct.pack(fmt, v))[0]
    except struct.error:
        return None


def native_truth(a, env):
    """the comparison as it comes out when the bytes of prefixed variables
    are read in machine order and a constant partner is byte-swapped to
    match (the 'saved swap' that is right for == and !=, wrong for the
    ordering operators)"""
    L, R = a[2], a[3]
    vals = []
    for o, other in ((L, R), (R, L)):
        if is_var(o):
            vals.append(native_reading(o, env[o]) if not otype(o)[2]
                        else env[o])
        elif is_var(other) and prefixed(other) and isinstance(o[1], int) \
                and swapped_number(other[1], o[1]) is not None:
            vals.append(swapped_number(other[1], o[1]))
        else:
            vals.append(cval(o[1]))
    return CMP[a[1]](vals[0], vals[1])


def order_sensitive(a, env):
    """does the operand vector tell the numeric order from the order of the
    byte-reversed numbers?"""
    if a[0] != "cmp" or a[1] in ("==", "!="):
        return False
    try:
        return atom_eval(a, env) != native_truth(a, env)
    except Outside:
        return False


def raw_for(o, v, d):
    """raw content of o whose value is v (dropped to o's grid) + d units, or
    None if o cannot hold it"""
    if o[0] == "bf":
        pos, bits = o[1], o[2]
        f = v.__floor__() + d
        if not 0 <= f < (1 << bits):
            return None
        other = 0xff ^ (((1 << bits) - 1) << pos)
        return (f << pos) | (other if d == 0 else 0)
    if otype(o)[2]:
        raw = (v * FB).__floor__() + d
    else:
        raw = v.__floor__() + d
    lo, hi = rng(o)
    return raw if lo <= raw <= hi else None


def cands(a, seed, small):
    """operand vectors for one atom: boundary pairs first (equal, off by one
    either side), then the product of the operand alphabets"""
    out = []
    ops = [o for o in atom_operands(a) if is_var(o)]
    ops = uniq(ops)
    if a[0] == "cmp" and len(ops) == 2:
        L, R = a[2], a[3]
        dl, dr = dom(L, seed, small), dom(R, seed, small)
        for x in dl:
            for d in (0, -1, 1):
                y = raw_for(R, oval(L, {L: x}), d)
                if y is not None:
                    out.append({L: x, R: y})
        for y in dr:
            for d in (0, -1, 1):
                x = raw_for(L, oval(R, {R: y}), d)
                if x is not None:
                    out.append({L: x, R: y})
        if prefixed(L) or prefixed(R):
            k = 6 if small else 9
            dl, dr = dl[:k], dr[:k]
        out += [{L: x, R: y} for x in dl for y in dr]
    elif a[0] == "cmp":
        (V,) = ops
        C = a[3] if a[2] is V or a[2] == V else a[2]
        if not is_var(C):
            c = cval(C[1])
            for d in (0, -1, 1):
                x = raw_for(V, c, d)
                if x is not None:
                    out.append({V: x})
            if prefixed(V) and isinstance(c, int):
                # the neighbours of the constant among the byte-reversed
                # numbers, and one step in the most significant byte
                lo, hi = rng(V)
                top = 1 << (8 * otype(V)[0] - 8)
                sc = swapped_number(V[1], c)
                near = [c + top, c - top]
                if sc is not None:
                    near += [sc, sc + 1, sc - 1]
                    near += [swapped_number(V[1], y) for y in (sc + 1, sc - 1)
                             if lo <= y <= hi]
                out += [{V: x} for x in near if x is not None
                        and lo <= x <= hi]
        out += [{V: x} for x in dom(V, seed, small)]
    elif a[0] == "jset" and len(ops) == 2:
        L, M = a[1], a[2]
        lo, hi = rng(M)
        ms = [m for m in (1, 0x80, 0, hi, lo, 0x8000, 6) if lo <= m <= hi]
        out += [{L: x, M: m} for m in uniq(ms) for x in dom(L, seed, small)]
    elif a[0] == "jset":
        (V,) = ops
        C = a[2] if is_var(a[1]) else a[1]
        lo, hi = rng(V)
        m = C[1]
        xs = [m, ~m, m & -m, 0, m - 1, m + 1, m << 1, m >> 1]
        bits = 8 * otype(V)[0]
        for x in xs:
            x &= (1 << bits) - 1
            out.append({V: sx(x, bits) if otype(V)[1] else x})
        out += [{V: x} for x in dom(V, seed, small)]
    else:
        (V,) = ops
        out += [{V: x} for x in dom(V, seed, small)]
    res = []
    for env in out:
        if env not in res:
            res.append(env)
    if a[0] == "cmp" and any(prefixed(o) for o in ops):
        # vectors that tell the numeric order from the byte-reversed one
        # first: trees and blocks take their values from the head of the list
        res.sort(key=lambda env: not order_sensitive(a, env))
    return res


def pick(a, seed):
    """-> (envs making the atom true, envs making it false), inside the
    precondition, boundary pairs first"""
    t, f = [], []
    for env in cands(a, seed, True):
        try:
            (t if atom_eval(a, env) else f).append(env)
        except Outside:
            pass
    return t, f


def truth_vectors(atoms, seed, per=1):
    """all 2^n truth assignments over the atoms (each with its own operands);
    `per` different operand choices per assignment"""
    picks = [pick(a, seed) for a in atoms]
    n = len(atoms)
    for k in range(per):
        for bits in itertools.product((True, False), repeat=n):
            env = {}
            ok = True
            for i, (a, want) in enumerate(zip(atoms, bits)):
                lst = picks[i][0 if want else 1]
                if not lst:
                    ok = False
                    break
                env.update(lst[(k * 3 + sum(bits[:i])) % len(lst)])
            if ok:
                yield env


def shared_values(o):
    """values of an operand that several atoms use: a negative one first"""
    size, signed, fixed = otype(o)
    if fixed:
        return [-250000, 350000]
    if o[0] == "bf":
        return [0xff, 0]
    return [-5, 7] if signed else [7, 0]


def truth_vectors_shared(atoms, seed, per=1):
    """like truth_vectors, for atoms that share operands: every value vector
    of the shared operands x every truth assignment that the private
    operands can still produce"""
    count = {}
    for a in atoms:
        for o in uniq([o for o in atom_operands(a) if is_var(o)]):
            count[o] = count.get(o, 0) + 1
    shared = [o for o in count if count[o] > 1]
    if not shared:
        yield from truth_vectors(atoms, seed, per)
        return
    for svals in itertools.product(*[shared_values(o) for o in shared]):
        fixed = dict(zip(shared, svals))
        opts = []
        for a in atoms:
            ops = uniq([o for o in atom_operands(a) if is_var(o)])
            priv = [o for o in ops if o not in fixed]
            if len(priv) == len(ops):
                opts.append(pick(a, seed))
                continue
            t, f = [], []
            if not priv:
                cand = [{}]
            else:
                (P,) = priv
                vals = []
                if a[0] == "cmp":
                    other = a[3] if a[2] == P else a[2]
                    for d in (0, -1, 1):
                        v = raw_for(P, oval(other, fixed), d)
                        if v is not None:
                            vals.append(v)
                vals += dom(P, seed, True)
                cand = [{P: v} for v in uniq(vals)]
            for c in cand:
                try:
                    (t if atom_eval(a, {**fixed, **c}) else f).append(c)
                except Outside:
                    pass
            opts.append((t, f))
        n = len(atoms)
        for k in range(per):
            for bits in itertools.product((True, False), repeat=n):
                env = dict(fixed)
                for i, want in enumerate(bits):
                    lst = opts[i][0 if want else 1]
                    if not lst:
                        break
                    env.update(lst[(k * 3 + sum(bits[:i])) % len(lst)])
                else:
                    yield env


# ------------------------------------------------------------------ families
def with_forms(tree, lens):
    """single-block programs around one condition tree"""
    for lw, le in lens:
        if le is None:
            yield [("if", tree, body(1, lw), None), ("m", 9, 3)]
        else:
            yield [("if", tree, body(1, lw), body(2, le)), ("m", 9, 3)]


def body(i, L):
    return [] if L == 0 else [("m", i, L)]


ALL_LENS = [(lw, le) for lw in (0, 1, 3, 5) for le in (None, 0, 1, 3, 5)]
FEW_LENS = [(3, None), (3, 3), (1, 0), (0, 1), (3, 1), (1, 3)]


def atom_alphabet(ctx):
    import random
    rnd = random.Random(ctx.seed + 3)
    regs = [("reg", k, 0) for k in ("r", "sr", "w", "sw", "x")]
    if ctx.quick:
        locs = [("loc", f, 0) for f in "BhiQqx"]
        bfs = [("bf", 0, 1, 0), ("bf", 2, 3, 0)]
        consts = [0, 5, -1, 0x80000000, 0x1234567890, -(1 << 40), 3.5, -2.5]
        lconsts = [5, -1, 3.5]
    else:
        locs = [("loc", f, 0) for f in "BbHhIiQqx"]
        bfs = [("bf", 0, 1, 0), ("bf", 7, 1, 0), ("bf", 2, 3, 0),
               ("bf", 4, 4, 0)]
        consts = [0, 1, 5, -1, 0x7fffffff, -0x80000000, 0x80000000,
                  0xffffffff, 0x1234567890, -(1 << 40), (1 << 63) - 1,
                  -(1 << 63), 3.5, -2.5, 0.5]
        lconsts = [5, -1, 0x90000000, 3.5]
    consts += [rnd.getrandbits(31), -rnd.getrandbits(40)]
    V = regs + locs + bfs
    atoms = []
    for op in CMP:
        for L in V:
            for R in V:
                R2 = R[:-1] + (1,)
                atoms.append(("cmp", op, L, R2))
            for c in consts:
                atoms.append(("cmp", op, L, ("const", c)))
            for c in lconsts:
                atoms.append(("cmp", op, ("const", c), L))
    intv = [o for o in regs + locs if not otype(o)[2]]
    masks = [1, 0x80, 6, 0x7fffffff, 0x80000000, 0xffffffff, -8,
             1 << 40, 1 << 63]
    if ctx.quick:
        masks = [1, 0x80, 0x80000000, -8, 1 << 40]
    jsets = []
    for L in intv:
        for form in ("with", "ne0", "eq0"):
            for m in masks:
                jsets.append(("jset", L, ("const", m), form))
            for M in (("reg", "r", 1), ("reg", "w", 1), ("loc", "B", 1),
                      ("loc", "h", 1)):
                jsets.append(("jset", L, M, form))
        jsets.append(("jset", ("const", 5), L, "ne0"))
    nz = [("nz", o) for o in V]
    bits = [("bit", o, f) for o in bfs for f in ("bare", "inv", "ne0", "eq0")]
    return atoms, jsets, nz, bits


def bare(a):
    """forms that are Expressions, not Comparisons: only usable directly in
    a with statement"""
    return a[0] == "nz" or (a[0] == "jset" and a[3] == "with") or \
        (a[0] == "bit" and a[2] == "bare")


def work_atom(item, res):
    """family F1: one atom, all its boundary vectors, in three settings"""
    a, seed, quick, kernel = item
    envs = cands(a, seed, quick)
    progs = list(with_forms(a, [(3, None), (3, 3)]))
    if not bare(a):
        progs += list(with_forms(("not", a), [(1, 3)]))
    else:
        progs += list(with_forms(a, [(0, 1), (5, 0), (1, 5)]))
    for k, stmts in enumerate(progs):
        run_prog(stmts, envs, res, kernel and k == 1, "atom")


# representative atoms for trees and nested blocks; n makes operands distinct
def rep_atom(cls, n):
    if cls == "S":      # simple comparison with an immediate
        return ("cmp", ">", ("reg", "w", n), ("const", 5))
    if cls == "Sm":     # signed, memory, register source
        return ("cmp", "<=", ("loc", "h", n), ("const", -3))
    if cls == "R":      # mixed width register/memory comparison
        return ("cmp", "<", ("reg", "sr", n), ("loc", "i", 100 + n))
    if cls == "J":      # bit test (no inverse jump exists)
        return ("jset", ("loc", "H", n), ("const", 0x110), "ne0")
    if cls == "Jr":
        return ("jset", ("reg", "r", n), ("const", 1 << 40), "ne0")
    if cls == "Jz":
        return ("jset", ("loc", "B", n), ("const", 6), "eq0")
    if cls == "B":      # single-bit field, inverted
        return ("bit", ("bf", 3, 1, n), "inv")
    if cls == "Bn":
        return ("bit", ("bf", 1, 2, n), "ne0")
    if cls == "E":      # equality = inverted !=
        return ("cmp", "==", ("loc", "q", n), ("const", -1))
    if cls == "X":      # fixed point
        return ("cmp", ">=", ("loc", "x", n), ("const", 2.5))
    if cls == "Jw":     # bare forms
        return ("jset", ("loc", "I", n), ("const", 0x80000000), "with")
    if cls == "Bw":
        return ("bit", ("bf", 6, 1, n), "bare")
    if cls == "Bm":
        return ("bit", ("bf", 2, 3, n), "bare")
    if cls == "N":
        return ("nz", ("loc", "h", n))
    if cls == "Nr":
        return ("nz", ("reg", "sw", n))
    # variables declared with a byte-order prefix
    if cls == "Pg":     # big-endian local against a constant >= 256
        return ("cmp", ">", ("loc", ">H", n), ("const", 0x0150))
    if cls == "Pi":     # signed network-order packet variable
        return ("cmp", "<=", ("pkt", "!i", n), ("const", -70000))
    if cls == "Pr":     # register against a big-endian array-map variable
        return ("cmp", "<", ("reg", "w", n), ("arr", ">I", 100 + n))
    if cls == "Pc":     # constant on the left (reaches the generator mirrored)
        return ("cmp", ">=", ("const", 0x0102), ("pkt", ">h", n))
    if cls == "Pj":     # bit test of a big-endian variable
        return ("jset", ("loc", ">H", n), ("const", 0x0100), "ne0")
    if cls == "Pq":
        return ("cmp", "<", ("arr", ">q", n), ("loc", "<q", 100 + n))
    raise core.Internal(cls)


def tree_shapes(n):
    """all trees of ~ & | over atoms 0..n-1 in order (leaf, node and root
    inversions)"""
    def inv(ts):
        for t in ts:
            yield t
            yield ("not", t)
    if n == 1:
        return list(inv([0])) + [("not", ("not", 0))]
    if n == 2:
        return list(inv([(op, a, b) for op in ("and", "or")
                         for a in inv([0]) for b in inv([1])]))
    out = []
    for op1 in ("and", "or"):
        for op2 in ("and", "or"):
            for a in inv([0]):
                for b in inv([1]):
                    for c in inv([2]):
                        for inner in inv([(op1, a, b)]):
                            out.append((op2, inner, c))
                        for inner in inv([(op1, b, c)]):
                            out.append((op2, a, inner))
    return list(inv(out))


def subst(shape, atoms):
    if isinstance(shape, int):
        return atoms[shape]
    return (shape[0],) + tuple(subst(s, atoms) for s in shape[1:])


def work_tree(item, res):
    """family F2: one tree shape x atom classes, all truth assignments"""
    shape, classes, lens, seed, kernel = item
    atoms = [rep_atom(c, i) for i, c in enumerate(classes)]
    tree = subst(shape, atoms)
    envs = list(truth_vectors(atoms, seed, per=2))
    for k, stmts in enumerate(with_forms(tree, lens)):
        run_prog(stmts, envs, res, kernel and k == 0, "tree")


# ---- block structures
def structures(depth, quick):
    """block skeletons: ("blk", body, els) with body/els lists of
    ("m", L) | blk; condition sites are numbered later"""
    LB = [[], [("m", 1)], [("m", 3)]]
    b1 = [("blk", bd, el) for bd in LB for el in [None] + LB]
    if depth == 1:
        return b1

    def wraps(blocks, pairs):
        out = []
        for blk in blocks:
            out.append([blk])
            out.append([("m", 1), blk, ("m", 3)])
        for x, y in pairs:
            out.append([x, y])
        return out
    r1 = [("blk", [("m", 3)], None), ("blk", [("m", 3)], []),
          ("blk", [("m", 1)], [("m", 3)]), ("blk", [], [("m", 1)]),
          ("blk", [("m", 3)], [("m", 3)])]
    if quick:
        r1 = r1[:1] + r1[2:4]
    w1 = wraps(r1, [(r1[0], r1[1]), (r1[2], r1[0])])
    bodies2 = [[("m", 3)], []] + w1
    b2 = [("blk", bd, el) for bd in bodies2 for el in [None] + bodies2
          if any(s[0] == "blk" for s in bd + (el or []))]
    if depth == 2:
        return b2
    # depth 3: nest representatives of depth 2
    r2 = [("blk", [r1[0]], None),
          ("blk", [("m", 3)], [r1[2]]),
          ("blk", [r1[2]], [("m", 1)]),
          ("blk", [("m", 1), r1[1], ("m", 3)], [r1[0]]),
          ("blk", [r1[-1]], [r1[-1]]),
          ("blk", [], [("m", 1), r1[2], ("m", 3)]),
          ("blk", [r1[0], r1[1]], []),
          ("blk", [("m", 1)], [r1[1], r1[2]])]
    w2 = wraps(r2, [(r2[0], r1[0]), (r1[2], r2[1])])
    bodies3 = [[("m", 3)], [], [("m", 1)]] + w1[:4] + w2
    b3 = [("blk", bd, el) for bd in bodies3 for el in [None] + bodies3
          if any(s in r2 or (s[0] == "blk" and s in r2)
                 for s in bd + (el or []))]
    return b3


def depth_of(s):
    if s[0] == "m":
        return 0
    return 1 + max([depth_of(x) for x in s[1] + (s[2] or [])] + [0])


def shared_atom(K, rkind, op, n):
    """comparison of THE register of kind K (one per program) with a right
    operand of its own"""
    right = {"sr": ("reg", "sr", 50 + n), "sw": ("reg", "sw", 50 + n),
             "r": ("reg", "r", 50 + n), "w": ("reg", "w", 50 + n),
             "c": ("const", 5), "cn": ("const", -3)}.get(rkind)
    if right is None:
        right = ("loc", rkind, 50 + n)
    return ("cmp", op, ("reg", K, 49), right)


def exit_structures(quick):
    """skeletons with bodies that leave the program: ("x",) = exit with the
    body's own code, ("chn", [body, ...], final) = else-if chain"""
    M1, M3, X = ("m", 1), ("m", 3), ("x",)
    XB = [[M3], [M1, X], [X], []]
    tops = []
    for bd in XB:
        for el in [None] + XB:
            if X in bd or (el and X in el):
                tops.append([("blk", bd, el)])
    blkX = ("blk", [M1, X], None)        # nested block that ends in exit
    inner = [blkX, ("blk", [X], [M3]), ("blk", [M3], [X]),
             ("blk", [X], None)]
    for inn in inner:
        for pre in ([], [M1]):
            for post in ([], [M3]):
                for el in (None, [M3], [M1, X], [inn], []):
                    tops.append([("blk", pre + [inn] + post, el)])
                tops.append([("blk", [M3], pre + [inn] + post)])
    blkE = ("blk", [M3], [M1])
    CB = [[M3], [M1], [], [M3, X], [X], [M1, blkX], [blkE]]
    CB3 = [[M3], [X], [M1, blkX], []]
    finals = [None, [M3], [], [M1, X]]
    chains = [("chn", [a, b], f) for a in CB for b in CB for f in finals]
    chains += [("chn", [a, b, c], f) for a in CB3 for b in CB3 for c in CB3
               for f in finals]
    for i, c in enumerate(chains):
        tops.append([c])
        if i % 9 == 0:
            tops.append([("blk", [M3], None), c])
            tops.append([c, ("blk", [M1], [M3])])
            tops.append([("blk", [c], [M3])])
            tops.append([("blk", [M1], [c])])
            tops.append([("chn", [[M3], [c, M1]], [M3])])
    return tops


PATTERNS = {
    "simple": ["S", "Sm", "E", "S", "X", "Sm", "S", "E"],
    "jset":   ["Jw", "Jw", "Bw", "Jw", "Bm", "Jw", "Bw", "Jw"],
    "bits":   ["B", "Bw", "Bn", "Jz", "B", "Bm", "J", "B"],
    "mixed":  ["S", "Jw", "B", ("and", "S", "J"), "N", ("or", "B", "Sm"),
               "Bw", ("not", ("and", "Jz", "S"))],
    "mixed2": [("or", "J", "S"), "Bw", "R", "Jw", ("not", "E"), "Nr", "Jr",
               ("and", "B", "Bn")],
    "andor":  [("and", "S", "J"), ("or", "Jz", "B"), ("or", "S", "Sm"),
               ("and", "Bn", "E")] * 2,
    # every site compares the same register
    "sh_sw":  [("sh", "sw", "sr", ">"), ("sh", "sw", "q", "<"),
               ("sh", "sw", "c", ">="), ("sh", "sw", "sr", "<="),
               ("sh", "sw", "q", "!="), ("sh", "sw", "i", "<"),
               ("sh", "sw", "q", ">"), ("sh", "sw", "sr", "==")],
    "sh_sw2": [("sh", "sw", "q", ">="), ("sh", "sw", "sw", "<"),
               ("sh", "sw", "sr", "<"), ("sh", "sw", "cn", ">"),
               ("sh", "sw", "q", "<="), ("sh", "sw", "sr", "!="),
               ("sh", "sw", "h", ">"), ("sh", "sw", "q", "==")],
    "sh_sr":  [("sh", "sr", "sw", ">"), ("sh", "sr", "q", "<"),
               ("sh", "sr", "i", ">="), ("sh", "sr", "c", "<="),
               ("sh", "sr", "sr", "!="), ("sh", "sr", "h", "<"),
               ("sh", "sr", "sw", "=="), ("sh", "sr", "q", ">")],
    "sh_w":   [("sh", "w", "sr", ">"), ("sh", "w", "Q", "<"),
               ("sh", "w", "c", ">="), ("sh", "w", "q", "<="),
               ("sh", "w", "w", "!="), ("sh", "w", "r", "<"),
               ("sh", "w", "sr", "=="), ("sh", "w", "I", ">")],
}
SHARED_PATTERNS = ("sh_sw", "sh_sw2", "sh_sr", "sh_w")
# conditions on byte-order-prefixed variables (locals, packet, array map)
ENDIAN_PATTERN = ["Pg", "Pi", "Pj", "Pr", "Pc", ("and", "Pg", "Pi"), "Pq",
                  ("or", "Pj", ("not", "Pc"))]
PATTERNS["endian"] = ENDIAN_PATTERN


def instantiate(top, pattern, rot):
    """number markers and fill condition sites from the pattern"""
    ids = itertools.count(1)
    site = itertools.count(rot)
    atomno = itertools.count(0)

    def cond(spec):
        if isinstance(spec, str):
            return rep_atom(spec, next(atomno))
        if spec[0] == "sh":
            return shared_atom(spec[1], spec[2], spec[3], next(atomno))
        return (spec[0],) + tuple(cond(s) for s in spec[1:])

    def site_cond():
        return cond(pattern[next(site) % len(pattern)])

    def conv(stmts):
        out = []
        for s in stmts:
            if s[0] == "m":
                out.append(("m", next(ids), s[1]))
            elif s[0] == "x":
                out.append(("x", next(ids)))
            elif s[0] == "chn":
                links = []
                for body in s[1]:
                    c = site_cond()
                    links.append((c, conv(body)))
                out.append(("chain", links,
                            None if s[2] is None else conv(s[2])))
            else:
                c = site_cond()
                bd = conv(s[1])
                el = None if s[2] is None else conv(s[2])
                out.append(("if", c, bd, el))
        return out
    out = conv(top)
    out.append(("m", next(ids), 3))
    return out


MAX_ATOMS = 9


def work_block(item, res):
    """family F3: one block structure x condition pattern, all truth
    assignments of its atoms"""
    top, pname, rot, seed, kernel = item
    stmts = instantiate(top, PATTERNS[pname], rot)
    atoms = [a for t in stmts_trees(stmts) for a in tree_atoms(t)]
    if len(atoms) > MAX_ATOMS:
        res.count("block_programs_skipped_more_than_%d_atoms" % MAX_ATOMS)
        return
    envs = list(truth_vectors_shared(atoms, seed))
    run_prog(stmts, envs, res, kernel, "block")


def work_shtree(item, res):
    """family F2s: tree shapes over atoms that compare the same register"""
    shape, K, rkinds, ops, lens, seed, kernel = item
    atoms = [shared_atom(K, r, op, i)
             for i, (r, op) in enumerate(zip(rkinds, ops))]
    tree = subst(shape, atoms)
    envs = list(truth_vectors_shared(atoms, seed))
    for k, stmts in enumerate(with_forms(tree, lens)):
        run_prog(stmts, envs, res, kernel and k == 0, "shtree")


# ---- family F4: bit fields against small constants, exhaustively
BF_QUICK = [(0, 1), (3, 1), (7, 1), (0, 2), (6, 2), (2, 3), (4, 4)]
BF_THOROUGH = [(p, b) for b in (1, 2, 3, 4) for p in range(9 - b)] + [(3, 5)]
BF_FORMS = 4 + 2 + 1      # single-atom programs per atom (see work_bf)


def bf_fields(ctx):
    return BF_QUICK if ctx.quick else BF_THOROUGH


def bf_consts(bits):
    """every constant a field of that width can equal, the first one it can
    not reach, and the two booleans"""
    return list(range((1 << bits) + 1)) + [True, False]


def bf_envs(o):
    """every field value, with the other bits of the byte all 0 and all 1"""
    pos, bits = o[1], o[2]
    other = 0xff ^ (((1 << bits) - 1) << pos)
    return [{o: (f << pos) | sur} for f in range(1 << bits)
            for sur in uniq([0, other])]


def bf_partner(k, o, n):
    """the second atom of a two-atom tree: operands of its own (k = 0..3) or
    another comparison of the same field (k = 4, 5)"""
    if k < 4:
        return rep_atom(("S", "J", "B", "E")[k], n), False
    bits = o[2]
    c = (1 << bits) - 1 if k == 4 else 1
    return ("cmp", ">=" if k == 4 else "!=", o, ("const", c)), True


BF_COMBOS = [(shape, first) for shape in tree_shapes(2)
             for first in (True, False)]


def work_bf(item, res):
    """family F4: one comparison `field <op> constant` (or `constant <op>
    field`) on EVERY value of the field x the other bits of its byte all 0 /
    all 1: alone (with, with/Else of several lengths, inverted, doubly
    inverted) and as first or second operand of two-atom ~ & | trees (the
    (shape, position, partner) combinations rotate over the atoms, so that
    each occurs with every operator and many constants); the reference is the
    exact integer comparison of the field value"""
    op, pos, bits, c, left, idx, ncombo, seed, kernel = item
    o = ("bf", pos, bits, 0)
    a = ("cmp", op, ("const", c), o) if left else ("cmp", op, o, ("const", c))
    envs = bf_envs(o)
    progs = list(with_forms(a, [(3, None), (3, 3), (1, 0), (0, 1)]))
    progs += list(with_forms(("not", a), [(1, 3), (3, None)]))
    progs += list(with_forms(("not", ("not", a)), [(3, 1)]))
    if len(progs) != BF_FORMS:
        raise core.Internal("BF_FORMS")
    for k, stmts in enumerate(progs):
        run_prog(stmts, envs, res, kernel and k == 1, "bf")
    for j in range(ncombo):
        shape, first = BF_COMBOS[(idx * 5 + seed + j * 7) % len(BF_COMBOS)]
        partner, same = bf_partner((idx + j) % 6, o, 1)
        tree = subst(shape, [a, partner] if first else [partner, a])
        if same:
            envs2 = envs
        else:
            t, f = pick(partner, seed)
            envs2 = [{**e, **p} for e in envs for p in (t[0], f[0])]
        lens = [(3, None), (3, 1)] if (idx + j) % 2 else [(3, 3), (0, 1)]
        for k, stmts in enumerate(with_forms(tree, lens)):
            run_prog(stmts, envs2, res, kernel and j == 0 and k == 1, "bf")


def bf_items(ctx):
    items = []
    idx = pair = 0
    ke = 11 if ctx.quick else 7
    for pos, bits in bf_fields(ctx):
        for c in bf_consts(bits):
            for op in CMP:
                pair += 1
                for left in (False, True):
                    # `constant <op> field` reaches the generator as the
                    # mirrored `field <op'> constant` (Python's reflection):
                    # quick (and the 5-bit field) take every third of them
                    if left and (ctx.quick or bits > 4) and \
                            (pair + ctx.seed) % 3:
                        continue
                    idx += 1
                    ncombo = 2 if ctx.quick or bits > 4 else 4
                    items.append(("bf", op, pos, bits, c, left, idx, ncombo,
                                  ctx.seed, idx % ke == 0))
    return items


# ---- family F5: variables declared with a byte-order prefix
END_FMTS = [">H", ">I", ">h", "!i", "<H", "<I", ">q", "<q", ">B"]
END_KINDS = ["loc", "pkt", "arr"]
ORDERING = (">", ">=", "<", "<=")


def endian_consts(fmt, quick):
    """small, >= 256 (byte-palindromic and not), too big for the variable,
    negative for the signed formats"""
    size, signed, _ = FMT[fmt[-1]]
    cs = {1: [3, 200, 0x150],
          2: [3, 0x0150, 0x0101, 0x1234, 0x10150],
          4: [7, 0x00010000, 0x01020304, 0x01000001, 0x0150],
          8: [5, 0x0102030405060708, 1 << 40, 0x0100000000000001,
              0x0150]}[size]
    if signed:
        cs += {1: [-2], 2: [-2, -300], 4: [-1, -70000],
               8: [-3, -(1 << 40) - 5]}[size]
    if quick and size == 8:
        cs = cs[:3] + cs[4:]
    return cs


def endian_partners(P, quick):
    """registers and other variables a prefixed variable is compared with"""
    fmt, kind = P[1], P[0]
    size, signed, _ = FMT[fmt[-1]]
    regs = [("reg", k, 1) for k in
            ((("sw", "sr") if size <= 4 else ("sr", "sw")) if signed else
             (("w", "r") if size <= 4 else ("r", "w")))]
    other_kind = END_KINDS[(END_KINDS.index(kind) + 1) % 3]
    other_fmt = {1: ">H", 2: ">I", 4: ">H", 8: "!i"}[size]
    if signed:
        other_fmt = other_fmt.lower()
    vs = [(other_kind, fmt, 1),                   # same format, elsewhere
          (END_KINDS[(END_KINDS.index(kind) + 2) % 3], other_fmt, 1),
          ("loc", fmt[-1], 1),                    # the same type, native
          ("loc", "q" if signed else "Q", 1)]
    if not quick:
        regs.append(("reg", "x", 1))
        vs.append(("loc", "<" + other_fmt[-1], 1))
    return regs, vs


def endian_atoms(P, quick):
    fmt = P[1]
    size, signed, _ = FMT[fmt[-1]]
    bits = 8 * size
    regs, vs = endian_partners(P, quick)
    atoms = []
    for op in CMP:
        for c in endian_consts(fmt, quick):
            atoms.append(("cmp", op, P, ("const", c)))
            atoms.append(("cmp", op, ("const", c), P))
        for o in regs + vs:
            atoms.append(("cmp", op, P, o))
            atoms.append(("cmp", op, o, P))
    masks = uniq([1, 0x80, 1 << (bits - 8), 0x0180 if size > 1 else 6,
                  -8 if signed else (1 << bits) - 2])
    for m in masks:
        for form in ("with", "ne0", "eq0"):
            atoms.append(("jset", P, ("const", m), form))
    for form in ("with", "ne0", "eq0"):
        atoms.append(("jset", P, regs[0], form))
        atoms.append(("jset", regs[0], P, form))
        atoms.append(("jset", P, vs[0], form))
    atoms.append(("jset", ("const", 0x0102 if size > 1 else 5), P, "ne0"))
    atoms.append(("nz", P))
    return atoms


def work_endian(item, res):
    """family F5: one atom with a byte-order-prefixed variable on all its
    operand vectors (boundary pairs, the neighbours among the byte-reversed
    numbers, the alphabets), in with / with+Else / inverted settings"""
    a, idx, seed, quick, kernel = item
    envs = cands(a, seed, quick)
    if quick:
        envs = envs[:28]
    ops = [o for o in atom_operands(a) if is_var(o)]
    if a[0] == "cmp" and a[1] in ORDERING and any(
            prefixed(o) and o[1][0] != "<" and otype(o)[0] > 1 for o in ops):
        n = sum(1 for env in envs if order_sensitive(a, env))
        res.count("endian_order_sensitive_vectors", n)
        consts = [o for o in atom_operands(a) if not is_var(o)]
        # (a constant too big for the variable is above or below all of
        # its values whichever way they are read)
        if not n and not (consts and swapped_number(
                ops[0][1], consts[0][1]) is None):
            raise core.Internal(
                f"no operand vector of {a!r} tells the numeric order from "
                "the order of the byte-reversed numbers")
    if bare(a):
        progs = list(with_forms(a, [(3, 3), (0, 1)] if quick else
                                [(3, None), (3, 3), (0, 1), (5, 0)]))
    elif quick:
        progs = list(with_forms(a, [(3, 3)]))
        progs += list(with_forms(a, [(3, None)])) if idx % 2 else \
            list(with_forms(("not", a), [(1, 3)]))
    else:
        progs = list(with_forms(a, [(3, None), (3, 3), (1, 0)]))
        progs += list(with_forms(("not", a), [(1, 3)]))
    for k, stmts in enumerate(progs):
        run_prog(stmts, envs, res, kernel and k == 0, "endian")


def endian_items(ctx):
    items = []
    idx = 0
    ke = 11 if ctx.quick else 7
    for fi, fmt in enumerate(END_FMTS):
        kinds = END_KINDS
        if ctx.quick:       # one memory kind per format, rotating
            kinds = [END_KINDS[(fi + ctx.seed) % 3]]
        for kind in kinds:
            for a in endian_atoms((kind, fmt, 0), ctx.quick):
                idx += 1
                items.append(("endian", a, idx, ctx.seed, ctx.quick,
                              idx % ke == 0))
    # prefixed variables in trees ...
    pairs = [("Pg", "S"), ("J", "Pi"), ("Pg", "Pi"), ("Pr", "Pj"),
             ("Pc", "Pg"), ("Pq", "Pc")]
    lens2 = [(3, None), (3, 3), (1, 0), (0, 1)]
    n = 0
    for shape in tree_shapes(2):
        for cl in pairs:
            n += 1
            if ctx.quick and (n + ctx.seed) % 2:
                continue
            items.append(("tree", shape, cl, lens2, ctx.seed, n % ke == 0))
    for si, shape in enumerate(tree_shapes(3)):
        if ctx.quick and (si + ctx.seed) % 8:
            continue
        for cl in (("Pg", "Pi", "Pj"), ("Pc", "J", "Pr")):
            n += 1
            items.append(("tree", shape, cl, [(3, None), (3, 1)], ctx.seed,
                          n % ke == 0))
    # ... and in nested / sequenced blocks, else-if chains, exiting bodies
    tops = [[blk] for blk in structures(1, ctx.quick)]
    tops += [[blk] for blk in structures(2, ctx.quick)]
    tops += exit_structures(ctx.quick)
    for ti, top in enumerate(tops):
        if (ti + ctx.seed) % (6 if ctx.quick else 2):
            continue
        n += 1
        items.append(("block", top, "endian", ti % 8, ctx.seed,
                      n % ke == 0))
    return items


# ---- family F6: computed operands
# `L <cmp> (A op B)` and `(A op B) <cmp> L`: the compared values are L and the
# value of A op B; the leaves A, B are 8 bytes wide and may be far beyond the
# width of L
COMP_LEFT = [("reg", "sw"), ("reg", "w"), ("reg", "sr"), ("reg", "r"),
             ("loc", "i"), ("loc", "I"), ("loc", "h"), ("loc", "q")]
COMP_LEAF = [("reg", "sr"), ("reg", "r"), ("loc", "q"), ("loc", "Q")]
COMP_OPS = (">>", "//", "%", "+", "-", "*", "&")
COMP_CONSTS = {">>": [4, 16, 33], "//": [10, 16, 1000], "%": [10, 16, 1000],
               "+": [5, -5, 0x7fffffff], "-": [5, -5, 0x7fffffff],
               "*": [0, 3, -1], "&": [0xff, 0x7fffffff, -8]}
COMP_FIRST = {">>": [0x7fff0000, 1 << 40, -(1 << 40)],
              "//": [1000, 1 << 40], "%": [1000, (1 << 40) + 3],
              "+": [5, -5], "-": [5, -5, 0x7fffffff], "*": [3, -1],
              "&": [0xff, -8]}
COMP_A = [1 << 32, (1 << 32) + 7, 0x234500000000, 0x700000050, 0x80000005,
          0xfffffff0, (1 << 63) + (1 << 40), -(1 << 32), -(1 << 32) - 7, -5,
          3 - (1 << 40), 0, 7, 1000, 0x7fff0000]
COMP_A_QUICK = [(1 << 32) + 7, 0x234500000000, 0x80000005,
                (1 << 63) + (1 << 40), -(1 << 32), -5, 0, 7, 0x7fff0000]


def comp_a_values(op, A, seed, quick):
    import random
    lo, hi = rng(A)
    vs = (COMP_A_QUICK if quick else COMP_A) + \
        [random.Random(seed * 31 + 7).getrandbits(44)]
    if op in ("//", "%"):
        # non-negative operands below 2^63 only: Python's and the machine's
        # division agree there whatever the signedness (C01 owns the rest)
        lo, hi = 0, (1 << 63) - 1
    return [v for v in vs if lo <= v <= hi]


def comp_b_values(op, B, a):
    """values of a leaf B of `a op B` that bring the result back into 32
    bits (among others)"""
    lo, hi = rng(B)
    if op == ">>":
        vs = [4, 16, 33, 0]
    elif op in ("//", "%"):
        vs = [10, 1000, 16, 1 << 32, (1 << 32) + 7]
        hi = (1 << 63) - 1
    elif op == "+":
        vs = [5, -5, 5 - a, -5 - a, 0x7fffffff - a]
    elif op == "-":
        vs = [5, -5, a - 5, a + 5, a]
    elif op == "*":
        vs = [0, 1, 3, -1, -7]
    else:
        vs = [0xff, 0x7fffffff, (1 << 32) | 0xf0, -8]
    return uniq([v for v in vs if lo <= v <= hi])


def comp_exprs(quick):
    """the computed operands: every operator x every 8-byte leaf kind as
    first operand x (the operator's constants, every leaf kind as second
    operand - unsigned ones only as a shift count)"""
    out = []
    for op in COMP_OPS:
        for ai, A in enumerate(COMP_LEAF):
            for c in COMP_CONSTS[op]:
                out.append(("expr", op, A + (1,), ("const", c)))
            # second operand a leaf: two of the other kinds (one in the
            # quick tier), so that every ordered pair of signedness and of
            # storage occurs; a shift count is unsigned
            if op == ">>":
                bs = [COMP_LEAF[1], COMP_LEAF[3]]
                bs = bs[ai % 2:] + bs[:ai % 2]
            else:
                bs = [COMP_LEAF[(ai + 1) % 4], COMP_LEAF[(ai + 2) % 4]]
            for B in bs[:1] if quick else bs:
                out.append(("expr", op, A + (1,), B + (2,)))
            # a constant as the first operand: it has no width of its own,
            # the operand is as wide as its leaf (a shift count is unsigned)
            if op == ">>" and A[1] not in ("r", "Q"):
                continue
            for c in COMP_FIRST[op]:
                out.append(("expr", op, ("const", c), A + (2,)))
    return out


def comp_envs(L, E, seed, quick):
    """operand vectors inside the precondition: the leaves' alphabets x the
    left operand on, just below and just above the computed value and at the
    ends of its range"""
    op, A, B = E[1], E[2], E[3]
    probe = ("cmp", "<", L, E)
    out = []
    n = 0
    if not is_var(A):
        # constant first: the leaf takes the wide values and the small ones
        lo, hi = rng(B)
        pairs = [(None, b) for b in uniq(
            comp_a_values(op, B, seed, quick) + [4, 10, 16, 33, 1000,
                                                 cval(A[1]) - 5])
            if lo <= b <= hi]
    else:
        pairs = [(a, b) for a in comp_a_values(op, A, seed, quick)
                 for b in ([None] if not is_var(B)
                           else comp_b_values(op, B, a))]
    for a, b in pairs:
        if True:
            env = {} if a is None else {A: a}
            if b is not None:
                env[B] = b
            try:
                v = oval(E, env)
            except Outside:
                continue
            lo, hi = rng(L)
            n += 1
            for x in uniq([v - 1, v, v + 1, hi if n % 2 else lo]):
                if not lo <= x <= hi:
                    continue
                env2 = dict(env)
                env2[L] = x
                try:
                    atom_eval(probe, env2)
                except Outside:
                    continue
                out.append(env2)
    return out


def work_comp(item, res):
    """family F6: one (compared operand, computed operand) pair in one
    placement under the given comparison operators, on all its vectors"""
    L, E, mirrored, cmps, idx, seed, quick, kernel = item
    envs = comp_envs(L, E, seed, quick)
    if not envs:
        res.count("comp_pairs_without_vector")
        return
    big = sum(1 for env in envs
              if any(not -(1 << 31) <= env[o] < (1 << 32) for o in leaves(E))
              and -(1 << 31) <= oval(E, env) < (1 << 32))
    res.count("comp_vectors_leaf_beyond_32_bits_value_within", big)
    for ci, op in enumerate(cmps):
        a = ("cmp", op, E, L) if mirrored else ("cmp", op, L, E)
        forms = [lambda: with_forms(a, [(3, 3)]),
                 lambda: with_forms(a, [(3, None)]),
                 lambda: with_forms(("not", a), [(1, 3)])]
        if quick:       # with/Else and one of the other two
            progs = list(forms[0]()) + list(forms[1 + (idx + ci) % 2]())
        else:           # the three forms rotate over the six operators
            progs = list(forms[(idx + ci) % 3]())
        for k, stmts in enumerate(progs):
            run_prog(stmts, envs, res, kernel and k == 0 and ci == 0, "comp")


def comp_items(ctx):
    items = []
    idx = 0
    ke = 11 if ctx.quick else 7
    ops = list(CMP)
    for li, Lk in enumerate(COMP_LEFT):
        L = Lk + (0,)
        for ei, E in enumerate(comp_exprs(ctx.quick)):
            for mirrored in (False, True):
                idx += 1
                if ctx.quick:
                    # one of the six comparison operators per (pair,
                    # placement), rotating
                    cmps = (ops[(li + ei + 3 * mirrored + ctx.seed) % 6],)
                else:
                    cmps = tuple(ops)
                items.append(("comp", L, E, mirrored, cmps, idx, ctx.seed,
                              ctx.quick, idx % ke == 0))
    return items


def work(item, res):
    {"atom": work_atom, "comp": work_comp, "tree": work_tree, "block": work_block,
     "shtree": work_shtree, "bf": work_bf,
     "endian": work_endian}[item[0]](item[1:], res)


def items_for(ctx):
    items = []
    atoms, jsets, nz, bits = atom_alphabet(ctx)
    allatoms = atoms + jsets + nz + bits
    ke = 11 if ctx.quick else 7
    for i, a in enumerate(allatoms):
        items.append(("atom", a, ctx.seed, ctx.quick, i % ke == 0))
    # bare forms with every (body, Else) length combination
    for cls in ("Jw", "Bw", "Bm", "N", "Nr", "S", "J", "B", "E"):
        a = rep_atom(cls, 0)
        for shape in tree_shapes(1) if not bare(a) else [0]:
            items.append(("tree", shape, (cls,), ALL_LENS, ctx.seed, True))
    # trees
    c2 = ["S", "Sm", "R", "J", "Jz", "B", "Bn", "E", "X"]
    c3 = ["S", "J", "B"] if ctx.quick else ["S", "J", "B", "R"]
    lens2 = [(3, None), (3, 3), (1, 0), (0, 1)]
    n = 0
    for shape in tree_shapes(2):
        for cl in itertools.product(c2 if not ctx.quick else c2[:1] + c2[3:7],
                                    repeat=2):
            n += 1
            items.append(("tree", shape, cl, lens2, ctx.seed, n % ke == 0))
    shapes3 = tree_shapes(3)
    for si, shape in enumerate(shapes3):
        for ci, cl in enumerate(itertools.product(c3, repeat=3)):
            if ctx.quick and (si + ci + ctx.seed) % 4:
                continue
            n += 1
            items.append(("tree", shape, cl, [(3, None), (3, 1)], ctx.seed,
                          n % ke == 0))
    if not ctx.quick:
        for si, shape in enumerate(shapes3):
            for cl in (("Sm", "Jz", "E"), ("R", "Bn", "J"), ("X", "E", "Jr"),
                       ("Jz", "Jz", "Jz"), ("E", "B", "R")):
                n += 1
                items.append(("tree", shape, cl, [(1, 3)], ctx.seed,
                              n % ke == 0))
    # blocks
    tops = []
    for d in (1, 2) if ctx.quick else (1, 2, 3):
        for blk in structures(d, ctx.quick):
            tops.append([blk])
    b1 = structures(1, ctx.quick)
    seqs = [(b1[i], b1[j]) for i in range(len(b1)) for j in range(len(b1))]
    for x, y in seqs:
        tops.append([x, y])
        if not ctx.quick:
            tops.append([x, ("m", 3), y])
    pats = [p for p in PATTERNS if p != "endian"]
    for ti, top in enumerate(tops):
        deep = depth_of(top[0])
        for pi, pname in enumerate(pats):
            if ctx.quick and deep > 1 and (ti + pi + ctx.seed) % 2:
                continue
            if ctx.quick:
                rots = [ti % 8]
            elif deep < 3:
                rots = range(8)
            else:
                rots = [ti % 8, (ti + 3) % 8]
            for rot in rots:
                n += 1
                items.append(("block", top, pname, rot, ctx.seed,
                              n % ke == 0))
    # the same register in several atoms of one tree ...
    rk = {"sw": ["sr", "q", "c", "sw"], "sr": ["sw", "q", "i", "c"],
          "w": ["sr", "q", "c", "w"]}
    opsets = [(">", "<", ">="), ("<=", "!=", ">"), ("==", ">", "<")]
    for K in ("sw", "sr", "w"):
        for si, shape in enumerate(tree_shapes(2)):
            for ri, rs in enumerate(itertools.product(rk[K], repeat=2)):
                n += 1
                items.append(("shtree", shape, K, rs, opsets[ri % 3][:2],
                              [(3, None), (3, 1)], ctx.seed, n % ke == 0))
        for si, shape in enumerate(shapes3):
            for ri, rs in enumerate(itertools.product(rk[K][:3], repeat=3)):
                if ctx.quick and (K != "sw" or (si + ri + ctx.seed) % 3):
                    continue
                n += 1
                items.append(("shtree", shape, K, rs, opsets[(si + ri) % 3],
                              [(3, None), (3, 1)], ctx.seed, n % ke == 0))
    # ... and in the conditions of consecutive / nested blocks
    for ti, top in enumerate(tops):
        deep = depth_of(top[0])
        for pi, pname in enumerate(SHARED_PATTERNS):
            if ctx.quick and ((deep > 1 and (ti + pi + ctx.seed) % 2)
                              or pi > 1 and (ti + ctx.seed) % 3):
                continue
            if deep == 3 and (ti + pi + ctx.seed) % 2:
                continue
            n += 1
            items.append(("block", top, pname, (ti + pi) % 8, ctx.seed,
                          n % ke == 0))
    # bodies that leave the program, else-if chains
    xpats = ["simple", "jset", "mixed", "bits", "andor", "sh_sw"]
    for ti, top in enumerate(exit_structures(ctx.quick)):
        for pi, pname in enumerate(xpats):
            if ctx.quick and pi > 1 and (ti + pi + ctx.seed) % 3:
                continue
            n += 1
            items.append(("block", top, pname, (ti + 2 * pi) % 8, ctx.seed,
                          n % ke == 0))
    # bit fields against every small constant on every field value
    items += bf_items(ctx)
    # variables declared with a byte-order prefix
    items += endian_items(ctx)
    # comparisons with a computed operand
    items += comp_items(ctx)
    return items


def run(ctx):
    items = items_for(ctx)
    res = core.pmap(ctx, work, items, chunk=8)
    res.cov["work_items"] = len(items)
    res.cov["states"] = len(res.nontrivial)
    res.cov.setdefault("transitions", 0)
    res.cov["traces_validated_against_impl"] = res.cov.get("evaluations", 0)
    res.cov["kernel_available"] = kern.available()
    res.cov["families"] = {
        k: sum(1 for i in items if i[0] == k) for k in
        ("atom", "tree", "shtree", "block", "bf", "endian", "comp")}
    if res.exhaustive and not res.cov.get(
            "comp_vectors_leaf_beyond_32_bits_value_within"):
        raise core.Internal("computed-operand family: no vector with a leaf "
                            "beyond 32 bits and a result within")
    res.sample(dict(stmts=[["if", ["jset", ["loc", "I", 0],
                                   ["const", 0x80000000], "with"],
                            [["m", 1, 3]], [["m", 2, 1]]], ["m", 9, 3]]))
    res.assumptions += [
        "'the compared values fit the narrowest width involved' is read in "
        "the strictest way: W = 32 as soon as one variable operand is 1..4 "
        "bytes wide, else 64; every compared value (multiplied by 100000 as "
        "soon as one side is fixed-point) must lie in the signed W-bit range "
        "if any side is signed or a negative constant, in the unsigned W-bit "
        "range otherwise; cases outside are executed and counted but not "
        "judged",
        "for a computed operand A op B the compared value is the exact "
        "integer result of the operation on the leaves' values; it (not the "
        "leaves) has to fit: W = 32 as soon as the other side or a leaf is "
        "1..4 bytes wide (all leaves of the computed-operand family are 8 "
        "bytes wide), signed range as soon as one side, a leaf or a constant "
        "is signed/negative; a result that leaves 64 bits, a division by "
        "zero or a shift count outside 0..63 is outside the precondition.  "
        "The computed-operand family keeps to what C01 does not own: // and "
        "% only on non-negative leaf values below 2^63, shift counts are "
        "constants or unsigned leaves, no 1..4 byte leaf inside the computed "
        "operand; quick: one comparison operator per (pair, placement), "
        "rotating, one leaf kind as second operand, 9 first-operand values; "
        "thorough: all six operators (the three program forms rotate over "
        "them), two leaf kinds as second operand, 16 first-operand values; "
        "a negative 1..4 byte signed value opposite a computed 8-byte "
        "operand on the left falls under the known finding " + KF_NARROW,
        "32-bit register operands are planted zero-extended (the only state "
        "a 32-bit write leaves behind)",
        "a bit field's value is the unsigned integer held by its bits; "
        "comparing it with a constant (also one it cannot reach, such as "
        "2^bits, and with True/False, which are the integers 1 and 0) is the "
        "integer comparison of that value, whatever the other bits of the "
        "byte hold; the bit-field family enumerates the fields "
        + ", ".join(f"({p},{b})" for p, b in BF_QUICK) + " in the quick tier "
        "and every (pos, bits) with bits <= 4 plus (3,5) in the thorough "
        "tier; `constant <op> field` is taken for every third (operator, "
        "constant) pair in the quick tier and for the 5-bit field; of the 32 "
        "(two-atom tree shape, operand position) combinations each atom gets "
        "2 (quick) or 4 (thorough), rotating, with a rotating partner atom "
        "(four with operands of their own, two comparing the same field)",
        "float constants in conditions are exactly representable (3.5, 2.5, "
        "0.5); inexact decimals belong to C02",
        "a variable declared with a byte-order prefix holds the number that "
        "struct.unpack(format, its bytes) gives; conditions on it are judged "
        "by that number (width rule as for the native format of the same "
        "letter); its bytes are planted by raw stores.  The prefixed-variable "
        "family takes formats " + " ".join(END_FMTS) + " in local, packet "
        "and array-map memory (quick: one of the three memory kinds per "
        "format, rotating with the seed - trees and blocks use all three -, and at most 28 operand vectors per "
        "atom, the order-sensitive ones first); programs with an array-map "
        "variable run in the interpreter only (the map lives there)",
        "a body that ends in exit(code) leaves the program: the oracle then "
        "demands exactly that body's code as return value and the markers "
        "written before it; 'execution continues after the construct' is "
        "demanded of all other paths; programs with an exit inside a body are "
        "judged in the interpreter only (the kernel refuses the unreachable "
        "jump behind the exit, C05's finding)",
        "assembled bytes that do not decode (a spliced 64-bit load) count as "
        "a trapping program",
        "forms the generator refuses (TypeError/AssembleError/struct.error "
        "while the program is written) are counted, not judged; an internal "
        "error of the generator (failed assertion about a jump placeholder, "
        "AttributeError, IndexError ...) on a form the statement quantifies "
        "over is reported as a violation"]
    return res


def tup(x):
    return tuple(tup(y) for y in x) if isinstance(x, list) else x


def stmts_from_json(js):
    out = []
    for s in js:
        if s[0] == "m":
            out.append(("m", s[1], s[2]))
        elif s[0] == "x":
            out.append(("x", s[1]))
        elif s[0] == "chain":
            out.append(("chain", [(tup(t), stmts_from_json(b))
                                  for t, b in s[1]],
                        None if s[2] is None else stmts_from_json(s[2])))
        else:
            out.append(("if", tup(s[1]), stmts_from_json(s[2]),
                        None if s[3] is None else stmts_from_json(s[3])))
    return out


def replay(ctx, rep):
    res = core.Result()
    c = rep["case"]
    stmts = stmts_from_json(c["stmts"])
    env = {tup(k): v for k, v in c["env"]}
    run_prog(stmts, [env], res, False, c.get("family", ""))
    p = build(stmts, core.Result())
    if p is not None:
        print(bpfvm.disasm(p.b._decoded))
    return res.violations
