"""Seams for nondeterminism the library draws from the standard library.

ebpfcat takes its random numbers with ``from random import randint`` /
``randrange``: the names live in the importing module.  A harness that only
rebinds the one name it knows loses control as soon as the code under test
starts to use another function of the same source (a mutated tree may well do
that), and the exploration stops being reproducible.  ``own_random`` rebinds
*every* module-level name of the given modules that is bound to a method of
the global ``random`` generator, plus the ``random`` module's own functions,
for the duration of one execution:

  * names with a handler (by function name: "randint", "randrange", "choice")
    are answered by the harness, normally from an explorer choice;
  * every other function of the source is answered by a generator seeded
    freshly per execution, i.e. deterministically.
"""
import contextlib
import random as _random

FUNCS = ("randint", "randrange", "choice", "choices", "shuffle", "sample",
         "random", "uniform", "getrandbits", "randbytes", "triangular",
         "gauss", "betavariate", "expovariate")


def default_handlers(choose):
    """handlers deriving randrange / choice from one `choose(n)` function
    (n alternatives -> index); randint has to be given by the harness where
    its domain is too large to enumerate"""
    def randrange(start, stop=None, step=1):
        if stop is None:
            start, stop = 0, start
        dom = range(start, stop, step)
        return dom[choose(len(dom))]

    def choice(seq):
        return seq[choose(len(seq))]
    return dict(randrange=randrange, choice=choice)


@contextlib.contextmanager
def own_random(modules, handlers, seed=0):
    fallback = _random.Random(seed)
    inst = _random._inst
    saved = []

    def replacement(name):
        return handlers.get(name) or getattr(fallback, name)
    try:
        for m in modules:
            for name, val in list(vars(m).items()):
                if getattr(val, "__self__", None) is inst and \
                        getattr(val, "__name__", None) in FUNCS:
                    saved.append((m, name, val))
                    setattr(m, name, replacement(val.__name__))
        for name in FUNCS:
            if hasattr(_random, name):
                saved.append((_random, name, getattr(_random, name)))
                setattr(_random, name, replacement(name))
        yield
    finally:
        for m, name, val in reversed(saved):
            setattr(m, name, val)
