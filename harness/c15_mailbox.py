"""C15 (in-process half) - mailbox exchanges with a terminal are serialised
and counted.

2-3 asyncio tasks share one real Terminal object and perform 1-2 mailbox
exchanges each (sdo_read expedited, sdo_write expedited, read_object_entry)
over the real roundtrip stack against the ESC model with the CoE server of
mc/coe.py.  Explorer choices: when each task is started, which in-flight frame
the bus delivers next, and after how many polls the terminal answers; the
lock may already have been used (warm-up exchanges), so that the counter wraps
within a run.  Judged on what the terminal sees in its write mailbox.

The lock comes from a factory (`LOCKS`); the oracle (`judge_events`,
`judge_results`) only needs the terminal-side event list and the users'
results, so another lock kind or a cross-process driver can reuse both.
"""
import asyncio
import itertools
import os
import struct

from mc import bussim, coe, core, explore, vloop

import ebpfcat.ethercat as ecmod
from ebpfcat.ethercat import EtherCat, Terminal

PROP = "C15"
LEVEL = "model_checking"
RULE = ("multisets of 2-3 task programs (1-2 exchanges each from sdo_read / "
        "sdo_write / read_object_entry) x warm-up exchanges {0, 6[, seeded]} x lock "
        "kind x deviation-bounded (start of each task, delivery order of "
        "in-flight frames, response latency <= 2 polls); non-trivial = at "
        "least two users exchanged mail; distinct = distinct (configuration, "
        "choices)")

OUT_OFF, OUT_SZ, IN_OFF, IN_SZ = 0x1000, 48, 0x1100, 48
KINDS = "rwo"
K = 2

# lock factories: (EtherCat object, terminal number) -> lock
LOCKS = {
    "MailboxLock": lambda ec, no: ec.get_mbx_lock(no),
}


def user_index(u):
    return 0x2000 + 0x100 * u


def initial(u, j):
    return bytes([0x40 + 0x10 * u + j, 0xa0 + u])


def written(u, j):
    return bytes([0x0f - u, 0x70 + 0x10 * j + u])


def entry_name(u, j):
    return f"user{u}-entry{j}"


def make_server(n_users):
    s = coe.SdoServer({(0x1000, 0): b"\x89\x13\0\0"})
    for u in range(n_users):
        for j in range(1, 3):
            s.objects[user_index(u), j] = initial(u, j)
            s.entry_meta[user_index(u), j] = (0x06, 16, 0x3f,
                                              entry_name(u, j))
    return s


def message_user(msg):
    """which user does a CoE mail (request or response) belong to"""
    m = coe.mbx_parse(msg)
    if m.type != coe.COE or len(m.payload) < 5:
        return None
    service = struct.unpack_from("<H", m.payload)[0] >> 12
    if service in (coe.SDOREQ, coe.SDORES):
        index, = struct.unpack_from("<H", m.payload, 3)
    elif service == coe.SDOINFO and len(m.payload) >= 8:
        index, = struct.unpack_from("<H", m.payload, 6)
    else:
        return None
    return (index - 0x2000) >> 8 if index >= 0x2000 else "warmup"


# ------------------------------------------------------------------ oracle
def judge_events(events):
    """events: ('in', mail) / ('out', mail) / ('fetch',) in terminal order.
    -> None or (what, expected, observed)"""
    counters = [coe.mbx_parse(e[1]).counter for e in events if e[0] == "in"]
    for i in range(1, len(counters)):
        want = counters[i - 1] % 7 + 1
        if counters[i] != want:
            what = "counter repeated" if counters[i] == counters[i - 1] \
                else "counter 0 after the first mail" if counters[i] == 0 \
                else "counter is not the successor"
            return (what, counters[:i] + [want], counters[:i + 1])
    open_user = None        # an exchange whose response was not fetched yet
    for n, e in enumerate(events):
        if e[0] == "in":
            u = message_user(e[1])
            if open_user is not None:
                return ("request written inside another user's exchange",
                        f"user {open_user[0]} fetches its response first",
                        f"request of user {u} at event {n}")
            open_user = [u, False]
        elif e[0] == "out":
            if open_user is None:
                return ("response without request", None, n)
            if message_user(e[1]) != open_user[0]:
                return ("response for another user", open_user[0],
                        message_user(e[1]))
            open_user[1] = True
        elif e[0] == "fetch":
            if open_user is not None and open_user[1]:
                open_user = None
    return None


def judge_results(conf, results, server):
    tasks, warm = conf
    for u, prog in enumerate(tasks):
        r = results[u]
        if r is None or r[0] != "ok":
            return (f"user {u} completes its exchanges", "ok", r)
        for j, (kind, got) in enumerate(zip(prog, r[1]), 1):
            if kind == "r":
                want = initial(u, j).hex()
            elif kind == "w":
                want = None
                if server.objects[user_index(u), j] != written(u, j):
                    return (f"user {u} write {j} stored", written(u, j).hex(),
                            server.objects[user_index(u), j].hex())
            else:
                want = [entry_name(u, j), j, 16]
            if got != want:
                return (f"user {u} exchange {j} ({kind}) result", want, got)
    return None


# ------------------------------------------------------------------ execution
async def program(term, u, prog):
    out = []
    for j, kind in enumerate(prog, 1):
        if kind == "r":
            out.append((await term.sdo_read(user_index(u), j)).hex())
        elif kind == "w":
            out.append(await term.sdo_write(written(u, j), user_index(u), j))
        else:
            oe = await term.read_object_entry(user_index(u), j)
            out.append([oe.name, oe.valueInfo, oe.bitLength])
    return out


def execute(ch, conf, lock_name, k=K):
    tasks, warm = conf
    loop = vloop.VLoop()
    with loop:
        t = bussim.Terminal("t", station=11)
        coe.configure_mailbox(t, OUT_OFF, OUT_SZ, IN_OFF, IN_SZ)
        coe.esc_mailbox_rules(t)
        server = make_server(len(tasks))
        t.mbx_handler = server
        events = t.mbx_log
        orig_read = t.read

        def read(ado, n):
            full = t.mem[0x80d] & 8
            r = orig_read(ado, n)
            if full and not t.mem[0x80d] & 8:
                events.append(("fetch",))
            return r
        t.read = read
        m = bussim.Master(bussim.Bus([t]), lambda: EtherCat("sim"), loop)
        term = Terminal(m.ec)
        term.position = 11
        term.mbx_lock = LOCKS[lock_name](m.ec, 11)
        term.mbx_out_off, term.mbx_out_sz = OUT_OFF, OUT_SZ
        term.mbx_in_off, term.mbx_in_sz = IN_OFF, IN_SZ

        async def warmup():
            for _ in range(warm):
                await term.sdo_read(0x1000, 0)
        if warm:
            fut = asyncio.ensure_future(warmup())
            if not m.run(fut, max_frames=2000) or fut.exception():
                # the earlier exchanges are real exchanges too
                e = fut.exception() if fut.done() else None
                obs = dict(events=[(x[0],) + tuple(y.hex() for y in x[1:])
                                   for x in events],
                           results=[("raise", type(e).__name__,
                                     "earlier exchange: " + str(e)[:60])
                                    if e else ("pending",)] * len(tasks),
                           finished=False, frames=m.frames,
                           errors=[list(x) for x in server.protocol_errors])
                raw = list(events)
                loop.shutdown()
                return obs, raw, server
        t.mbx_latency = lambda term_: ch.choose(k + 1, "latency",
                                               list(range(k + 1)))
        futs = [None] * len(tasks)

        held = [False] * len(tasks)

        def start(u):
            futs[u] = asyncio.ensure_future(program(term, u, tasks[u]))

        def on_idle(master):
            # a task starts at once unless the explorer holds it back (one
            # deviation) and releases it at a later idle point (another one)
            started = False
            for u in range(len(tasks)):
                if futs[u] is not None:
                    continue
                if not held[u]:
                    if ch.choose(2, f"hold{u}"):
                        held[u] = True
                    else:
                        start(u)
                        started = True
                elif ch.choose(2, f"release{u}"):
                    start(u)
                    started = True
            if started:
                return True
            if not master.transport.inflight and any(f is None
                                                     for f in futs):
                start(futs.index(None))     # nothing else can happen
                return True
            n = len(master.transport.inflight)
            if n >= 2:
                master.deliver(ch.choose(n, "deliver"))
                return True
            return False

        class AllDone:
            def done(self):
                return all(f is not None and f.done() for f in futs)
        finished = m.run(AllDone(), max_frames=3000, on_idle=on_idle)
        results = []
        for f in futs:
            if f is None or not f.done():
                results.append(("pending",))
            elif f.exception() is not None:
                results.append(("raise", type(f.exception()).__name__,
                                str(f.exception())[:80]))
            else:
                results.append(("ok", f.result()))
        obs = dict(events=[(e[0],) + tuple(x.hex() for x in e[1:])
                           for e in events],
                   results=results, finished=finished,
                   errors=[list(e) for e in server.protocol_errors],
                   frames=m.frames)
        raw = list(events)
        loop.shutdown()
    return obs, raw, server


def judge(conf, out):
    obs, raw, server = out
    tasks, warm = conf
    v = judge_events(raw)
    if v:
        return v
    if obs["errors"]:
        return ("terminal rejects a mail", [], obs["errors"])
    return judge_results(conf, obs["results"], server)


# ------------------------------------------------------------------ driving
def configurations(ctx):
    progs = [p for n in (1, 2) for p in itertools.product(KINDS, repeat=n)]
    out = []
    for tasks in itertools.combinations_with_replacement(progs, 2):
        out.append(tasks)
    three = itertools.combinations_with_replacement(
        [p for p in progs if len(p) == 1] if ctx.quick else progs, 3)
    out.extend(three)
    return out


def work(item, res):
    conf, lock_name, bound, cap = item
    bad = []

    def on_exec(ch, out):
        obs = out[0]
        res.count("evaluations")
        res.count("transitions", obs["frames"])
        users = {message_user(bytes.fromhex(e[1])) for e in obs["events"]
                 if e[0] == "in"} - {"warmup", None}
        if len(users) >= 2:
            res.nontrivial.add(core.digest([conf, lock_name, ch.choices]))
        v = judge(conf, out)
        res.outcomes.add((v[0] if v else "ok", len(obs["events"]) // 3,
                          len(ch.describe())))
        if v:
            res.violation(dict(conf=conf, lock=lock_name,
                               choices=list(ch.choices)), v[1], v[2],
                          sig=core.digest([lock_name, v[0]]), note=v[0])
            bad.append(1)
            if len(bad) >= 3:
                raise Enough()
    try:
        n, capped = explore.dfs(lambda ch: execute(ch, conf, lock_name),
                                bound, on_exec, max_execs=cap)
    except Enough:
        return
    if capped:
        res.caps_hit.append(f"{conf}: capped at {n} executions")


class Enough(Exception):
    pass


def selftest_oracle():
    """the oracle rejects what it has to reject"""
    def rq(u, c):
        return ("in", coe.mbx_pack(coe.COE, coe.coe_header(coe.SDOREQ) +
                struct.pack("<BHB4x", 0x40, user_index(u), 1), counter=c))

    def rs(u):
        return ("out", coe.mbx_pack(coe.COE, coe.coe_header(coe.SDORES) +
                struct.pack("<BHB4x", 0x4b, user_index(u), 1), counter=1))
    f = ("fetch",)
    good = [rq(0, 0), rs(0), f, rq(1, 1), rs(1), f, rq(0, 2), rs(0), f]
    assert judge_events(good) is None
    wrap = []
    c = 5
    for i in range(5):
        wrap += [rq(i % 2, c), rs(i % 2), f]
        c = c % 7 + 1
    assert judge_events(wrap) is None
    assert judge_events([rq(0, 1), rs(0), f, rq(1, 1), rs(1), f])[0] == \
        "counter repeated"
    assert judge_events([rq(0, 1), rs(0), f, rq(1, 3), rs(1), f])[0] == \
        "counter is not the successor"
    assert judge_events([rq(0, 7), rs(0), f, rq(1, 0), rs(1), f])[0] == \
        "counter 0 after the first mail"
    assert judge_events([rq(0, 1), rq(1, 2), rs(0), f, rs(1), f])[0] == \
        "request written inside another user's exchange"
    assert judge_events([rq(0, 1), rs(0), rq(1, 2), f, rs(1), f])[0] == \
        "request written inside another user's exchange"


def run(ctx):
    try:
        stats = coe.selftest(os.path.dirname(os.path.dirname(ecmod.__file__)))
        selftest_oracle()
    except AssertionError as e:
        raise core.Internal(f"self-test failed: {e!r}")
    bound = 2 if ctx.quick else 3
    cap = 4000 if ctx.quick else 60000
    items = []
    for lock_name in sorted(LOCKS):
        for tasks in configurations(ctx):
            warms = (0, 6) if ctx.quick else \
                sorted({0, 6, 1 + (3 + ctx.seed) % 5})
            for warm in warms:
                b = bound if len(tasks) == 2 or ctx.quick else bound - 1
                items.append(((tasks, warm), lock_name, b, cap))
    probe = ((("r", "w"), ("o",)), 6)
    a = execute(explore.Chooser((0, 1, 1, 2)), probe, "MailboxLock")[0]
    b = execute(explore.Chooser((0, 1, 1, 2)), probe, "MailboxLock")[0]
    if a != b:
        raise core.Internal("non-deterministic execution")
    items = [items[i] for i in sorted(range(len(items)),
                                      key=lambda i: (i % 31, i))]
    res = core.pmap(ctx, work, items, chunk=1)
    res.cov["states"] = len(res.nontrivial)
    res.cov["traces_validated_against_impl"] = res.cov.get("evaluations", 0)
    res.cov["configurations"] = len(items)
    res.cov["bound_completed"] = bound
    res.cov["lock_kinds"] = sorted(LOCKS)
    res.cov["model_selftest"] = stats
    res.sample(dict(tasks=[["r", "w"], ["o"]], warm=6,
                    meaning="user 0: sdo_read then sdo_write, user 1: "
                            "read_object_entry, after 6 earlier exchanges "
                            "(the counter wraps from 7 to 1 during the run)"))
    res.assumptions += [
        "in-process half only: lock kind MailboxLock (EtherCat.get_mbx_lock)",
        "the first mail the terminal sees may carry any counter; every "
        "later one must carry the successor in the cycle 1..7",
        "an exchange is open from the request until its response has been "
        "fetched from the read mailbox; responses fit one mail",
        "frames are not lost; response latency <= 2 polls",
        "3 tasks: bound reduced by one in thorough; quick: 3 tasks do one "
        "exchange each"]
    return res


def replay(ctx, rep):
    res = core.Result()
    c = rep["case"]
    conf = (tuple(tuple(p) for p in c["conf"][0]), c["conf"][1])
    out = execute(explore.Chooser(tuple(c["choices"])), conf, c["lock"])
    for e in out[0]["events"]:
        print("  ", e[0], (e[1][:44] if len(e) > 1 else ""))
    print("results", out[0]["results"])
    v = judge(conf, out)
    if v:
        res.violation(c, v[1], v[2], note=v[0])
    return res.violations
