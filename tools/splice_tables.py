#!/usr/bin/env python3
"""replace the generated tables of DESIGN.md (findings: section 9, seeds:
section 10) by the current output of findings_table.py / seeds_table.py"""
import os
import subprocess
import sys
HERE = os.path.dirname(os.path.abspath(__file__))
DESIGN = os.path.join(os.path.dirname(HERE), "DESIGN.md")


def splice(lines, header, new):
    start = next(i for i, l in enumerate(lines) if l.startswith(header))
    end = start
    while end < len(lines) and lines[end].startswith("|"):
        end += 1
    return lines[:start] + new + lines[end:]


def table(tool):
    out = subprocess.run([sys.executable, os.path.join(HERE, tool)],
                         capture_output=True, text=True, check=True).stdout
    return [l for l in out.splitlines() if l.startswith("|")]


lines = open(DESIGN).read().split("\n")
lines = splice(lines, "| Property | Id | Status |", table("findings_table.py"))
lines = splice(lines, "| Seed | Property | Change", table("seeds_table.py"))
open(DESIGN, "w").write("\n".join(lines))
