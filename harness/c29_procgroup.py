"""C29 - process-based sync groups share device variables.

For every configuration (1..3 device instances of deterministic device classes
with 1..3 ``DeviceVar`` declarations over the formats B H I Q b h i q ? x) a
real ``ProcessSyncGroup(ec, devices)`` is constructed (real 'spawn'-context
shared array; ``start()`` is not called, it needs SCHED_RR and a NIC).

(a) in-process: the bytes every variable owns in the shared array are found
    black-box (clear the array, write a probe without zero bytes through the
    descriptor, look which bytes changed); they must be exactly as many as the
    format needs and disjoint between variables; then all variables are
    written and read back for all boundary values.
(b) cross-process: the sync groups of a batch are pickled into a really
    spawned child (``sg.ctx.Process``; the same pickling that
    ``ProcessSyncGroup.start()`` does for ``target=self.subprocess_run``: the
    whole group incl. devices and shared arrays); values written in the parent
    before and after the spawn must be read in the child, values written in
    the child must be read in the parent, and with parent and child writing
    alternate variables both must see all of them.
"""
from mc import core, c29_classes as K

import ebpfcat
import ebpfcat.ebpfcat as ecat
from ebpfcat.ebpfcat import ParallelEtherCat, ProcessSyncGroup

import os

PROP = "C29"
LEVEL = "model_checking"
RULE = ("every configuration (list of device classes) of the stated families "
        "is built as a real ProcessSyncGroup, checked in-process (ownership "
        "of bytes, round trip of all boundary values) and in a really spawned "
        "child; non-trivial = at least one device variable could be "
        "accessed; distinct = distinct configuration")

KF = "C29-devicevar-bound-to-fast-group"
BATCH = 50
TIMEOUT = 120

_ARRAYS = {}


def _recording_get_array(orig):
    def get_array(self, size):
        arr = orig(self, size)
        _ARRAYS.setdefault(id(self), []).append(arr)
        return arr
    return get_array


def is_exc(v):
    return isinstance(v, (tuple, list)) and len(v) == 3 and v[0] == "exc"


def same(a, b):
    if is_exc(a) or is_exc(b):
        return False
    if isinstance(a, (tuple, list)) or isinstance(b, (tuple, list)):
        # multi-element formats read back as tuples (lists after a pipe)
        return isinstance(a, (tuple, list)) and \
            isinstance(b, (tuple, list)) and list(a) == list(b)
    return isinstance(b, (int, float)) and a == b


class Config:
    def __init__(self, names, extra):
        # history before the group exists: "preset" = plain values were
        # assigned to the device variables while the devices were in no
        # group; "regroup" = the devices were in another group before
        self.variant = None
        if names and names[0] in ("preset", "regroup"):
            self.variant, names = names[0], names[1:]
        self.names = list(names)
        self.extra = extra
        self.case = dict(devices=self.names, extra=extra)
        if self.variant:
            self.case["history"] = self.variant
        self.viol = []      # (category, expected, observed, kf)
        self.sg = None
        self.accessible = False
        self.all_keyerror = False

    def bad(self, cat, expected, observed, kf=None):
        if not any(v[0] == cat for v in self.viol):
            self.viol.append((cat, expected, observed, kf))

    def build(self):
        ec = ParallelEtherCat("c29")
        devs = [K.CLASSES[n]() for n in self.names]
        try:
            if self.variant == "preset":
                for d in devs:
                    for i, f in enumerate(d.FMTS):
                        if len(f) == 1 and f not in "?x":
                            setattr(d, "v%d" % i, 2 + 2 * i)
            elif self.variant == "regroup":
                other = [K.CLASSES[self.names[-1]]()] + devs[::-1]
                ProcessSyncGroup(ec, other)
                _ARRAYS.clear()
            self.sg = ProcessSyncGroup(ec, devs)
        except Exception as e:
            self.bad("constructing ProcessSyncGroup raised", "a sync group",
                     repr(e))
            return False
        arrs = _ARRAYS.pop(id(self.sg), [])
        if len(arrs) != 1:
            raise core.Internal("expected one shared array per sync group, "
                                "saw %d" % len(arrs))
        self.arr = arrs[0]
        self.vars = K.variables(self.sg)
        return True

    # ------------------------------------------------------------ in-process
    def check_access(self):
        """can the device variables be used at all?"""
        excs = []
        for owner, name, fmt in self.vars[:-1]:
            for op in ("get", "set"):
                try:
                    if op == "get":
                        getattr(owner, name)
                    else:
                        setattr(owner, name, K.VALUES[fmt][0])
                except Exception as e:
                    excs.append((name, op, e))
        n = 2 * (len(self.vars) - 1)
        if not excs:
            self.accessible = True
            return
        # defect model: DeviceVar belongs to FastSyncGroup.properties, the
        # ProcessSyncGroup collects only ProcessSyncGroup.properties, so no
        # device variable has storage: *every* access raises KeyError(name)
        if len(excs) == n and all(
                isinstance(e, KeyError) and e.args == (name,)
                for name, op, e in excs):
            self.all_keyerror = True
            self.bad("every access to a device variable of a "
                     "ProcessSyncGroup raises KeyError",
                     "value", "KeyError(%r)" % excs[0][0], kf=KF)
        else:
            name, op, e = excs[0]
            self.bad("access to a device variable raised",
                     "%s %s works" % (op, name), repr(e))

    def usable(self):
        """variables that can be checked: all, or only the group's own"""
        return self.vars if self.accessible else self.vars[-1:]

    def check_layout(self):
        size = len(self.arr)
        foot = []
        for owner, name, fmt in self.usable():
            self.arr[:] = bytes(size)
            try:
                setattr(owner, name, K.PROBE[fmt])
            except Exception as e:
                self.bad("writing a probe value raised", "ok", repr(e))
                return
            raw = bytes(self.arr)
            own = [i for i in range(size) if raw[i]]
            need = K.SIZES[fmt]
            pat = K.owned_pattern(fmt)
            base = own[0] - pat[0] if own else 0
            if own != [base + i for i in pat]:
                self.bad("variable does not own exactly the bytes of its "
                         "format", "%d contiguous bytes (%s)" % (need, fmt),
                         own)
                foot.append(own)
            else:
                # the whole slot, padding included
                foot.append(list(range(base, base + need)))
        self.arr[:] = bytes(size)
        us = self.usable()
        for i in range(len(us)):
            for j in range(i + 1, len(us)):
                if set(foot[i]) & set(foot[j]):
                    what = ("variables of different devices share storage"
                            if us[i][0] is not us[j][0] else
                            "two variables of one device share storage")
                    self.bad(what, "disjoint",
                             dict(a=[self.owner_index(us[i][0]), us[i][1],
                                     foot[i]],
                                  b=[self.owner_index(us[j][0]), us[j][1],
                                     foot[j]]))

    def owner_index(self, owner):
        if owner is self.sg:
            return "group"
        return [d is owner for d in self.sg.devices].index(True)

    def expected(self, k, parity=None, before=None):
        out = []
        for n, (owner, name, fmt) in enumerate(self.vars):
            if parity is not None and n % 2 != parity:
                out.append(before[n])
            else:
                out.append(K.value_for(fmt, k + n, self.extra))
        return out

    def compare(self, cat, exp, obs):
        """compare full value vectors; device variables only if accessible"""
        lo = 0 if self.accessible else len(self.vars) - 1
        for n in range(lo, len(self.vars)):
            if not same(exp[n], obs[n]):
                owner, name, fmt = self.vars[n]
                self.bad(cat, dict(var=[self.owner_index(owner), name, fmt],
                                   value=exp[n]),
                         dict(value=obs[n]))
                return False
        return True

    def check_roundtrip(self):
        for k in range(2 * K.NVALUES):
            w = K.write_all(self.sg, k, self.extra)
            bad = [x for x in w[0 if self.accessible else -1:] if x]
            if bad:
                self.bad("writing a value raised", "ok", bad[0])
                return
            self.compare("in-process: value read back differs from the "
                         "value written", self.expected(k),
                         K.read_all(self.sg))


# ------------------------------------------------------------ cross-process
def spawn_batch(cfgs):
    """write the first values and start one spawned child for the batch"""
    live = [c for c in cfgs if c.sg is not None]
    if not live:
        return None
    groups = [c.sg for c in live]
    ctx = groups[0].ctx
    for c in live:
        K.write_all(c.sg, 100, c.extra)
    parent, child = ctx.Pipe()
    try:
        proc = ctx.Process(target=K.child_main, args=(groups, child))
        proc.start()
    except Exception as e:
        for c in live:
            c.bad("spawning a child with the sync group failed", "spawned",
                  repr(e))
        parent.close()
        child.close()
        return None
    child.close()
    return live, parent, proc


def talk_batch(handle):
    """the cross-process protocol; returns the number of exchanges"""
    if handle is None:
        return 0
    live, parent, proc = handle

    def ask(*cmd):
        parent.send(cmd)
        if not parent.poll(TIMEOUT):
            raise core.Internal("spawned child does not answer")
        return parent.recv()

    try:
        if not parent.poll(TIMEOUT):
            raise core.Internal("spawned child did not start (exit code %r)"
                                % proc.exitcode)
        hello = parent.recv()
        here = os.path.dirname(os.path.abspath(ebpfcat.__file__))
        if hello[0] != "hello" or hello[1] != here:
            raise core.Internal("child imported ebpfcat from %r, parent "
                                "from %r" % (hello[1], here))
        if hello[2] == os.getpid():
            raise core.Internal("child is not a separate process")
        # 1. written in the parent before the spawn, read in the child
        got = ask("read")
        for c, g in zip(live, got):
            c.compare("parent -> child: value written before the spawn is "
                      "not what the child reads", c.expected(100), g)
        # 2. written in the parent while the child lives
        for c in live:
            K.write_all(c.sg, 201, c.extra)
        got = ask("read")
        for c, g in zip(live, got):
            c.compare("parent -> child: value written in the parent is not "
                      "what the child reads", c.expected(201), g)
        # 3. written in the child, read in the parent
        for k in (302, 303):
            ask("write", k, live[0].extra, None)
            for c in live:
                c.compare("child -> parent: value written in the child is "
                          "not what the parent reads", c.expected(k),
                          K.read_all(c.sg))
        # 4. alternating writers
        before = {id(c): c.expected(303) for c in live}
        for c in live:
            K.write_all(c.sg, 404, c.extra, 0)
        ask("write", 505, live[0].extra, 1)
        got = ask("read")
        for c, g in zip(live, got):
            exp = c.expected(505, 1, c.expected(404, 0, before[id(c)]))
            c.compare("alternating writers: child does not see all values",
                      exp, g)
            c.compare("alternating writers: parent does not see all values",
                      exp, K.read_all(c.sg))
        if ask("quit") != "bye":
            raise core.Internal("child protocol error")
        proc.join(TIMEOUT)
        if proc.exitcode != 0:
            raise core.Internal("child exit code %r" % proc.exitcode)
    finally:
        parent.close()
        if proc.is_alive():
            proc.kill()
            proc.join()
    return 6 * len(live)


# ------------------------------------------------------------ configurations
def configurations(ctx):
    names = list(K.ORDER)
    n = len(names)
    extra = ctx.seed
    out = []

    def add(*idx):
        out.append(tuple(names[i % n] for i in idx))

    small = [i for i, nm in enumerate(names)
             if len(K.CLASSES[nm].FMTS) <= 2 or nm.startswith("Dev_sub")
             or nm.startswith("Dev_base")]
    if ctx.quick:
        big = [i for i in range(n) if i not in small]
        pick = small + big[ctx.seed % 8::8]
        for i in pick:
            add(i)
            add(i, i)
        for i in small:
            add(i, i, i)
            add(i, i + 1)
        for i in small[::3]:
            add(i, i + 31, i + 152)
            add(i + 5, i, i)
    else:
        for i in range(n):
            add(i)
            add(i, i)
            add(i, i, i)
            add(i, i + 1)
            add(i, i + 97)
            add(i, i + 31, i + 152)
            if i % 2:
                add(i, i, i + 5)
            else:
                add(i + 5, i, i)
    # the same with a history (see Config)
    hist = small if not ctx.quick else small[::2]
    for i in hist:
        for v in ("preset", "regroup"):
            out.append((v, names[i % n], names[(i + 1) % n]))
            if not ctx.quick:
                out.append((v, names[i % n]))
                out.append((v, names[i % n], names[i % n],
                            names[(i + 31) % n]))
    seen, uniq = set(), []
    for c in out:
        if c not in seen:
            seen.add(c)
            uniq.append(c)
    return uniq, extra


def run_configs(ctx, confs, extra, res):
    orig = ProcessSyncGroup.get_array
    ProcessSyncGroup.get_array = _recording_get_array(orig)
    try:
        batches = []
        for start in range(0, len(confs), BATCH):
            batch = [Config(names, extra)
                     for names in confs[start:start + BATCH]]
            for c in batch:
                if not c.build():
                    continue
                c.check_access()
                c.check_layout()
                c.check_roundtrip()
                res.count("transitions", 2 * K.NVALUES * len(c.vars))
            batches.append(batch)
        # children are started in waves (their start-up dominates), then
        # served one after the other; results do not depend on the overlap
        wave = max(1, min(ctx.workers, 16))
        for w in range(0, len(batches), wave):
            handles = []
            try:
                for batch in batches[w:w + wave]:
                    handles.append(spawn_batch(batch))
                    res.count("spawns")
                for h in handles:
                    res.count("transitions", talk_batch(h))
            finally:
                for h in handles:
                    if h is not None and h[2].is_alive():
                        h[2].kill()
                        h[2].join()
        for batch in batches:
            for c in batch:
                res.count("evaluations")
                res.count("traces_validated_against_impl")
                if c.accessible:
                    res.nontrivial.add(core.digest(c.case))
                res.outcomes.add((c.variant, len(c.names), len(set(c.names)),
                                  c.accessible, tuple(v[0] for v in c.viol)))
                for cat, exp, obs, kf in c.viol:
                    res.violation(c.case, exp, obs, kf=kf,
                                  sig=core.digest([cat]), note=cat)
                c.sg = None
    finally:
        ProcessSyncGroup.get_array = orig
        _ARRAYS.clear()


def selftest():
    for fmt in K.FORMATS:
        import struct
        vals = K.VALUES[fmt] + [K.PROBE[fmt]]
        for v in vals:
            if fmt == "x":
                if int(v * 100000) != v * 100000:
                    raise core.Internal("fixed-point value %r not exact" % v)
                raw = struct.pack("q", int(v * 100000))
            else:
                raw = struct.pack(fmt, v)
            if len(raw) != K.SIZES[fmt]:
                raise core.Internal("size table wrong for %r" % fmt)
        if fmt == "x":
            raw = struct.pack("q", int(K.PROBE[fmt] * 100000))
        else:
            raw = struct.pack(fmt, K.PROBE[fmt])
        if 0 in raw:
            raise core.Internal("probe for %r has a zero byte" % fmt)
    if len(K.ORDER) != 285 + 9 or len(set(K.ORDER)) != len(K.ORDER):
        raise core.Internal("class table incomplete")


def run(ctx):
    selftest()
    confs, extra = configurations(ctx)
    res = core.Result()
    run_configs(ctx, confs, extra, res)
    res.cov["states"] = len(confs)
    res.cov["alphabet"] = dict(
        formats=K.FORMATS, classes=len(K.ORDER), configurations=len(confs),
        instances="1..3", values_per_format=K.NVALUES, batch=BATCH)
    res.cov["bound_completed"] = (
        "all declaration multisets up to size 3; quick: all of size <= 2 "
        "and every 8th of size 3" if ctx.quick else
        "all declaration multisets up to size 3 x 7 instance patterns")
    for c in (confs[0], confs[len(confs) // 2], confs[-1]):
        res.sample(dict(devices=list(c)))
    res.assumptions += [
        "the child runs harness code around the real descriptors on the "
        "unpickled sync group, not subprocess_run (needs SCHED_RR and a NIC); "
        "the group is pickled exactly as Process(target=bound method) would",
        "fixed-point ('x') values are dyadic, so no rounding is involved",
        "storage is identified black-box: the bytes of the shared array that "
        "change when a value without zero bytes is written",
        "formats are native ones (struct without prefix): 'l'/'L' are 8 "
        "bytes here, 'hI'/'BI' contain padding, which belongs to the "
        "variable's slot",
    ]
    return res


def replay(ctx, rep):
    c = rep["case"]
    res = core.Result()
    names = tuple(c["devices"])
    if c.get("history"):
        names = (c["history"],) + names
    run_configs(ctx, [names], c.get("extra", 0), res)
    for v in res.violations:
        print("  ", v["note"], "| expected", v["expected"], "| observed",
              v["observed"])
    return res.violations
