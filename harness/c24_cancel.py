"""C24 - cancelling a sync group releases its resources and ends cancelled.

Crash-point enumeration: the real SyncGroup / FastSyncGroup / ProcessSyncGroup
are started on the virtual loop over the bus model (fast groups additionally
over the simulated bpf() system call) and driven for three cycles; the task is
cancelled before every driver step (loop iteration, frame delivery, timer)
reached up to then, on the default schedule and with one late frame (timeout
path).  After the cancellation the world keeps running until the task has
finished; from the cancellation on the bus either keeps answering or stops
answering the group's cyclic process-data frames (state changes and FMMU
datagrams are always answered).

Process groups: the multiprocessing context's Process is a seam, but what the
child process would run is real - ProcessSyncGroup.subprocess_loop (with
ec.run() replaced by an empty context manager), i.e. the real
SyncGroupBase.run, as a second task on the same virtual loop and bus model.
The child "exits" when that task ends; 0 or 2 driver steps later its pidfd
becomes readable.

Terminals have 1, 2, 3 or 4 FMMUs, so that mappings land on every FMMU
number including 0 (a self-check of the run says which numbers were held).
After every cancelled execution whose task ended as cancelled the SAME group
object is started again (fast groups: a new group over the same devices,
terminals and master, because a loaded EBPF program object cannot be
assembled twice) and has to reach its first cycle: what was not released
shows up there.
"""
import asyncio
import contextlib
import ctypes
import gc
import os
import struct

from mc import bussim, core, ecworld, simkernel

import ebpfcat.ebpfcat as ecat
from ebpfcat.ebpfcat import (
    Device, FastEtherCat, FastSyncGroup, ParallelEtherCat, ProcessSyncGroup,
    SyncGroup, SyncManager)

PROP = "C24"
LEVEL = "model_checking"
RULE = ("group kind (slow / fast / process, the latter with the real child "
        "loop as a second task) x terminal set (1-2 terminals, FMMU and "
        "direct, read-only and read-write, 1 / 2 / 3 / 4 FMMUs; alone, with "
        "a second group of the same master on a terminal of its own started "
        "before / after it, or with one sharing its terminal, that keeps "
        "running) x late-frame position x every cancellation point (driver "
        "step) from start() through three cycles x bus answering / silent "
        "for cyclic frames from the cancellation on x child exit latency; "
        "every cleanly cancelled group is started again; non-trivial = the "
        "cancellation hit a running task; distinct = distinct "
        "(configuration, cancellation step, environment choices)")

CYCLES = 3
HORIZON = 600           # driver steps granted after the cancellation
RESTART_HORIZON = 400   # driver steps granted to a restarted group
KF_FAST_START = "C24-fast-group-dies-at-registration"
KF_PROC_UNBOUND = "C24-process-group-unbound-error"
KF_OP_BEFORE_TRY = "C24-op-requested-outside-try"
KF_PROC_PRESTART = "C24-process-group-cancelled-before-first-step"

# per terminal: (input bytes, output bytes, via FMMU, read-write[, FMMUs])
# FMMU numbers taken: writers search downward from 1, readers from the last
CONFIGS = {
    "one-fmmu-rw": [(4, 6, True, True)],
    "one-direct-rw": [(4, 6, False, True)],
    "fmmu-rw+direct-ro": [(4, 6, True, True), (2, 0, False, False)],
    "two-fmmu-rw": [(4, 6, True, True), (2, 2, True, True)],
    "one-fmmu-ro": [(4, 0, True, False)],
    # OUT on FMMU 1, IN on FMMU 0
    "rw-2fmmu": [(4, 6, True, True, 2)],
    # IN on FMMU 0, the only one
    "ro-1fmmu": [(4, 0, True, False, 1)],
    # OUT on FMMU 1, IN on FMMU 2
    "rw-3fmmu": [(4, 6, True, True, 3)],
    # OUT on FMMU 0, the only one
    "wo-1fmmu": [(0, 6, True, True, 1)],
    "rw-2fmmu+ro-1fmmu": [(4, 6, True, True, 2), (2, 0, True, False, 1)],
    # for the companion sharing the terminal: it takes FMMU 1 and 2, the
    # (read-only) group under test is left with FMMU 0
    "ro-3fmmu": [(4, 6, True, False, 3)],
}
BOUNDARY = ("rw-2fmmu", "ro-1fmmu", "rw-3fmmu")     # quick tier
BOUNDARY_MORE = ("wo-1fmmu", "rw-2fmmu+ro-1fmmu")   # thorough in addition


class Dev(Device):
    def __init__(self, spec):
        self.spec = spec

    def get_terminals(self):
        return dict(self.spec)

    def program(self):
        pass


class FakeProcess:
    """what multiprocessing would start: the harness runs the child's
    coroutine as a task of the virtual loop instead"""

    def __init__(self, ctx, target, pid):
        self.ctx = ctx
        self.target = target
        self.pid = pid
        self.started = False
        self.task = None
        self.exit_in = None     # steps until the pidfd becomes readable
        self.dead = False
        self.fired = None       # the reader registration served last

    def start(self):
        self.started = True
        self.task = self.ctx.spawn(self)


class Shared:
    """multiprocessing.sharedctypes' synchronized wrapper, without the
    shared memory and the lock: the 'child' lives in this very process"""

    def __init__(self, obj):
        self.obj = obj

    def get_obj(self):
        return self.obj

    @property
    def value(self):
        return self.obj.value

    @value.setter
    def value(self, v):
        self.obj.value = v


class FakeCtx:
    """stands for the multiprocessing context of a ProcessSyncGroup"""
    TYPES = dict(B=ctypes.c_ubyte, b=ctypes.c_byte, I=ctypes.c_uint,
                 i=ctypes.c_int, H=ctypes.c_ushort, h=ctypes.c_short)

    def __init__(self, spawn):
        self.spawn = spawn
        self.processes = []

    def Value(self, typecode, *a):
        return Shared(self.TYPES[typecode](*a))

    def Array(self, typecode, size):
        return Shared((self.TYPES[typecode] * size)())

    def Process(self, target=None, **kw):
        p = FakeProcess(self, target, 4242 + len(self.processes))
        self.processes.append(p)
        return p


PIDFD = 700


@contextlib.asynccontextmanager
async def connected():
    """stands for ParallelEtherCat.run() in the child: the connection is the
    bus model's"""
    yield


def outcome_of(task):
    if not task.done():
        return ("pending",)
    if task.cancelled():
        return ("cancelled",)
    if task.exception() is not None:
        return ("error", type(task.exception()).__name__,
                str(task.exception())[:80])
    return ("returned",)


def execute(kind, cname, late_at, cancel_at, child_delay=0, latency=0,
            via_run=False, companion=None, silent=False, restart=True):
    """-> observation dict.  cancel_at None = just measure the default run.
    latency: AL state transitions take that many status polls.
    via_run (fast groups): the group is started inside `async with
    ec.run():` and 'cancelling' means leaving that block, which cancels the
    registered groups through FastSyncGroup.cancel().
    companion ("before" / "after"): a second group of the same kind on the
    same master, with a terminal of its own, started before / after the
    group under test and never cancelled: it must not notice anything.
    companion "shared": the second group (read-write, started before) uses
    the SAME terminal.
    silent: from the cancellation on the bus does not answer the group's
    cyclic process-data frames any more (they are lost).
    child_delay (process groups): driver steps between the end of the
    child's loop and its pidfd becoming readable."""
    conf = CONFIGS[cname]
    sk = None
    obs = dict(kind=kind, steps=0, cycles=0, cancelled_running=False)
    if kind == "fast":
        sk = simkernel.SimKernel()
        cm = sk.installed()
        cm.__enter__()
    saved = {}
    w = None
    try:
        eccls = {"slow": ecat.SimpleEtherCat, "fast": FastEtherCat,
                 "process": ParallelEtherCat}[kind]
        w = ecworld.World(ec_cls=eccls)
        if kind == "fast":
            saved["randrange"] = ecat.randrange
            # the second registration of an execution draws the number of
            # the first one before it gets a free one
            draws = iter([5, 5, 9])
            ecat.randrange = lambda n: next(draws, 11)
            w.ec.programs = ecat.create_map(ecat.MapType.PROG_ARRAY, 4, 4,
                                            w.ec.MAX_PROGS)
        terms = []
        for i, (isz, osz, fmmu, rw, *more) in enumerate(conf):
            t = w.add_terminal(isz, osz, use_fmmu=fmmu,
                               n_fmmu=more[0] if more else 4)
            terms.append(t)
            if latency:
                def poll(model, left=[latency]):
                    # a transition takes `latency` polls; the countdown
                    # restarts with every new request
                    if getattr(model, "_lat_for", None) != model.al_requested:
                        model._lat_for = model.al_requested
                        model._lat = latency
                    if model._lat > 0:
                        model._lat -= 1
                        return "stay"
                    model._lat_for = None
                    return "reach"
                t.model.al_poll = poll
        dev = Dev({t: c[3] for t, c in zip(terms, conf)})
        procs = []
        if kind == "slow":
            sg = SyncGroup(w.ec, [dev])
        elif kind == "fast":
            sg = FastSyncGroup(w.ec, [dev])
        else:
            w.ec.fmmu_lock_file = type("FmmuStub", (), dict(
                get_next_addr=lambda self: 0x401000))()
            # the child process "connects" to the bus model
            w.ec.run = connected

            def spawn(process):
                # multiprocessing would pickle the group into a new
                # interpreter and call target() = subprocess_run() there,
                # which is asyncio.run(subprocess_loop())
                group = process.target.__self__
                return asyncio.ensure_future(group.subprocess_loop())
            fake = FakeCtx(spawn)
            saved["get_context"] = ecat.get_context
            ecat.get_context = lambda method=None: fake
            sg = ProcessSyncGroup(w.ec, [dev])
            if sg.ctx is not fake:
                raise core.Internal("the multiprocessing context is not "
                                    "taken from ebpfcat.ebpfcat.get_context")
            procs = fake.processes
            saved["pidfd_open"] = os.pidfd_open
            os.pidfd_open = lambda pid: PIDFD + pid
        sg2 = task2 = t2 = None
        theirs = set()
        if companion:
            if companion == "shared":
                t2 = terms[0]
            else:
                t2 = w.add_terminal(4, 6, use_fmmu=True)
            sg2 = type(sg)(w.ec, [Dev({t2: True})])
            if companion in ("before", "shared"):
                task2 = sg2.start()
            if companion == "shared":
                # it is well under way when the group under test starts
                seen2 = []
                orig2 = sg2.update_devices

                def update_devices2(data):
                    seen2.append(1)
                    return orig2(data)
                sg2.update_devices = update_devices2
                for _ in range(400):
                    if seen2 or task2.done():
                        break
                    if w.loop.has_ready():
                        w.loop.run_once()
                    elif w.master.transport.inflight:
                        w.master.deliver(0)
                    elif not w.loop.advance():
                        break
                if not seen2:
                    raise core.Internal("the companion group did not get "
                                        "going")
        cycles = [0]

        def count_cycles(group):
            orig = group.update_devices

            def update_devices(data):
                cycles[0] += 1
                return orig(data)
            group.update_devices = update_devices
        count_cycles(sg)
        leave = None
        if via_run:
            import ebpfcat.xdp as xdpmod
            saved["xdp.if_nametoindex"] = xdpmod.if_nametoindex
            xdpmod.if_nametoindex = lambda name: 7
            saved["XDP._netlink"] = xdpmod.XDP._netlink

            async def _netlink(self, ifindex, fd, flags):
                return None
            xdpmod.XDP._netlink = _netlink
            saved["connect"] = ecat.SimpleEtherCat.connect

            async def connect(self):
                return None
            ecat.SimpleEtherCat.connect = connect
            leave = asyncio.get_event_loop().create_future()
            started = []

            async def outer():
                async with w.ec.run():
                    started.append(sg.start())
                    await leave
            outer_task = asyncio.ensure_future(outer())
            for _ in range(50):
                if started or outer_task.done():
                    break
                w.loop.run_once()
            if not started:
                raise core.Internal("ec.run() did not start: %r"
                                    % (outer_task.exception()
                                       if outer_task.done() else "pending"))
            task = started[0]
        else:
            task = sg.start()
        if companion == "after":
            task2 = sg2.start()
        if sg2 is not None:
            theirs = {a for a in sg2.fmmu_maps.get(t2, {}).values()}
        tp = w.master.transport

        def processes_step():
            """the children: a child whose loop has ended is gone a few
            steps later, from then on its pidfd is readable"""
            waiting = False
            for p in procs:
                if p.task is None:
                    continue
                if p.task.done() and p.exit_in is None:
                    p.exit_in = child_delay
                if p.exit_in is not None and not p.dead:
                    if p.exit_in == 0:
                        p.dead = True
                    else:
                        p.exit_in -= 1
                        waiting = True
                if p.dead:
                    reg = w.loop.readers.get(PIDFD + p.pid)
                    if reg is not None and reg is not p.fired:
                        p.fired = reg
                        w.loop.fire_reader(PIDFD + p.pid)
            return waiting

        def is_cyclic(frame):
            pi = getattr(sg, "packet_index", None)
            return pi is not None and len(frame) >= 8 and \
                struct.unpack_from("<i", frame, 4)[0] == pi
        cyclic_seen = [0]
        dropped = 0
        step = 0
        cancelled = False
        limit = 3000
        while not task.done() and step < limit:
            if cancel_at is not None and step == cancel_at and not cancelled:
                cancelled = True
                limit = step + HORIZON
                obs["cancelled_running"] = not task.done()
                if leave is not None:
                    leave.set_result(None)
                else:
                    task.cancel()
            if cancel_at is None and cycles[0] >= CYCLES:
                break
            child_pending = processes_step()
            if w.loop.has_ready():
                w.loop.run_once()
            elif tp.inflight:
                frame = tp.inflight[0]
                if is_cyclic(frame):
                    if cancelled and silent:
                        tp.inflight.pop(0)      # lost
                        dropped += 1
                        step += 1
                        continue
                    cyclic_seen[0] += 1
                    if late_at is not None and cyclic_seen[0] - 1 == late_at \
                            and w.loop.next_timer() is not None:
                        late_at = None
                        w.loop.advance()
                        step += 1
                        continue
                w.master.deliver(0)
            elif not w.loop.advance():
                if not child_pending:
                    break
            step += 1
        obs["steps"] = step
        obs["cycles"] = cycles[0]
        obs["dropped"] = dropped
        obs["done"] = task.done()
        obs["outcome"] = outcome_of(task)
        # what the terminals were asked
        asked = []
        for t in terms:
            ctl = [v for k, v in t.model.al_log if k == "ctl"]
            asked.append(ctl)
        obs["al_requests"] = asked
        obs["fmmu_used"] = [[None if x in theirs else x for x in t.fmmu_used]
                            for t in terms]
        if kind == "fast":
            m = sk.map_of(w.ec.programs)
            obs["registered"] = sorted(m.progs)
            obs["sync_groups"] = sorted(w.ec.sync_groups)
        if companion:
            # let the companion finish whatever it was doing
            for _ in range(200):
                if task2.done():
                    break
                if w.loop.has_ready():
                    w.loop.run_once()
                elif w.master.transport.inflight:
                    w.master.deliver(0)
                else:
                    break
            ctl2 = [v for k, v in t2.model.al_log if k == "ctl"]
            mine = getattr(sg2, "packet_index", None)
            obs["companion"] = dict(
                done=task2.done(),
                error=(repr(task2.exception())[:80] if task2.done() and
                       not task2.cancelled() and task2.exception() else None),
                al_requests=ctl2, index=mine,
                fmmu_used=list(t2.fmmu_used),
                fmmu_held=all(a in t2.fmmu_used for a in theirs))
            if kind == "fast":
                obs["companion"]["slot_ok"] = (
                    mine in m.progs and w.ec.sync_groups.get(mine) is sg2)
                # the table without the companion's own entry
                obs["registered"] = [i for i in obs["registered"]
                                     if i != mine]
                obs["sync_groups"] = [i for i in obs["sync_groups"]
                                      if i != mine]
        if kind == "process":
            obs["running_flag"] = bool(sg.runningValue.value)
            child = procs[0] if procs else None
            obs["child_exited"] = bool(child and child.dead)
            obs["child"] = outcome_of(child.task) if child and child.task \
                else ("not started",)
            obs["reader_left"] = any(PIDFD + p.pid in w.loop.readers
                                     for p in procs)
        # ------------------------------------------------------ restart
        clean = cancel_at is not None and obs["cancelled_running"] and \
            obs["outcome"] == ("cancelled",) and not via_run and \
            (kind != "process" or (obs["child_exited"] and
                                   not obs["running_flag"]))
        if restart and clean:
            before = cycles[0]
            try:
                if kind == "fast":
                    # an EBPF program object cannot be assembled a second
                    # time once it was loaded, cancelled or not: a fresh
                    # group over the same devices, terminals and master
                    sg = FastSyncGroup(w.ec, [dev])
                    count_cycles(sg)
                    # ... under a number of its own: the master may still
                    # wait for a lost frame under the old one, which is
                    # not among the resources C24 names
                    draws = iter([21])
                again = sg.start()
            except Exception as e:
                obs["restart"] = ("error", type(e).__name__, str(e)[:80])
            else:
                for _ in range(RESTART_HORIZON):
                    if again.done() or cycles[0] > before:
                        break
                    if any(p.task is not None and p.task.done()
                           for p in procs[1:]):
                        break
                    processes_step()
                    if w.loop.has_ready():
                        w.loop.run_once()
                    elif tp.inflight:
                        w.master.deliver(0)
                    elif not w.loop.advance():
                        break
                if cycles[0] > before:
                    obs["restart"] = ("cycle",)
                elif again.done():
                    obs["restart"] = outcome_of(again)
                elif len(procs) > 1 and procs[1].task is not None and \
                        procs[1].task.done():
                    obs["restart"] = ("child",) + outcome_of(procs[1].task)
                else:
                    obs["restart"] = ("pending",)
        for p in procs:
            # the harness's own tasks: their exceptions are looked at here
            if p.task is not None and p.task.done() and \
                    not p.task.cancelled():
                p.task.exception()
        obs["loop_errors"] = [
            (str(c.get("message"))[:50], type(c.get("exception")).__name__)
            for c in w.loop.collect_garbage_errors()]
    finally:
        if w is not None:
            w.close()
        for k, v in saved.items():
            if k == "pidfd_open":
                os.pidfd_open = v
            elif k == "xdp.if_nametoindex":
                import ebpfcat.xdp as xdpmod
                xdpmod.if_nametoindex = v
            elif k == "XDP._netlink":
                import ebpfcat.xdp as xdpmod
                xdpmod.XDP._netlink = v
            elif k == "connect":
                ecat.SimpleEtherCat.connect = v
            else:
                setattr(ecat, k, v)
        if sk is not None:
            cm.__exit__(None, None, None)
            sk.close_all()
    return obs


def judge(case, obs, res):
    kind = case["kind"]
    conf = CONFIGS[case["config"]]

    def bad(exp, seen, what, kf=None):
        res.violation(case, exp, seen, kf=kf,
                      sig=core.digest([kind, what, str(kf)]), note=what)
    if case["cancel_at"] is None:
        # the default run: the group must get going at all
        if obs["outcome"][0] == "error":
            kf = None
            if kind == "fast" and obs["outcome"][1] == "KeyError":
                kf = KF_FAST_START
            bad("group runs", obs["outcome"], "sync group dies by itself", kf)
        if kind == "process" and (obs["child"][0] != "pending" or
                                  obs["cycles"] < CYCLES):
            bad("the subprocess's loop runs", (obs["child"], obs["cycles"]),
                "sync group dies by itself")
        return
    if not obs["cancelled_running"]:
        return
    out = obs["outcome"]
    # the documented defect: the task is cancelled before wait_for_process
    # ever ran, nobody tells the subprocess to stop, it goes on and on
    pre = KF_PROC_PRESTART if kind == "process" and case["cancel_at"] == 0 \
        and out == ("cancelled",) and obs["running_flag"] \
        and not obs["child_exited"] and obs["child"] == ("pending",) \
        else None
    if out != ("cancelled",):
        kf = None
        if kind == "process" and out[0] == "error" and \
                out[1] in ("UnboundLocalError", "NameError"):
            kf = KF_PROC_UNBOUND
        if kind == "fast" and out[0] == "error" and out[1] == "KeyError":
            kf = KF_FAST_START
        bad(("cancelled",), out, "task did not end cancelled", kf)
    shared = case.get("companion") == "shared"
    for i, ctl in enumerate(obs["al_requests"]):
        if shared and i == 0:
            # the companion keeps this terminal OPERATIONAL (judged below);
            # the group under test has it read-only and asks for nothing
            continue
        if 8 in ctl:
            last_op = len(ctl) - 1 - ctl[::-1].index(8)
            if 4 not in ctl[last_op + 1:]:
                bad("SAFE-OP request after the OP request",
                    dict(terminal=i, requests=ctl),
                    "terminal asked to go OPERATIONAL is not asked back to "
                    "SAFE-OPERATIONAL", pre or KF_OP_BEFORE_TRY)
    if any(x is not None for fu in obs["fmmu_used"] for x in fu):
        bad("all FMMUs free", obs["fmmu_used"], "FMMU not freed", pre)
    if kind == "fast":
        if obs["registered"] or obs["sync_groups"]:
            bad("program unregistered", (obs["registered"],
                                         obs["sync_groups"]),
                "kernel program still registered")
    if kind == "process":
        if obs["running_flag"]:
            bad("subprocess told to stop", "running flag still set",
                "subprocess not stopped", pre)
        elif out[0] != "pending" and obs["child"][0] == "pending":
            bad("subprocess stopped", "its loop goes on",
                "subprocess not stopped")
        if out == ("cancelled",) and not obs["child_exited"]:
            bad("task waits for the subprocess to exit", "ended before",
                "task ended before the subprocess stopped", pre)
    comp = obs.get("companion")
    if comp:
        if comp["done"]:
            bad("the other group keeps running", comp["error"] or "ended",
                "cancelling one group ended another one")
        ctl = comp["al_requests"]
        if 8 in ctl and 4 in ctl[len(ctl) - ctl[::-1].index(8):]:
            bad("the other group's terminal stays OPERATIONAL", ctl,
                "cancelling one group took another group's terminal out of "
                "OPERATIONAL")
        if not comp["done"] and not comp["fmmu_held"]:
            bad("the other group's FMMUs stay its own", comp["fmmu_used"],
                "cancelling one group released another group's FMMU")
        if kind == "fast" and comp["index"] is not None and \
                not comp["done"] and not comp["slot_ok"]:
            bad("the other group's program stays registered under its own "
                "number", comp["index"],
                "cancelling one group unregistered / replaced another "
                "group's program")
    if "restart" in obs and obs["restart"] != ("cycle",):
        bad("the cancelled group can be started again", obs["restart"],
            "restarted group does not reach its first cycle")
    for msg, exc in obs["loop_errors"]:
        if exc in ("CancelledError",):
            continue
        bad("no stray exception", (msg, exc), "exception never retrieved: "
            + exc, KF_FAST_START if exc == "KeyError" and kind == "fast"
            else None)


def work(item, res):
    kind, cname, late_at, latency, via_run, companion, silents = item
    # every execution ends with a full garbage collection (the 'never
    # retrieved' reports); what exists by now need not be walked each time
    gc.collect()
    gc.freeze()
    base = dict(kind=kind, config=cname, late_at=late_at, latency=latency,
                via_run=via_run)
    if companion:
        base["companion"] = companion
    ref = execute(kind, cname, late_at, None, 0, latency, via_run, companion)
    judge(dict(base, cancel_at=None), ref, res)
    n = ref["steps"]
    # which FMMU numbers the running group holds (whatever the allocation
    # policy of the code under test is)
    res.cov["fmmu_numbers_held"] = set(
        res.cov.get("fmmu_numbers_held", ())) | {
        i for fu in ref["fmmu_used"] for i, x in enumerate(fu)
        if x is not None}
    res.count("evaluations")
    reached = 0
    delays = (0, 2) if kind == "process" else (0,)
    for k in range(0, n + 1):
        for delay in delays:
            for silent in silents:
                obs = execute(kind, cname, late_at, k, delay, latency,
                              via_run, companion, silent)
                if silent and not obs["dropped"] and False in silents:
                    # no cyclic frame was on its way any more: this is the
                    # execution with the answering bus once again
                    continue
                res.count("evaluations")
                res.count("transitions", obs["steps"])
                case = dict(base, cancel_at=k, child_delay=delay)
                if silent:
                    case["silent"] = True
                if obs["cancelled_running"]:
                    reached += 1
                    res.nontrivial.add(core.digest(case))
                if "restart" in obs:
                    res.count("restarts")
                    res.count(f"restarts_{kind}")
                if obs["dropped"]:
                    res.count(f"cancelled_on_silent_bus_{kind}")
                res.outcomes.add((kind, obs["outcome"][:2]))
                judge(case, obs, res)
    res.count(f"cancellation_points_{kind}", reached)
    a = execute(kind, cname, late_at, n // 2, 0, latency, via_run,
                companion, silents[-1])
    b = execute(kind, cname, late_at, n // 2, 0, latency, via_run,
                companion, silents[-1])
    if a != b:
        raise core.Internal("non-deterministic execution")


def run(ctx):
    items = []
    both = (False, True)
    for kind in ("slow", "fast", "process"):
        # the bus falling silent matters where somebody has to notice a
        # flag by himself (process); the other kinds get it in the thorough
        # tier on the plain configurations
        silents = both if kind == "process" or not ctx.quick else (False,)
        boundary = BOUNDARY if ctx.quick else BOUNDARY + BOUNDARY_MORE
        for cname in CONFIGS:
            if cname == "ro-3fmmu":
                continue
            if kind == "process" and cname not in (
                    "one-fmmu-rw", "one-direct-rw") + boundary:
                continue
            if cname in BOUNDARY_MORE and ctx.quick:
                continue
            if cname in boundary:
                lates = [None] if ctx.quick else [None, 1]
            elif kind == "process":
                lates = [None, 1]
            else:
                lates = [None, 1] if ctx.quick else [None, 0, 1, 2]
            for late_at in lates:
                items.append((kind, cname, late_at, 0, False, None, silents))
            if kind != "process" and cname not in boundary or \
                    kind == "process" and cname == "one-fmmu-rw":
                # slow terminals: a state change takes two status polls
                items.append((kind, cname, None, 2, False, None, (False,)))
            if kind == "fast" and cname in ("one-fmmu-rw", "two-fmmu-rw"):
                # cancelled by leaving `async with ec.run():`
                items.append((kind, cname, None, 0, True, None, (False,)))
            if kind != "process" and cname in ("one-fmmu-rw",
                                               "fmmu-rw+direct-ro"):
                # another group of the same master keeps running
                for comp in ("before", "after"):
                    items.append((kind, cname, None, 0, False, comp,
                                  (False,)))
        if kind != "process":
            # ... on the same terminal: it holds FMMU 1 and 2
            items.append((kind, "ro-3fmmu", None, 0, False, "shared",
                          (False,)))
    res = core.pmap(ctx, work, items, chunk=1)
    # merge the per-item dicts that pmap overwrote
    res.cov["states"] = len(res.nontrivial)
    res.cov["traces_validated_against_impl"] = res.cov.get("evaluations", 0)
    broken = any(v["kf"] is None for v in res.violations)
    for kind in ("slow", "fast", "process"):
        if not res.cov.get(f"cancellation_points_{kind}"):
            raise core.Internal(f"no cancellation point reached for the "
                                f"{kind} group kind (vacuous)")
        # (a tree on which no group of a kind ends cleanly has violations)
        if not res.cov.get(f"restarts_{kind}") and not broken:
            raise core.Internal(f"no cancelled {kind} group was started "
                                "again (vacuous)")
    held = res.cov["fmmu_numbers_held"] = sorted(
        res.cov.get("fmmu_numbers_held", ()))
    if held[:2] != [0, 1] and not broken:
        raise core.Internal(f"mappings land on FMMU numbers {held} only: "
                            "the terminal sets do not reach FMMU 0 and 1")
    if not res.cov.get("cancelled_on_silent_bus_process") and not broken:
        raise core.Internal("no process group was cancelled on a silent bus")
    res.sample(dict(kind="slow", config="fmmu-rw+direct-ro", late_at=1,
                    cancel_at=37))
    res.sample(dict(kind="process", config="rw-2fmmu", late_at=None,
                    cancel_at=60, child_delay=2, silent=True,
                    meaning="the child's real loop is in its cyclic part "
                            "when the task is cancelled and the bus stops "
                            "answering process data; mappings on FMMU 1 "
                            "and 0; the group is started again afterwards"))
    res.assumptions += [
        "a cancellation point is a driver step (one loop iteration, one "
        "frame delivery or one timer jump); after the cancellation the bus "
        "keeps answering until the task has finished, or (choice) loses "
        "every cyclic process-data frame of the group from then on while "
        "still answering state-change and FMMU datagrams",
        "'FMMUs freed' is judged on the terminal objects' slot tables",
        "fast groups run over the simulated bpf() (program table = a "
        "PROG_ARRAY in mc/simkernel); frames return from the bus directly",
        "process groups: the multiprocessing context's Process and "
        "os.pidfd_open are seams; the child is the real "
        "ProcessSyncGroup.subprocess_loop (ec.run() replaced by an empty "
        "context manager) run as a second task on the same virtual loop, "
        "on the SAME group, master and terminal objects (the real child "
        "works on pickled copies); its pidfd becomes readable 0 or 2 driver "
        "steps after that task ended and stays readable",
        "restart: a group whose task ended cancelled (process: whose child "
        "has exited) is started again on the same object (fast: a new "
        "FastSyncGroup over the same devices, terminals and master, under "
        "a program number of its own) with the bus answering normally and "
        "must reach one more update_devices() within "
        f"{RESTART_HORIZON} driver steps; not done after leaving ec.run()",
        "a companion group sharing the terminal is through its first cycle "
        "before the group under test starts",
        f"a task still pending {HORIZON} driver steps after its "
        "cancellation is reported as not ended"]
    return res


def replay(ctx, rep):
    res = core.Result()
    c = rep["case"]
    obs = execute(c["kind"], c["config"], c["late_at"], c["cancel_at"],
                  c.get("child_delay", 0), c.get("latency", 0),
                  c.get("via_run", False), c.get("companion"),
                  c.get("silent", False))
    print(obs)
    judge(c, obs, res)
    return res.violations
