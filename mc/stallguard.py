"""Deterministic busy-loop detection for selected code objects.

Uses sys.monitoring (Python 3.12) LINE events enabled *locally* for the given
code objects only, so everything else runs at full speed.  When more than
`budget` line events are counted since the last reset(), the callback raises
`Stall` (a KeyboardInterrupt subclass, so that `except Exception` handlers in
the monitored code cannot swallow it).
"""
import sys

TOOL = 4


class Stall(KeyboardInterrupt):
    pass


class StallGuard:
    _installed = None

    def __init__(self, functions, budget=20000):
        self.budget = budget
        self.count = 0
        self.codes = [f.__code__ for f in functions]
        mon = sys.monitoring
        if StallGuard._installed is not None:
            StallGuard._installed.uninstall()
        if mon.get_tool(TOOL) is None:
            mon.use_tool_id(TOOL, "verif-stallguard")
        mon.register_callback(TOOL, mon.events.LINE, self._line)
        for c in self.codes:
            mon.set_local_events(TOOL, c, mon.events.LINE)
        StallGuard._installed = self

    def _line(self, code, line):
        self.count += 1
        if self.count > self.budget:
            self.count = 0
            raise Stall(f"more than {self.budget} lines executed in "
                        f"{code.co_name} without returning to the event loop")

    def reset(self):
        self.count = 0

    def uninstall(self):
        mon = sys.monitoring
        for c in self.codes:
            mon.set_local_events(TOOL, c, 0)
        mon.register_callback(TOOL, mon.events.LINE, None)
        StallGuard._installed = None
