"""C07 - packet variables access exactly their declared bytes and byte order.

Bounded exhaustive enumeration of (access path, guard size, format, offset,
operation) programs, written with the real DSL on real ``XDP`` subclasses (the
DSL itself emits the packet-size guard).  The assembled bytes run in the
independent interpreter on packets of every length around the guard with
several content patterns; a deterministic subset also runs in the real kernel
(BPF_PROG_TEST_RUN) and must agree with the interpreter.  The oracle is
``struct.unpack_from`` / ``struct.pack`` on a Python copy of the packet.

Operands and results travel through one array-map value (raw instructions
only, register r6): bytes [0,64) inputs, bytes [64,128) outputs.
"""
import operator
import os
import random
import struct

from mc import bpfvm, core, kern
from mc.dsl import Raw
from ebpfcat.ebpf import Instruction, LocalVar
from ebpfcat.xdp import XDP, PacketVar

PROP = "C07"
LEVEL = "model_checking"
RULE = ("programs = access path (PacketVar under minimumPacketSize, pB/pH/pI/pQ "
        "under minimumPacketSize, pX arrays under packetSize > >= < <=) x guard "
        "x format x offset x operation (read into registers/locals, write of "
        "constant/register/local, in-place += -= |= &=); each program runs on "
        "every packet length around the guard x content pattern x operand "
        "value; a run is non-trivial when the guarded body executed and the "
        "oracle judged the accessed bytes (counted as judged_runs); distinct = "
        "distinct (program, content pattern)")

M64 = (1 << 64) - 1
LETTERS = "BHIQbhiq"
SIZE = {"B": 1, "b": 1, "H": 2, "h": 2, "I": 4, "i": 4, "Q": 8, "q": 8, "x": 8}
ORDERS = ["", "<", ">", "!"]
REGBITS = {"r": (64, False), "sr": (64, True), "w": (32, False),
           "sw": (32, True), "x": (64, True)}
IPOPS = {"+=": (operator.iadd, operator.add), "-=": (operator.isub, operator.sub),
         "|=": (operator.ior, operator.or_), "&=": (operator.iand, operator.and_)}

IN, OUT, IOSIZE = 0, 64, 128
O_VAL, O_BODY, O_ELSE = OUT, OUT + 8, OUT + 16
MARK = 0x600D
KEYOFF = -512

KF_SIGN = "C07-signed-endian-zero-extended"
KF_BYTE = "C07-endian-prefix-1byte"

XLOC_Q = [">H", ">i", "!Q", "<h", "<I"]
XLOC = [o + c for o in "><!" for c in "BHIQbhiq"]

PATHS = ["var", "minarr", "gt", "ge", "lt", "le"]
CMP = {"gt": operator.gt, "ge": operator.ge, "lt": operator.lt,
       "le": operator.le}


def letter(fmt):
    return fmt[-1]


def signed(fmt):
    return letter(fmt).islower()


def fmt_range(fmt):
    bits = 8 * SIZE[letter(fmt)]
    if signed(fmt):
        return -(1 << (bits - 1)), (1 << (bits - 1)) - 1
    return 0, (1 << bits) - 1


def sfmt(fmt):
    """struct format of a packet format ('x' is ebpfcat's 64-bit fixed point,
    stored as a signed 64-bit integer)"""
    return fmt[:-1] + "q" if letter(fmt) == "x" else fmt


def sx(v, bits):
    v &= (1 << bits) - 1
    return v - (1 << bits) if v >> (bits - 1) else v


# ------------------------------------------------------------ i/o map
_io = {}


def io_fd():
    """one array map per process: a real one when bpf() works (so that the
    same program bytes serve interpreter and kernel), else a made-up fd"""
    pid = os.getpid()
    if _io.get("pid") != pid:
        _io.clear()
        _io["pid"] = pid
        if kern.available():
            _io["fd"] = kern.map_create(2, 4, IOSIZE, 1)
            _io["real"] = True
        else:
            _io["fd"] = 1000
            _io["real"] = False
    return _io["fd"], _io["real"]


# ------------------------------------------------------------ programs
class Prog:
    """one compiled case = (path, guard, fmt, offset, op)"""

    def __init__(self, case):
        self.case = case
        path, G, fmt, off, op = case
        self.fd, self.real = io_fd()
        attrs = {}
        if path in ("var", "minarr"):
            attrs["minimumPacketSize"] = G
        if path == "var":
            attrs["pv"] = PacketVar(off, fmt)
        self.locfmt = None
        if op[0] == "rd" and op[1] == "loc":
            self.locfmt = op[2]
        elif op[0] == "wv":
            self.locfmt = op[1]
        elif op[0] == "ip" and op[2] == "loc":
            self.locfmt = op[3]
        if self.locfmt is not None:
            attrs["lv"] = LocalVar(self.locfmt)
        prog = self

        def program(e):
            prog.emit(e)
        attrs["program"] = program
        cls = type("C07P", (XDP,), attrs)
        e = self.e = cls(license="GPL")
        self.preamble()
        self.code = e.assemble()
        self.insns = bpfvm.decode(self.code)
        self.kfd = None

    # raw instructions, never through the DSL under test
    def raw(self, op, dst, src, off, imm):
        self.e.opcodes.append(Instruction(Raw(op), dst, src, off, imm))

    def preamble(self):
        a = self.raw
        a(0xbf, 6, 1, 0, 0)               # r6 = ctx
        a(0x62, 10, 0, KEYOFF, 0)         # *(u32 *)(r10 - 512) = 0
        self.e.opcodes.append(Instruction(Raw(0x18), 1, 1, 0, self.fd))
        self.e.opcodes.append(Instruction(Raw(0), 0, 0, 0, 0))
        a(0xbf, 2, 10, 0, 0)
        a(0x07, 2, 0, 0, KEYOFF)          # r2 = r10 - 512
        a(0x85, 0, 0, 0, 1)               # map_lookup_elem
        a(0x55, 0, 0, 2, 0)               # if r0 != 0 goto +2
        a(0xb7, 0, 0, 0, 0)
        a(0x95, 0, 0, 0, 0)
        a(0xbf, 1, 6, 0, 0)               # r1 = ctx
        a(0xbf, 6, 0, 0, 0)               # r6 = i/o area
        self.e.owners.add(6)

    def mark(self, where):
        self.raw(0xb7, 0, 0, 0, MARK)
        self.raw(0x7b, 6, 0, where, 0)

    def emit(self, e):
        path, G, fmt, off, op = self.case
        if path in ("var", "minarr"):
            self.mark(O_BODY)
            self.statement(e, e)
            return
        cm = {"gt": lambda: e.packetSize > G, "ge": lambda: e.packetSize >= G,
              "lt": lambda: e.packetSize < G, "le": lambda: e.packetSize <= G
              }[path]()
        with cm as p:
            self.mark(O_BODY)
            if path in ("gt", "ge"):
                self.statement(e, p)
        with p.Else:
            self.mark(O_ELSE)
            if path in ("lt", "le"):
                self.statement(e, p)
        self.raw(0xb7, 0, 0, 0, 2)
        self.raw(0x95, 0, 0, 0, 0)

    # the variable under test
    def get(self, e, p):
        path, G, fmt, off, op = self.case
        if path == "var":
            return e.pv
        return getattr(p, "p" + fmt)[off]

    def put(self, e, p, value):
        path, G, fmt, off, op = self.case
        if path == "var":
            e.pv = value
        else:
            getattr(p, "p" + fmt)[off] = value

    def plant_reg(self, e, kind, no, slot=0):
        bits = REGBITS[kind][0]
        self.raw(0x79 if bits == 64 else 0x61, no, 6, IN + 8 * slot, 0)
        e.owners.add(no)
        return getattr(e, kind)[no]

    def plant_local(self, e, slot=0):
        d = type(e).__dict__["lv"]
        self.raw(0x79, 0, 6, IN + 8 * slot, 0)
        self.raw({1: 0x73, 2: 0x6b, 4: 0x63, 8: 0x7b}[SIZE[letter(d.fmt)]],
                 10, 0, d.relative_addr, 0)
        return e.lv

    def statement(self, e, p):
        path, G, fmt, off, op = self.case
        k = op[0]
        if k == "rd":
            if op[1] == "reg":
                getattr(e, op[2])[7] = self.get(e, p)
                self.raw(0x7b, 6, 7, O_VAL, 0)
            else:
                e.lv = self.get(e, p)
                d = type(e).__dict__["lv"]
                self.raw({1: 0x71, 2: 0x69, 4: 0x61,
                          8: 0x79}[SIZE[letter(d.fmt)]],
                         0, 10, d.relative_addr, 0)
                self.raw(0x7b, 6, 0, O_VAL, 0)
        elif k == "wc":
            self.put(e, p, op[1])
        elif k == "wr":
            self.put(e, p, self.plant_reg(e, op[1], 7))
        elif k == "wv":
            self.put(e, p, self.plant_local(e))
        elif k == "ip":
            if op[2] == "const":
                amount = op[3]
            elif op[2] == "reg":
                amount = self.plant_reg(e, op[3], 7)
            else:
                amount = self.plant_local(e)
            self.put(e, p, IPOPS[op[1]][0](self.get(e, p), amount))
        else:
            raise core.Internal(f"unknown operation {op!r}")

    # ---------------------------------------------------------- running
    def run_vm(self, pkt, inp):
        """-> (retval, io area bytes, steps); raises bpfvm.Trap"""
        k = bpfvm.Kernel()
        m = bpfvm.BpfMap(bpfvm.BpfMap.ARRAY, 4, IOSIZE, 1)
        k.maps[self.fd] = m
        struct.pack_into("<Q", m.area, IN, inp & M64)
        vm = bpfvm.VM(k, self.insns, pkt)
        self.vm = vm
        vm.run()
        return vm.retval, bytes(m.area), vm.steps

    def load_kernel(self):
        if not self.real:
            return False
        try:
            self.kfd = kern.prog_load(self.code)
            return True
        except kern.LoadError:
            return False

    def run_kernel(self, pkt, inp):
        area = bytearray(IOSIZE)
        struct.pack_into("<Q", area, IN, inp & M64)
        kern.map_update(self.fd, bytes(4), area)
        ret, out = kern.test_run(self.kfd, pkt)
        return ret, out, kern.map_lookup(self.fd, bytes(4), IOSIZE)

    def close(self):
        if self.kfd is not None:
            os.close(self.kfd)
            self.kfd = None


# ------------------------------------------------------------ alphabets
def content(cid, n, seed):
    if cid == "pos":
        return bytes((i * 0x1d + 0x81) & 0xff for i in range(n))
    if cid == "ff":
        return b"\xff" * n
    if cid == "80":
        return b"\x80" * n
    if cid == "8000":
        return bytes(0x80 if i & 1 else 0 for i in range(n))
    if cid == "0080":
        return bytes(0 if i & 1 else 0x80 for i in range(n))
    if cid == "7fff":
        return bytes(0xff if i & 1 else 0x7f for i in range(n))
    if cid == "fe":
        return bytes((0xfe - i) & 0xff for i in range(n))
    if cid == "seed":
        return random.Random(seed * 7919 + 13).randbytes(n)
    raise core.Internal(f"content {cid}")


CONTENTS = ["pos", "ff", "80", "8000", "0080", "7fff", "fe", "seed"]


def lengths(G):
    return sorted(set(range(G - 2, G + 10)) | {14, 1514})


def target_values(fmt, seed):
    """raw 64-bit operand patterns for writes into a variable of this format"""
    lo, hi = fmt_range(fmt)
    n = SIZE[letter(fmt)]
    pat = int.from_bytes(bytes(range(1, n + 1)), "big")
    vs = [0, 1, hi, hi - 1, pat, 1 << (8 * n - 1), (1 << (8 * n)) + 0x34]
    if signed(fmt):
        vs += [lo, -2, -pat]
    vs.append(random.Random(seed * 31 + n).getrandbits(8 * n))
    out = []
    for v in vs:
        v &= M64
        if v not in out:
            out.append(v)
    return out


def amount_values(fmt, seed):
    n = SIZE[letter(fmt)]
    vs = [1, 3, 0x80, (1 << (8 * n - 1)) - 1, (1 << (8 * n)) - 1, -1,
          int.from_bytes(bytes(range(0x11, 0x11 + n)), "big"),
          random.Random(seed * 37 + n).getrandbits(8 * n)]
    out = []
    for v in vs:
        v &= M64
        if v not in out:
            out.append(v)
    return out


def const_values(fmt, seed):
    lo, hi = fmt_range(fmt)
    n = SIZE[letter(fmt)]
    pat = int.from_bytes(bytes(range(1, n + 1)), "big")
    vs = [0, 1, hi, pat]
    if signed(fmt):
        vs += [lo, -2]
    else:
        vs += [1 << (8 * n - 1)]
    vs.append(random.Random(seed * 41 + n).randint(lo, hi))
    return sorted(set(vs))


def operations(fmt, seed, quick):
    ops = []
    if letter(fmt) == "x":
        return [("rd", "reg", "x"), ("wr", "x")]
    for k in ("r", "sr", "w", "sw"):
        ops.append(("rd", "reg", k))
    for f in ("BhIq" if quick else LETTERS):
        ops.append(("rd", "loc", f))
    # copies between variables that both carry a byte order
    for f in XLOC_Q if quick else XLOC:
        ops.append(("rd", "loc", f))
        ops.append(("wv", f))
    for c in const_values(fmt, seed):
        ops.append(("wc", c))
    for k in ("r", "sr", "w", "sw"):
        ops.append(("wr", k))
    for f in ("bHiQ" if quick else LETTERS):
        ops.append(("wv", f))
    for o in IPOPS:
        for c in (3, 0x81) if quick else (1, 3, 0x81, -2):
            ops.append(("ip", o, "const", c))
        for k in ("r", "w"):
            ops.append(("ip", o, "reg", k))
        for f in ("I",) if quick else ("B", "h", "I", "q"):
            ops.append(("ip", o, "loc", f))
    return ops


def offsets(G, fmt, ctx_quick, seed):
    top = G - SIZE[letter(fmt)]
    if not ctx_quick:
        return list(range(top + 1))
    pick = {0, 1, 3, top // 2, top - 1, top, (seed * 5 + 2) % (top + 1)}
    return sorted(o for o in pick if 0 <= o <= top)


# ------------------------------------------------------------ the oracle
def source_value(kind, what, raw):
    """the Python integer a source operand denotes, from its planted bits"""
    if kind == "reg":
        bits, sg = REGBITS[what]
        return sx(raw, bits) if sg else raw & ((1 << bits) - 1)
    n = SIZE[letter(what)]
    # the planted bits are the variable's bytes in memory order
    return struct.unpack(what if len(what) > 1 else "<" + what,
                         (raw & M64).to_bytes(8, "little")[:n])[0]


def judge(case, pkt0, pkt1, area, raw_in, ran, res):
    """compare one completed run with the oracle -> list of (what, expected,
    observed, kf)"""
    path, G, fmt, off, op = case
    n = SIZE[letter(fmt)]
    bad = []
    if not ran:
        if pkt1 != pkt0:
            bad.append(("packet changed although the guarded body did not run",
                        pkt0.hex(), pkt1.hex(), None))
        return bad, False
    k = op[0]
    old = struct.unpack_from(sfmt(fmt), pkt0, off)[0]
    judged = True
    if k == "rd":
        if pkt1 != pkt0:
            bad.append(("read changed the packet", pkt0.hex(), pkt1.hex(),
                        None))
        dbits = REGBITS[op[2]][0] if op[1] == "reg" \
            else 8 * SIZE[letter(op[2])]
        obs = struct.unpack_from("<Q", area, O_VAL)[0] & ((1 << dbits) - 1)
        exp = old & ((1 << dbits) - 1)
        if op[1] == "loc" and op[2][0] in ">!":
            # the local's bytes, read back as a little-endian number
            obs = int.from_bytes(obs.to_bytes(dbits // 8, "little"), "big")
        if obs != exp:
            kf = None
            if len(fmt) > 1 and signed(fmt) and 8 * n < dbits and old < 0 \
                    and obs == old & ((1 << (8 * n)) - 1):
                kf = KF_SIGN
            bad.append(("read value", hex(exp), hex(obs), kf))
        return bad, True
    # writes: every byte outside the variable must be unchanged
    if pkt1[:off] != pkt0[:off] or pkt1[off + n:] != pkt0[off + n:]:
        bad.append(("write touched bytes outside the variable",
                    pkt0.hex(), pkt1.hex(), None))
    if k == "wc":
        new = op[1]
    elif k == "wr":
        new = source_value("reg", op[1], raw_in)
        if op[1] == "sw" and new < 0 and n == 8:
            # widening a negative 32-bit signed register is C01's subject
            res.count("left_to_C01")
            return bad, False
    elif k == "wv":
        new = source_value("loc", op[1], raw_in)
    else:
        if op[2] == "const":
            amt = op[3]
        else:
            amt = source_value(op[2], op[3], raw_in)
        new = IPOPS[op[1]][1](old, amt)
    lo, hi = fmt_range(fmt)
    if not lo <= new <= hi:
        res.count("outside_precondition")
        judged = False
    else:
        exp = struct.pack(sfmt(fmt), new)
        obs = pkt1[off:off + n]
        if obs != exp:
            bad.append(("stored bytes", exp.hex(), obs.hex(), None))
    return bad, judged


def expected_run(path, G, length, need):
    """-> (branch that must execute: 'body'/'else'/None=either allowed,
           whether the statement executes)"""
    if path in ("var", "minarr"):
        if length > G:
            return True
        if length < need:
            return False
        return None     # neither demanded nor forbidden by the statement
    return CMP[path](length, G)


def ran_len(length, G):
    return G - 1 <= length <= G + 1


def opsig(op):
    if op[0] == "wc":
        return ["wc"]
    if op[0] == "ip" and op[2] == "const":
        return ["ip", op[1], "const"]
    return list(op)


_stored = {}
KEEP = 2


def violation(res, case, expected, observed, kf, sig, note):
    """store at most KEEP violations per signature and work item (the
    counter is reset per item, so the stored set is deterministic)"""
    n = _stored[sig] = _stored.get(sig, 0) + 1
    if n > KEEP:
        res.count("violations_not_stored")
        if kf is not None:
            res.count("not_stored:" + kf)
        return
    res.violation(case, expected, observed, kf=kf, sig=sig, note=note)


def run_case(case, plan, seed, res, caseno, kernel_every):
    path, G, fmt, off, op = case
    n = SIZE[letter(fmt)]
    cj = dict(path=path, guard=G, fmt=fmt, off=off, op=list(op))
    try:
        p = Prog(case)
    except core.Internal:
        raise
    except Exception as e:
        res.count("rejected_by_generator")
        res.outcomes.add("rejected:" + type(e).__name__)
        return
    res.count("programs")
    use_kernel = bool(kernel_every) and caseno % kernel_every == 0 \
        and p.real and p.load_kernel()
    if kernel_every and caseno % kernel_every == 0 and p.real \
            and not use_kernel:
        res.count("kernel_rejected")
    try:
        for runno, (length, cid, raw_in) in enumerate(plan):
            pkt0 = content(cid, length, seed)
            pkt = bytearray(pkt0)
            res.count("evaluations")
            rj = dict(cj, length=length, content=cid, input=raw_in)
            want = expected_run(path, G, length, off + n)
            try:
                ret, area, steps = p.run_vm(pkt, raw_in)
            except bpfvm.Trap as t:
                res.count("transitions", p.vm.steps)
                reason = str(t)
                if use_kernel and length >= 14:
                    raise core.Internal(
                        f"interpreter traps ({reason}) on a program the "
                        f"kernel accepted: {rj}")
                kf = None
                if len(fmt) > 1 and n == 1 and \
                        reason.startswith("invalid endian width 8"):
                    kf = KF_BYTE
                res.outcomes.add(("trap", reason.split(":")[0][:40], str(kf)))
                violation(res, rj, "program runs to completion", reason, kf,
                          core.digest(["trap", path in ("var", "minarr"),
                                       fmt, opsig(op),
                                       reason.split(" at ")[0][:30]]),
                          "generated program traps in the interpreter")
                continue
            res.count("transitions", steps)
            body = struct.unpack_from("<Q", area, O_BODY)[0] == MARK
            els = struct.unpack_from("<Q", area, O_ELSE)[0] == MARK
            if use_kernel and length >= 14 and (runno % 2 == 0 or ran_len(
                    length, G)):
                kret, kout, karea = p.run_kernel(pkt0, raw_in)
                res.count("kernel_validated")
                if (kret, bytes(kout), bytes(karea)[OUT:]) != \
                        (ret, bytes(pkt), area[OUT:]):
                    raise core.Internal(
                        f"VM/kernel disagreement on {rj}: vm=({ret}, "
                        f"{bytes(pkt)[:40].hex()}, {area[OUT:OUT+24].hex()}) "
                        f"kernel=({kret}, {bytes(kout)[:40].hex()}, "
                        f"{bytes(karea)[OUT:OUT+24].hex()})")
            # ---- which branch ran
            if path in ("var", "minarr"):
                ran = body
                if want is not None and body != want:
                    violation(
                        res, rj, f"body {'runs' if want else 'does not run'} "
                        f"(length {length}, minimumPacketSize {G})",
                        f"body {'ran' if body else 'did not run'}", None,
                        core.digest(["guard", "min"]),
                        "minimumPacketSize guard")
                    continue
            else:
                ran = body if path in ("gt", "ge") else els
                if (body, els) != (want, not want):
                    violation(
                        res, rj, f"with-body runs: {want}, Else runs: "
                        f"{not want} (packetSize {path} {G}, length {length})",
                        f"with-body ran: {body}, Else ran: {els}", None,
                        core.digest(["guard", path]),
                        "packetSize comparison")
                    continue
            bad, judged = judge(case, pkt0, bytes(pkt), area, raw_in, ran, res)
            if ran and judged:
                res.count("judged_runs")
                res.nontrivial.add((caseno << 4) | CONTENTS.index(cid))
            res.outcomes.add((path in ("var", "minarr"), bool(ran), op[0],
                              bool(bad)))
            for what, exp, obs, kf in bad:
                violation(res, rj, exp, obs, kf,
                          core.digest([what, path in ("var", "minarr"),
                                       fmt, opsig(op), str(kf)]), what)
    finally:
        p.close()


def plan_for(case, seed, quick):
    """the (length, content, operand) runs of one program"""
    path, G, fmt, off, op = case
    if op[0] in ("wr", "wv"):
        vals = target_values(fmt, seed)
    elif op[0] == "ip" and op[2] != "const":
        vals = amount_values(fmt, seed)
    else:
        vals = [0]
    plan = []
    for length in lengths(G):
        for cid in ("pos", "ff"):
            plan.append((length, cid, vals[min(4, len(vals) - 1)]))
    conts = CONTENTS if not quick else ["pos", "ff", "8000", "0080", "seed"]
    for length in (G, G + 1, 1514):
        for cid in conts:
            for v in vals:
                if (length, cid, v) not in plan:
                    plan.append((length, cid, v))
    return plan


def cases_of(item):
    path, G, fmt, quick, seed = item
    for off in offsets(G, fmt, quick, seed):
        for op in operations(fmt, seed, quick):
            yield (path, G, fmt, off, op)


def work(item, res):
    (path, G, fmt, quick, seed, kernel_every), base = item
    _stored.clear()
    for i, case in enumerate(cases_of((path, G, fmt, quick, seed))):
        run_case(case, plan_for(case, seed, quick), seed, res, base + i,
                 kernel_every)


def formats_for(path):
    if path == "var":
        return [o + c for c in LETTERS for o in ORDERS] + ["x"]
    return list("BHIQ")     # the arrays a Packet offers


def run(ctx):
    items = []
    base = 0
    ke = 11 if ctx.quick else 7
    for path in PATHS:
        for G in (16, 24):
            for fmt in formats_for(path):
                it = (path, G, fmt, ctx.quick, ctx.seed, ke)
                n = sum(1 for _ in cases_of(it[:5]))
                items.append((it, base))
                base += n
    res = core.pmap(ctx, work, items, chunk=1)
    res.cov["states"] = len(res.nontrivial)
    res.cov["traces_validated_against_impl"] = res.cov.get("evaluations", 0)
    res.cov["kernel_available"] = kern.available()
    res.cov["alphabet"] = dict(
        paths=PATHS, guards=[16, 24], formats=len(formats_for("var")),
        programs_enumerated=base, contents=len(CONTENTS),
        lengths=len(lengths(16)))
    res.sample(dict(path="var", guard=16, fmt=">h", off=3,
                    op=["rd", "reg", "r"]))
    res.sample(dict(path="le", guard=24, fmt="I", off=20,
                    op=["ip", "+=", "reg", "w"]))
    res.assumptions += [
        "a value read into a destination of n bits must equal the "
        "struct.unpack value modulo 2^n (two's complement); for 32-bit "
        "registers only the low 32 bits are judged",
        "a write is judged against struct.pack only when the source value "
        "(in the source's own signedness) or the in-place result is inside "
        "the format's range; otherwise only the untouched bytes are judged "
        "(counted as outside_precondition)",
        "minimumPacketSize = n: the body must run for length > n and must not "
        "run for length < offset + size; for the lengths in between either is "
        "accepted.  packetSize > >= < <= n: the with-body runs exactly when "
        "the comparison of the packet length with n holds, the Else part "
        "otherwise",
        "32-bit signed registers (sw) as write sources are C01's subject "
        "(known finding there) and are only judged through the range rule",
        "native byte order and standard sizes are those of this machine "
        "(little endian); '@'/'=' prefixes are not enumerated",
    ]
    return res


def replay(ctx, rep):
    res = core.Result()
    c = rep["case"]
    op = tuple(c["op"])
    case = (c["path"], c["guard"], c["fmt"], c["off"], op)
    run_case(case, [(c["length"], c["content"], c["input"])], rep.get(
        "seed", ctx.seed), res, 0, 0)
    try:
        print(bpfvm.disasm(Prog(case).insns))
    except Exception as e:
        print("generator:", repr(e))
    return res.violations
