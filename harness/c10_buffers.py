"""C10 - user-space map calls never overrun Python buffers.

Every user-space map operation reachable from the library's Python API is
driven on the real code, with `ebpfcat.bpf.bpf` bound to the simulated
kernel (mc/simkernel).  The simulated kernel knows, for every address it is
handed, which Python object it belongs to and how long that object is; it
records every command whose key / value / next-key buffer is shorter than
what the kernel would read or write (and never touches memory outside).
The property holds iff that record stays empty.

Enumerated: hash-map variables of every format (get / set sequences up to
length 3, plus the default initialisation done by load()), array-map
variables (mmap path; declaration sets as in C08), per-CPU `read()` with
n_possible in {1, 2, ncpu, ncpu+3} (the last with only ncpu CPUs online),
and Dict operations (__setitem__ __getitem__ pop __delitem__ __iter__
values() items() popitem() clear() get() setdefault() `in`; breadth-first over sequences up to length 3, all reachable map
contents) on the Dict declarations of C09.
"""
import itertools
import struct

from mc import core, simkernel
from harness import c08_arraymap as c08
from harness import c09_hashmap as c09
from ebpfcat.hashmap import HashMap

PROP = "C10"
LEVEL = "model_checking"
RULE = ("cases = (declaration, operation sequence): hash-map variables of "
        "formats B H I Q b h i q x (1-2 variables, all get/set sequences of "
        "length <= 3), hash maps with 255 / 256 / 257 (thorough: also 254, "
        "300, 513) variables (get / set of the first, 255th, 256th, 257th, "
        "last; single operations and all set-then-get pairs), array and per-CPU declaration sets of <= 2 variables "
        "from C08's alphabet (per-CPU x 4 possible/online CPU settings), "
        "Dict declarations of C09 with all Python operation sequences of "
        "length <= 3 explored breadth-first over map contents; a case is "
        "non-trivial when at least one map system call with a user buffer "
        "was issued and monitored; distinct = distinct (declaration, "
        "sequence / (state, operation))")

KF_HASHGET = "C10-hashvar-get-short-buffer"
KF_PERCPU = "C10-percpu-read-online-cpus"
HV_FORMATS = ["B", "H", "I", "Q", "b", "h", "i", "q", "x"]


def hv_set_values(fmt):
    if fmt == "x":
        return [3, 1.5]
    lo, hi = c09.fmt_range(fmt)
    return [hi, lo if lo else 1]


class Monitor:
    """turns new entries of sk.overruns into violations"""

    def __init__(self, sk, res):
        self.sk, self.res, self.seen = sk, res, 0
        self.counts = res.cov.setdefault("_sigs", {})

    def new(self):
        out = self.sk.overruns[self.seen:]
        self.seen = len(self.sk.overruns)
        return out

    def judge(self, case, ovs, kf_model=None, note=""):
        """ovs: overrun records of one operation"""
        if not ovs:
            return True
        kf = None
        if kf_model is not None and ovs == [kf_model[1]]:
            kf = kf_model[0]
        sig = core.digest([case.get("kind"), case.get("opkind"),
                           [(o["cmd"], o["what"]) for o in ovs], str(kf)])
        self.counts[sig] = self.counts.get(sig, 0) + 1
        if self.counts[sig] <= 3 or getattr(self.res, "nocap", False):
            self.res.violation(
                case, "every buffer at least as long as the kernel's access",
                ovs, kf=kf, sig=sig, note=note)
        else:
            self.res.count("violations_not_stored")
        return False


# ------------------------------------------------------------------ hash vars
def run_hashvars(item, res):
    fmts, defaults = item
    n = len(fmts)
    ops = []
    for j, f in enumerate(fmts):
        ops.append(("get", j))
        for v in hv_set_values(f):
            ops.append(("set", j, v))
    for length in (1, 2, 3):
        for seq in itertools.product(ops, repeat=length):
            res.count("evaluations")
            sk = simkernel.SimKernel()
            mon = Monitor(sk, res)
            cj = dict(kind="hashvars", fmts=list(fmts),
                      defaults=list(defaults), seq=[list(o) for o in seq])
            try:
                with sk.installed():
                    M = HashMap()
                    attrs = {"hmap": M}
                    for j, (f, d) in enumerate(zip(fmts, defaults)):
                        attrs[f"v{j}"] = M.globalVar(f, default=d)
                    b = c09.dsl.Builder(attrs, n_in=1, n_out=1,
                                        pv_area=c09.HDR)
                    b.finish(2)
                    e = b.e
                    try:
                        e.load()
                    except Exception as ex:
                        res.outcomes.add(("load", type(ex).__name__))
                    ok = mon.judge(dict(cj, opkind="load"), mon.new(),
                                   note="default initialisation in load()")
                    res.outcomes.add(("load", ok))
                    for i, op in enumerate(seq):
                        f = fmts[op[1]]
                        try:
                            if op[0] == "get":
                                getattr(e, f"v{op[1]}")
                            else:
                                setattr(e, f"v{op[1]}", op[2])
                            out = "ok"
                        except Exception as ex:
                            if isinstance(ex, (simkernel.SimTrap,
                                               core.Internal)):
                                raise
                            out = type(ex).__name__
                        model = None
                        if op[0] == "get" and struct.calcsize(f) < 8:
                            model = (KF_HASHGET, dict(
                                cmd="MAP_LOOKUP_ELEM", need=8,
                                have=struct.calcsize(f), what="value"))
                        ok = mon.judge(
                            dict(cj, opkind=op[0], step=i, fmt=f), mon.new(),
                            model, note=f"{op[0]} of a '{f}' hash-map "
                            f"variable (step {i})")
                        res.outcomes.add(("hv", op[0], out, ok))
                    if length == 3 and seq[0][0] != seq[1][0]:
                        res.sample(dict(cj, overruns=list(sk.overruns)),
                                   limit=4)
                    res.count("map_syscalls", sum(
                        1 for c, _ in sk.calls if c in (1, 2, 3, 4, 21)))
                    if any(c in (1, 2, 3, 4, 21) for c, _ in sk.calls):
                        res.nontrivial.add(core.digest(cj))
            finally:
                sk.close_all()


# ------------------------------------------------------------------ arrays
def run_arrays(item, res):
    k, prefix, seed, pcs = item
    for layout in c08.layouts_with_prefix(k, prefix):
        # ---- plain array map: the mmap path
        res.count("evaluations")
        sk = simkernel.SimKernel()
        mon = Monitor(sk, res)
        cj = dict(kind="array", layout=[list(p) for p in layout])
        try:
            with sk.installed():
                try:
                    case = c08.Case(layout)
                    case.b.finish(2)
                    case.e.load()
                except Exception as ex:
                    res.outcomes.add(("array-rejected", type(ex).__name__))
                    case = None
                if case is not None:
                    for rnd in range(3):
                        for i, s in enumerate(case.slots):
                            try:
                                if rnd != 1:
                                    v, _ = c08.py_value(s.fmt, i, rnd, seed)
                                    setattr(s.owner, s.name, v)
                                else:
                                    getattr(s.owner, s.name)
                            except Exception as ex:
                                res.outcomes.add(("array-exc",
                                                  type(ex).__name__))
                    ok = mon.judge(dict(cj, opkind="mmap"), mon.new(),
                                   note="array variable access")
                    res.outcomes.add(("array", ok, sum(
                        1 for c, _ in sk.calls if c in (1, 2, 3, 4, 21))))
                    res.count("array_layouts")
        finally:
            sk.close_all()
        # ---- per-CPU map: read()
        for npos, non, _ in [p + (sp,) for p in [q[:2] for q in pcs]
                             for sp in range(3)]:
            res.count("evaluations")
            sk = simkernel.SimKernel(n_possible=npos, n_online=non)
            sk.possible_spelling = _
            mon = Monitor(sk, res)
            cj = dict(kind="percpu", layout=[list(p) for p in layout],
                      n_possible=npos, n_online=non, spelling=_,
                      possible=sk.possible_text())
            try:
                with sk.installed():
                    try:
                        case = c08.Case(layout, percpu=True)
                        case.b.finish(2)
                        case.e.load()
                    except Exception as ex:
                        res.outcomes.add(("percpu-rejected",
                                          type(ex).__name__))
                        continue
                    size = simkernel.round8(
                        list(sk.kernel.maps.values())[0].value_size)
                    for step in range(3):
                        try:
                            case.e.amap.read()
                            for s in case.slots:
                                var = getattr(s.owner, s.name)
                                for c in range(len(var)):
                                    var[c]
                            out = "ok"
                        except Exception as ex:
                            if isinstance(ex, core.Internal):
                                raise
                            out = type(ex).__name__
                        model = None
                        if npos > non:
                            model = (KF_PERCPU, dict(
                                cmd="MAP_LOOKUP_ELEM", need=size * npos,
                                have=size * non, what="value"))
                        ok = mon.judge(
                            dict(cj, opkind="read", step=step), mon.new(),
                            model, note=f"PerCPUReader.read() with {npos} "
                            f"possible and {non} online CPUs")
                        res.outcomes.add(("percpu", out, ok, npos > non))
                    res.nontrivial.add(core.digest(cj))
                    res.count("map_syscalls", 3)
            finally:
                sk.close_all()


# ------------------------------------------------------------------ Dict
def run_dict(cfg, res):
    holder = []

    def backend():
        be = c09.SimBackend()
        holder.append(be)
        holder.append(Monitor(be.sk, res))
        return be

    def on_edge(cj, st, op, r, seq):
        be, mon = holder
        res.count("evaluations")
        res.count("map_syscalls")
        c2 = dict(cj, opkind=op[0], op=list(op),
                  state=[list(x) for x in st], seq=[list(o) for o in seq])
        ok = mon.judge(c2, mon.new(), note=f"Dict {op} with "
                       f"{len(st)} entries in the map")
        res.outcomes.add(("dict", op[0], r[0], ok))
        res.nontrivial.add(core.digest([cj, [list(x) for x in st], op]))

    log = c09.explore_dict(cfg, 3, backend, None, None, python_only=True,
                           on_edge=on_edge)
    if log and log[0][0] == "rejected":
        res.outcomes.add(("dict-rejected", log[0][1]))


# ------------------------------------------------- many hash-map variables
def run_manyvars(item, res):
    """a HashMap with n variables (around the 256 boundary of the one-byte
    key); get / set of the first, the 255th, the 256th and the last one"""
    n, fmt = item
    picks = sorted({0, 1, 254, 255, 256, n - 1} & set(range(n)))
    ops = [(a, j) for j in picks for a in ("get", "set")]
    seqs = [(o,) for o in ops] + [(("set", j), ("get", k))
                                  for j in picks for k in picks]
    for seq in seqs:
        res.count("evaluations")
        sk = simkernel.SimKernel()
        mon = Monitor(sk, res)
        cj = dict(kind="manyvars", n=n, fmt=fmt, seq=[list(o) for o in seq])
        try:
            with sk.installed():
                M = HashMap()
                attrs = {"hmap": M}
                for j in range(n):
                    attrs[f"v{j}"] = M.globalVar(fmt, default=j % 3)
                b = c09.dsl.Builder(attrs, n_in=1, n_out=1, pv_area=c09.HDR)
                b.finish(2)
                e = b.e
                try:
                    e.load()
                    loaded = True
                except Exception as ex:
                    if isinstance(ex, (simkernel.SimTrap, core.Internal)):
                        raise
                    loaded = False
                    res.outcomes.add(("many-load", n, type(ex).__name__))
                ok = mon.judge(dict(cj, opkind="load"), mon.new(),
                               note=f"default initialisation of {n} hash-map "
                               "variables in load()")
                res.outcomes.add(("many-load", n >= 256, loaded, ok))
                if not loaded:
                    res.count("rejected_by_library")
                    return
                for i, op in enumerate(seq):
                    try:
                        if op[0] == "get":
                            getattr(e, f"v{op[1]}")
                        else:
                            setattr(e, f"v{op[1]}", 1)
                        out = "ok"
                    except Exception as ex:
                        if isinstance(ex, (simkernel.SimTrap, core.Internal)):
                            raise
                        out = type(ex).__name__
                    ok = mon.judge(
                        dict(cj, opkind=op[0], step=i, fmt=fmt), mon.new(),
                        note=f"{op[0]} of variable {op[1]} of {n} in one "
                        "hash map")
                    res.outcomes.add(("many", op[0], out, ok))
                res.count("map_syscalls", sum(
                    1 for c, _ in sk.calls if c in (1, 2, 3, 4, 21)))
                res.nontrivial.add(core.digest(cj))
        finally:
            sk.close_all()


def work(item, res):
    kind, payload = item
    if kind == "many":
        return run_manyvars(payload, res)
    if kind == "hv":
        run_hashvars(payload, res)
    elif kind == "arr":
        run_arrays(payload, res)
    else:
        run_dict(payload, res)


def hv_items(ctx):
    items = [((f,), (d,)) for f in HV_FORMATS for d in (0, 5)]
    pairs = [(HV_FORMATS[i], HV_FORMATS[(i + s) % 9])
             for i in range(9) for s in ((2,) if ctx.quick else (1, 2, 4))]
    items += [(p, (5, 0)) for p in pairs]
    return items


def run(ctx):
    st = simkernel.selftest_once()
    pcs = c08.percpu_configs(ctx)
    items = [("hv", it) for it in hv_items(ctx)]
    kmax = 2 if ctx.quick else 3
    for k in range(1, kmax + 1):
        for p in c08.prefixes(k):
            items.append(("arr", (k, p, ctx.seed, pcs)))
    for cfg in c09.dict_configs(ctx):
        items.append(("dict", cfg))
    for n in (255, 256, 257) if ctx.quick else (254, 255, 256, 257, 300, 513):
        for fmt in ("Q",) if ctx.quick else ("Q", "b"):
            items.append(("many", (n, fmt)))
    items.sort(key=lambda it: {"arr": 0, "dict": 1, "hv": 2, "many": 1}[
        it[0]])
    res = core.pmap(ctx, work, items, chunk=2)
    res.cov.pop("_sigs", None)
    res.cov["states"] = len(res.nontrivial)
    res.cov["transitions"] = res.cov.get("map_syscalls", 0)
    res.cov["traces_validated_against_impl"] = res.cov.get("evaluations", 0)
    res.cov["simkernel_selftest"] = st
    res.cov["bound_completed"] = 3
    res.cov["percpu_configs"] = [(a, b) for a, b, _ in pcs]
    res.sample(dict(kind="hashvars", fmts=["h"], defaults=[5],
                    seq=[["set", 0, -32768], ["get", 0]]))
    res.assumptions += [
        "the kernel's accesses are those of the simulated kernel: key_size "
        "bytes of key / next key, value_size bytes of value, for per-CPU "
        "arrays round_up(value_size, 8) x possible CPUs; the size of the "
        "value buffer is checked for every lookup, found or not",
        "'more possible than online CPUs' is simulated by a map with "
        "n_possible CPUs while os.cpu_count() as seen by ebpfcat.arraymap "
        "returns the online number",
        "array-map variables are accessed through the mapped memory only; "
        "the check confirms that no map system call is issued for them"]
    return res


def replay(ctx, rep):
    res = core.Result()
    res.nocap = True
    c = rep["case"]
    if c["kind"] == "hashvars":
        fmts, defaults = tuple(c["fmts"]), tuple(c["defaults"])
        run_hashvars((fmts, defaults), res)
        want = c["seq"]
        out = [v for v in res.violations if v["case"]["seq"] == want
               and v["case"].get("step") == c.get("step")]
    elif c["kind"] == "manyvars":
        run_manyvars((c["n"], c["fmt"]), res)
        out = [v for v in res.violations if v["case"]["seq"] == c["seq"]
               and v["case"].get("step") == c.get("step")]
    elif c["kind"] in ("array", "percpu"):
        layout = tuple(tuple(p) for p in c["layout"])
        idx = [c08.PAIRS.index(p) for p in layout]
        run_arrays((len(layout), tuple(idx), rep.get("seed", 0),
                    c08.percpu_configs(ctx)), res)
        out = [v for v in res.violations
               if v["case"]["kind"] == c["kind"] and
               v["case"].get("n_possible") == c.get("n_possible")]
    else:
        cfg = dict(key=tuple(c["key"]), value=tuple(c["value"]),
                   size=c["size"], lru=c["lru"])
        run_dict(cfg, res)
        out = [v for v in res.violations
               if v["case"].get("op") == c.get("op")]
    for v in out[:5]:
        print("  ", core.jsonable(v["case"]), "->", v["observed"])
    return out
