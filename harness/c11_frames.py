"""C11 - assembled EtherCAT frames are well-formed with exact datagram positions.

Exhaustive enumeration of operation sequences (bounded alphabet / depth) on one
real Packet / SterilePacket object: append / append_writer calls, interleaved
with observations (size read, assemble(), sterile()) after chosen prefixes.
Every assembled frame is parsed by the independent parser (mc.ecparse) and
compared with an independent serialisation of the datagrams accepted SO FAR.

Families (see run()):
  d1    every single-datagram frame: 15 commands x all lengths x a rotating
        window over the address alphabet x presets x indices x 3 ways to add
  addr  the full address alphabet (every position x every offset, logical
        addresses) x 15 commands, alone and in pairs
  seq   all sequences of depth 2..3 (thorough 4) over the datagram kinds,
        observed at the end only and after chosen prefixes (probe sets)
  pad   all pairs / triples of small datagrams around the 46-byte Ethernet
        minimum, every probe set
  long  13..17 minimal datagrams (count limit), with and without probes
"""
import itertools
import struct

from mc import core, ecparse

PROP = "C11"
LEVEL = "model_checking"
RULE = ("every operation sequence over the stated alphabet up to the depth "
        "bound is executed on one real Packet/SterilePacket: appends "
        "(append / append_writer) interleaved with observations (size read, "
        "assemble, sterile) after the chosen prefixes and at the end; a case "
        "is non-trivial when at least one datagram was accepted; distinct = "
        "distinct (class, op sequence, probe set, index, ethertype)")

from ebpfcat.ethercat import ECCmd, Packet  # noqa: E402
from ebpfcat.ebpfcat import SterilePacket  # noqa: E402

MAX = 1500
HDR = 16
OVERHEAD = 12
MAXCOUNT = 15

# the address alphabet: every position with every offset (the packer takes the
# position as a signed and the offset as an unsigned 16-bit number), and
# logical addresses (signed 32 bit)
POSITIONS = [0, 1, -1, -2, -3, 1000, 30000, 32767, -32768]
OFFSETS = [0, 1, 0x10, 0x130, 0x502, 0xffff]
ADDRS2 = [(p, o) for p in POSITIONS for o in OFFSETS]
LOGICALS = [(0,), (1,), (-1,), (-2,), (0xffff,), (0x10000,), (0x00010800,),
            (0x7fc00000,), (0x7fffffff,), (-0x80000000,)]
ADDRS = ADDRS2 + LOGICALS
WINDOW = 7      # addresses per (command, length) in the depth-1 product
IDS = [(0, 0x88A4), (63, 0x3000), (1000, 0x88A4), (10 ** 9, 0x5fff),
       (0x7fffffff, 0x88A4)]


def payload(k, n):
    return bytes(((k * 37 + j * 7 + 1) & 0xff) for j in range(n))


def run_sequence(cls_name, ops, ident, res, probes=()):
    """ops: list of (method, cmd, addr, length_spec, wkc, idx)

    length_spec: int, or ('fit', delta) = exactly fitting length + delta.
    probes: indices k of ops after which the object is observed (size read,
    assemble, sterile) before the sequence goes on; an index may occur twice
    (two observations without an append in between).  Every observation uses
    another packet index / ethertype.  The object is always observed at the
    end."""
    index, ethertype = ident
    pk = SterilePacket() if cls_name == "sterile" else Packet()
    size = HDR
    accepted = []   # (cmd, idx, addr32, data, wkc, start, stop, writer)
    case = dict(cls=cls_name, ops=ops, index=index, ethertype=ethertype)
    if probes:
        case["probes"] = list(probes)
    state = dict(ok=True, observed=0)

    def bad(expected, observed, what):
        state["ok"] = False
        res.violation(case, expected, observed,
                      sig=core.digest([cls_name, what]), note=what)

    def observe(when):
        """assemble what has been accepted so far and judge the frame

        -> False if the frame was so wrong that going on makes no sense"""
        if when is None:
            oindex, oethertype = index, ethertype
            sterile_first = False
        else:
            state["observed"] += 1
            oindex, oethertype = IDS[(IDS.index(ident) + state["observed"])
                                     % len(IDS)]
            sterile_first = state["observed"] % 2 == 0
        what = "" if when is None else " (assembled between operations)"
        if pk.size != size:
            bad(size, pk.size, "size attribute wrong" + what)
        if not accepted:
            return True
        st = None
        try:
            if cls_name == "sterile" and sterile_first:
                st = pk.sterile(oindex, oethertype)
            frame = bytes(pk.assemble(oindex, oethertype))
        except Exception as e:  # accepted datagrams must assemble
            bad("frame", repr(e), "assemble raised" + what)
            return False
        ref = ecparse.build(
            [(0, 0, oindex, struct.pack("<H", oethertype), 0)]
            + [a[:5] for a in accepted], pad=False)
        res.count("transitions", len(accepted) + 1)
        if len(frame) > MAX:
            bad("<= 1500", len(frame), "frame exceeds maximum" + what)
        if len(frame) != max(len(ref), ecparse.MIN_PAYLOAD):
            bad(max(len(ref), 46), len(frame),
                "frame length / padding wrong" + what)
        try:
            length, dgs = ecparse.parse(frame)
        except ecparse.ParseError as e:
            bad("well-formed frame", str(e), "frame does not parse: "
                + str(e).split(" at ")[0][:40] + what)
            return False
        if length != len(ref) - 2:
            bad(len(ref) - 2, length, "header length != payload length"
                + what)
        if len(dgs) != len(accepted) + 1:
            bad(len(accepted) + 1, len(dgs),
                "datagram count / more flags wrong" + what)
            return False
        d0 = dgs[0]
        if (d0.cmd, d0.addr, d0.data, d0.more) != \
                (0, oindex & 0xffffffff, struct.pack("<H", oethertype), True):
            bad("id datagram NOP/index/ethertype", repr(d0),
                "id datagram wrong" + what)
        for i, (d, a) in enumerate(zip(dgs[1:], accepted)):
            cmd, idx, addr, data, wkc, start, stop, writer = a
            exp = (cmd, idx & 0xff, addr, len(data), i < len(accepted) - 1)
            obs = (d.cmd, d.idx, d.addr, d.length, d.more)
            if exp != obs:
                bad(exp, obs, "datagram header field wrong" + what)
            if frame[start:stop] != data or d.data_pos != start:
                bad(dict(start=start, data=data.hex()[:40]),
                    dict(start=d.data_pos, data=frame[start:stop].hex()[:40]),
                    "data not at reported position" + what)
            if struct.unpack_from("<H", frame, stop)[0] != wkc \
                    or d.wkc_pos != stop:
                bad(dict(pos=stop, wkc=wkc),
                    dict(pos=d.wkc_pos,
                         wkc=struct.unpack_from("<H", frame, stop)[0]),
                    "working counter not at reported position" + what)
        if frame[:len(ref)] != ref:
            bad(ref.hex()[:80], frame[:len(ref)].hex()[:80],
                "bytes differ from reference serialisation" + what)
        if cls_name == "sterile":
            try:
                if st is None:
                    st = pk.sterile(oindex, oethertype)
            except Exception as e:
                bad("sterile frame", repr(e), "sterile raised" + what)
                return False
            exp = bytearray(frame)
            for a in accepted:
                if a[7]:
                    exp[a[5] - 10] = 0
            if bytes(st) != bytes(exp):
                diff = [i for i in range(min(len(st), len(exp)))
                        if st[i] != exp[i]]
                bad("differs only in writer command bytes (NOP)",
                    dict(diff_at=diff[:8], len=len(st)),
                    "sterile copy wrong" + what)
            # the bookkeeping SterilePacket exposes: counters / on_the_fly
            expc = {a[6]: a[4] for a in accepted}
            if dict(pk.counters) != expc:
                bad(expc, dict(pk.counters),
                    "sterile counter positions wrong" + what)
            expw = [(a[5] - 10, a[6] + 2, a[0]) for a in accepted if a[7]]
            obsw = [(s, e, c.value) for s, e, c in pk.on_the_fly]
            if expw != obsw:
                bad(expw, obsw, "sterile writer positions wrong" + what)
        if when is None:
            res.outcomes.add((len(accepted), len(frame) == 46, state["ok"]))
        else:
            res.outcomes.add(("probe", len(frame) == 46, state["ok"]))
        return True

    for k, (method, cmd, addr, lspec, wkc, idx) in enumerate(ops):
        if isinstance(lspec, tuple):
            n = MAX - size - OVERHEAD + lspec[1]
            if n < 0:
                continue
        else:
            n = lspec
        data = payload(k, n)
        fits = size + n + OVERHEAD <= MAX
        roomy = len(accepted) < MAXCOUNT
        try:
            if cls_name == "sterile":
                fn = pk.append_writer if method == "writer" else pk.append
                ret = fn(ECCmd(cmd), data, idx, *addr, counter=wkc)
            else:
                ret = pk.append(ECCmd(cmd), data, idx, *addr, wkc=wkc)
        except OverflowError:
            res.count("rejected")
            if fits and roomy:
                bad("accepted (fits: size %d + %d + 12 <= 1500, %d datagrams)"
                    % (size, n, len(accepted)), "OverflowError",
                    "fitting datagram rejected")
        else:
            if not fits:
                bad("OverflowError (size %d + %d + 12 > 1500)" % (size, n),
                    "accepted", "oversize datagram accepted")
                return
            start, stop = size + 10, size + 10 + n
            if cls_name != "sterile" and tuple(ret) != (start, stop):
                bad((start, stop), ret, "reported position wrong")
            accepted.append((cmd, idx, ecparse.addr32(cmd, *addr), data, wkc,
                             start, stop, method == "writer"))
            size += n + OVERHEAD
        for p in probes:
            if p == k:
                res.count("probes")
                if not observe(k):
                    return
    res.count("evaluations")
    if not accepted:
        res.outcomes.add("nothing accepted")
        return
    res.nontrivial.add(core.digest(case))
    if len(accepted) > MAXCOUNT:
        res.outcomes.add("more than 15 datagrams accepted")
    observe(None)


# ------------------------------------------------------------------ alphabets
def lengths_depth1(ctx):
    base = {0, 1, 2, 7, 30, 31, 32, 33, 700, 1400, 1470, 1471, 1472, 1473}
    if ctx.quick:
        allv = [n for n in range(1474) if n % 8 == ctx.seed % 8]
        return sorted(base | set(allv))
    return list(range(1474))


def seq_kinds(quick):
    kinds = []
    cmds = [(ecparse.APRD, (-3, 0x10), "plain"),
            (ecparse.FPWR, (1000, 0x800), "writer"),
            (ecparse.LRW, (0x00010800,), "plain")]
    lens = [0, 1, 31, 700, 1400, ("fit", 0), ("fit", 1)] if quick else \
        [0, 1, 2, 31, 700, 1400, ("fit", 0), ("fit", 1), ("fit", -1)]
    for (cmd, addr, method), n, (wkc, idx) in itertools.product(
            cmds, lens, [(0, 0), (3, 255)]):
        kinds.append((method, cmd, addr, n, wkc, idx))
    return kinds


def probe_kinds():
    """the reduced datagram alphabet for which every probe set is explored
    at depth 3: the padding boundary (0, 1), an ordinary size and the frame
    limit"""
    kinds = []
    for (cmd, addr, method), n in itertools.product(
            [(ecparse.APRD, (-1, 0), "plain"),
             (ecparse.FPWR, (1000, 0x800), "writer"),
             (ecparse.LRW, (0x00010800,), "plain")],
            [0, 1, 700, ("fit", 0), ("fit", 1)]):
        kinds.append((method, cmd, addr, n, 1 + len(kinds) % 3,
                      (len(kinds) * 5) % 256))
    return kinds


def subsets(n):
    """all non-empty probe sets over op indices 0..n-1, plus one with a
    repeated observation"""
    out = []
    for mask in range(1, 1 << n):
        out.append(tuple(i for i in range(n) if mask >> i & 1))
    out.append((0, 0))
    return out


PAD_CMDS = [("plain", ecparse.APRD, (-1, 0)),
            ("writer", ecparse.FPWR, (1001, 0x120)),
            ("plain", ecparse.LRD, (0x10000,)),
            ("plain", ecparse.BRD, (0, 0x130)),
            ("writer", ecparse.LWR, (-0x800,))]


def both(seq, ident, res, probes=()):
    run_sequence("packet", [("plain",) + tuple(k[1:]) for k in seq], ident,
                 res, probes)
    run_sequence("sterile", seq, ident, res, probes)


def work(item, res):
    kind, payload_ = item
    if kind == "d1":
        cmd, n, addrs = payload_
        for addr in addrs:
            for wkc in (0, 1, 3):
                for idx in (0, 0x33, 255):
                    ident = IDS[(cmd + n + wkc + idx) % len(IDS)]
                    for cls, method in (("packet", "plain"),
                                        ("sterile", "plain"),
                                        ("sterile", "writer")):
                        run_sequence(cls, [(method, cmd, addr, n, wkc, idx)],
                                     ident, res)
    elif kind == "addr1":
        addr, = payload_
        for cmd in range(15):
            for n in (0, 2, 31):
                for wkc, idx in ((0, 0), (3, 255)):
                    ident = IDS[(cmd + n + wkc) % len(IDS)]
                    for cls, method in (("packet", "plain"),
                                        ("sterile", "plain"),
                                        ("sterile", "writer")):
                        run_sequence(cls, [(method, cmd, addr, n, wkc, idx)],
                                     ident, res)
    elif kind == "addr2":
        a1, i1 = payload_
        for i2, a2 in enumerate(ADDRS):
            c1, c2 = (i1 + i2) % 15, (i1 * 3 + i2 * 7 + 1) % 15
            seq = [("plain", c1, a1, (i1 + i2) % 3, 1, i1 & 0xff),
                   ("writer", c2, a2, i2 % 4, 2, i2 & 0xff)]
            ident = IDS[(i1 + i2) % len(IDS)]
            both(seq, ident, res)
            both(seq, ident, res, (0,))
    elif kind == "seq":
        prefix, depth, kinds, probesets, last = payload_
        free = depth - len(prefix)
        for tail in itertools.product(*([range(len(kinds))] * (free - 1)
                                        + [last])):
            seq = [kinds[i] for i in prefix + tail]
            ident = IDS[sum(prefix + tail) % len(IDS)]
            for probes in probesets:
                both(seq, ident, res, probes)
    elif kind == "pad":
        n1, = payload_
        for n2 in range(0, 21):
            c = n1 + 2 * n2
            k1 = PAD_CMDS[c % 5] + (n1, 1 + c % 3, c & 0xff)
            k2 = PAD_CMDS[(c // 5 + 1) % 5] + (n2, c % 2, (c * 3) & 0xff)
            ident = IDS[c % len(IDS)]
            for probes in [()] + subsets(2):
                both([k1, k2], ident, res, probes)
            if n1 + n2 <= 8:
                for n3 in (0, 1, 5):
                    k3 = PAD_CMDS[(c + n3) % 5] + (n3, 1, n3)
                    for probes in [()] + subsets(3):
                        both([k1, k2, k3], ident, res, probes)
    elif kind == "long":
        pattern, probes = payload_
        ks = [("plain", ecparse.BRD, (0, 0x130), 0, 1, 1),
              ("writer", ecparse.FPWR, (7, 0x10), 1, 2, 9)]
        seq = [ks[b] for b in pattern]
        ident = IDS[len(pattern) % len(IDS)]
        both(seq, ident, res, probes)


def build_items(ctx):
    lens1 = lengths_depth1(ctx)
    items = []
    for cmd in range(15):
        for j, n in enumerate(lens1):
            w2 = (cmd * 7 + j * 5 + ctx.seed) % len(ADDRS2)
            w1 = (cmd + j * 2 + ctx.seed) % len(LOGICALS)
            addrs = tuple((ADDRS2 + ADDRS2)[w2:w2 + WINDOW - 2]
                          + (LOGICALS + LOGICALS)[w1:w1 + 2])
            items.append(("d1", (cmd, n, addrs)))
    items += [("addr1", (a,)) for a in ADDRS]
    items += [("addr2", (a, i)) for i, a in enumerate(ADDRS)]
    kinds = seq_kinds(ctx.quick)
    qkinds = seq_kinds(True)
    pkinds = probe_kinds()
    maxdepth = 3 if ctx.quick else 4
    NONE = ((),)
    for depth in range(2, maxdepth + 1):
        plen = 1 if depth <= 2 else 2
        if depth == 2:
            sets = NONE + tuple(subsets(2))
        elif depth == 3:
            # observed after every prefix; all other probe sets below
            sets = NONE + ((0, 1),)
        else:
            sets = NONE
        last = tuple(range(len(kinds)))
        if depth == 4:
            # thinned: the fourth datagram does not take the length 2 (it
            # does in the first three places, and at every place up to
            # depth 3); this pays for the probe sets at depth 3 and 4
            last = tuple(i for i, k in enumerate(kinds) if k[3] != 2)
        for prefix in itertools.product(range(len(kinds)), repeat=plen):
            items.append(("seq", (prefix, depth, kinds, sets, last)))
    # every probe set at depth 3: reduced alphabet (quick), the quick
    # alphabet (thorough)
    rest = tuple(s for s in subsets(3) if s != (0, 1))
    for ks in ((pkinds,) if ctx.quick else (pkinds, qkinds)):
        for prefix in itertools.product(range(len(ks)), repeat=2):
            items.append(("seq", (prefix, 3, ks, rest,
                                  tuple(range(len(ks))))))
    if not ctx.quick:
        # depth 4 observed after every prefix, reduced alphabet
        for prefix in itertools.product(range(len(pkinds)), repeat=2):
            items.append(("seq", (prefix, 4, pkinds,
                                  ((0, 1, 2), (1, 2), (0, 2), (2, 2)),
                                  tuple(range(len(pkinds))))))
    items += [("pad", (n1,)) for n1 in range(0, 21)]
    lo, hi = (14, 17) if ctx.quick else (13, 17)
    for n in range(lo, hi + 1):
        some = [(0,) * n, (1,) * n, tuple(i % 2 for i in range(n)),
                tuple((i + 1) % 2 for i in range(n))]
        if ctx.quick:
            pats = some
        else:
            pats = itertools.product((0, 1), repeat=n)
        items.extend(("long", (p, ())) for p in pats)
        # the same object observed after every append, and around the limit
        for p in some:
            items.append(("long", (p, tuple(range(n)))))
            items.append(("long", (p, (0, 13, 14, 14))))
            items.append(("long", (p, tuple(range(n - 3, n)))))
        if not ctx.quick and n in (15, 16):
            items.extend(("long", (p, (13, 14)))
                         for p in itertools.product((0, 1), repeat=n))
    return items


def run(ctx):
    items = build_items(ctx)
    lens1 = lengths_depth1(ctx)
    kinds = seq_kinds(ctx.quick)
    pkinds = probe_kinds()
    maxdepth = 3 if ctx.quick else 4
    lo, hi = (14, 17) if ctx.quick else (13, 17)
    res = core.pmap(ctx, work, items, chunk=8)
    res.cov["alphabet"] = dict(
        depth1_lengths=len(lens1), addresses=len(ADDRS),
        depth1_address_window=WINDOW, seq_kinds=len(kinds),
        probe_kinds=len(pkinds), seq_max_depth=maxdepth, long=(lo, hi))
    res.cov["states"] = len(res.nontrivial)
    res.cov["traces_validated_against_impl"] = res.cov.get("evaluations", 0)
    res.sample(dict(cls="sterile", ops=[list(map(repr, kinds[3])),
                                        list(map(repr, kinds[-1]))]))
    res.sample(dict(cls="packet", probes=[0, 1],
                    ops=[list(map(repr, pkinds[0])),
                         list(map(repr, pkinds[1])),
                         list(map(repr, pkinds[6]))],
                    meaning="assembled after the first, after the second "
                            "and after the third append"))
    res.assumptions += [
        "count limit taken as 15 user datagrams per frame (as in the code); "
        "a sequence is 'fitting' when 16 + sum(len+12) <= 1500",
        "padding bytes are unconstrained, only the padded length is checked",
        "addresses are taken from what the packer can represent: position "
        "-32768..32767 with offset 0..0xffff, or one logical address "
        "-2^31..2^31-1; a position 0xffff or a logical address 0xffffffff "
        "is refused by struct when the frame is assembled and not judged",
        "an object that has not accepted any datagram yet is not assembled "
        "(the statement talks about accepted sequences)",
        "a frame assembled before the last append is judged against the "
        "datagrams accepted until then; SterilePacket.append reports no "
        "position, the position is Packet.size before the call + 10 (what "
        "ebpfcat's own callers use), so the size attribute is compared too"]
    return res


def replay(ctx, rep):
    res = core.Result()
    c = rep["case"]
    ops = [tuple(tuple(x) if isinstance(x, list) else x for x in op)
           for op in c["ops"]]
    run_sequence(c["cls"], ops, (c["index"], c["ethertype"]), res,
                 tuple(c.get("probes", ())))
    return res.violations
