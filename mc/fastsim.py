"""Kernel-free (and, optionally, real-kernel) construction of the fast path.

Builds the real `EtherXDP` dispatcher and real `FastSyncGroup` programs over
hand-faked terminals (as ethercat_test.py does), with the `ArrayMap`s living
either in a `bpfvm.Kernel` (seams: `ebpfcat.arraymap.create_map/mmap`) or in
the real kernel.  Shared by the C21/C22, C26 and C19 harnesses.

Nothing here judges anything; it is plumbing around the code under test.
"""
import os
import struct
from contextlib import contextmanager

import ebpfcat.arraymap as _am
import ebpfcat.ebpf as _ebpf
from ebpfcat.ebpf import AssembleError
from ebpfcat.ebpfcat import (
    EBPFTerminal, EtherXDP, FastEtherCat, FastSyncGroup, SimpleEtherCat,
    SyncGroup)
from ebpfcat.ethercat import Packet, SyncManager

from . import bpfvm, kern

ETH = Packet.ETHERNET_HEADER           # 14
ETH_HEADER = bytes.fromhex("ffffffffffff" "020000000001" "88a4")
MAX_PROGS = FastEtherCat.MAX_PROGS

_REAL_CREATE_MAP = _am.create_map
_REAL_MMAP = _am.mmap


# ------------------------------------------------------------------ the seams
class SimMaps:
    """`with SimMaps(kernel):` array maps created by ebpfcat land in `kernel`

    create_map -> a fresh integer fd registered in kernel.maps,
    mmap       -> the BpfMap's own bytearray (Python side and VM share it)."""
    _next_fd = [1000]

    def __init__(self, kernel):
        self.kernel = kernel

    def create_map(self, map_type, key_size, value_size, max_entries,
                   attributes=None):
        mtype = getattr(map_type, "value", map_type)
        if mtype != bpfvm.BpfMap.ARRAY:
            raise AssertionError(f"unexpected map type {map_type}")
        fd = SimMaps._next_fd[0]
        SimMaps._next_fd[0] += 1
        self.kernel.maps[fd] = bpfvm.BpfMap(bpfvm.BpfMap.ARRAY, key_size,
                                            value_size, max_entries)
        return fd

    def mmap(self, fd, size):
        m = self.kernel.maps[fd]
        if size > len(m.area):
            raise AssertionError("mmap larger than the map")
        return m.area

    def __enter__(self):
        self._saved = (_am.create_map, _am.mmap)
        _am.create_map = self.create_map
        _am.mmap = self.mmap
        return self

    def __exit__(self, *exc):
        _am.create_map, _am.mmap = self._saved


class RealMaps:
    """the unmodified module-level names (real kernel maps)"""
    def __enter__(self):
        self._saved = (_am.create_map, _am.mmap)
        _am.create_map, _am.mmap = _REAL_CREATE_MAP, _REAL_MMAP
        return self

    def __exit__(self, *exc):
        _am.create_map, _am.mmap = self._saved


@contextmanager
def reown_seam():
    """Defect-model seam for the finding 'dispatcher cannot be generated'
    (C22-dispatcher-not-generated, repaired in /repo by e1fe9f7; dormant
    unless that defect returns - `build_dispatcher` only falls back to it
    after the unmodified generator has failed, and says so).

    `EBPF.save_registers` restores the registers it saved around a helper call
    but leaves them un-owned (`call()` strips r1..r5, the final
    `owners -= registers` never gives them back).  After `ArrayMap.init` and
    after `prandom(...)`/`ktime(...)` the context register r1 is therefore
    "without value" for the generator although the emitted MOV restored it.
    Under this seam the registers that were owned before and were restored are
    owned again afterwards; nothing else changes."""
    o_init = _am.ArrayMap.init
    o_pr = _ebpf.prandom.calculate
    o_kt = _ebpf.ktime.calculate

    def init(self, ebpf, fd):
        saved = ebpf.owners & set(range(1, 6))
        o_init(self, ebpf, fd)
        if self.size:
            ebpf.owners |= saved - {self.base_register}

    def wrap(orig):
        @contextmanager
        def calculate(self, dst, long, force=False):
            before = self.ebpf.owners & set(range(1, 6))
            with orig(self, dst, long, force) as (d, lng):
                self.ebpf.owners |= before - {d}
                yield d, lng
        return calculate

    _am.ArrayMap.init = init
    _ebpf.prandom.calculate = wrap(o_pr)
    _ebpf.ktime.calculate = wrap(o_kt)
    try:
        yield
    finally:
        _am.ArrayMap.init = o_init
        _ebpf.prandom.calculate = o_pr
        _ebpf.ktime.calculate = o_kt


# ------------------------------------------------------------------ dispatcher
class Dispatcher:
    """the real EtherXDP program, assembled; maps in `kernel` or the real one"""

    def __init__(self, kernel=None, seam=False):
        self.kernel = kernel
        self.seam = seam
        self.real = kernel is None
        maps = SimMaps(kernel) if kernel is not None else RealMaps()
        with maps:
            if seam:
                with reown_seam():
                    self._build()
            else:
                self._build()

    def _build(self):
        e = self.ebpf = EtherXDP()
        if self.real:
            self.programs_fd = kern.map_create(3, 4, 4, MAX_PROGS)
        else:
            self.programs_fd = SimMaps._next_fd[0]
            SimMaps._next_fd[0] += 1
            self.kernel.maps[self.programs_fd] = bpfvm.BpfMap(
                bpfvm.BpfMap.PROG_ARRAY, 4, 4, MAX_PROGS)
        e.programs = self.programs_fd
        self.code = e.assemble()
        self.insns = bpfvm.decode(self.code)
        self.area = e.variables            # bytearray (sim) or mmap (real)
        self.counters_off = e.__dict__["counters"]
        self.dropcounter_off = e.__dict__["dropcounter"]
        self.prog_fd = None

    # -- the dispatcher's per-group loop counter (u32)
    def set_counter(self, group, value):
        struct.pack_into("<I", self.area, self.counters_off + 4 * group,
                         value & 0xffffffff)

    def get_counter(self, group):
        return struct.unpack_from("<I", self.area,
                                  self.counters_off + 4 * group)[0]

    def variables_bytes(self):
        return bytes(self.area[:])

    def register(self, index, group):
        """put the group's program into the program table"""
        if self.real:
            kern.prog_array_set(self.programs_fd, index, group.prog_fd)
        else:
            pid = ("group", id(group))
            self.kernel.progs[pid] = group.insns
            self.kernel.maps[self.programs_fd].progs[index] = pid

    def unregister(self, index):
        if self.real:
            try:
                kern.map_delete(self.programs_fd, struct.pack("<I", index))
            except OSError:
                pass
        else:
            self.kernel.maps[self.programs_fd].progs.pop(index, None)

    def load_real(self):
        self.prog_fd = kern.prog_load(self.code)
        return self.prog_fd

    def close(self):
        if self.real:
            for fd in (self.prog_fd, self.programs_fd):
                if fd is not None:
                    try:
                        os.close(fd)
                    except OSError:
                        pass
            try:
                self.area.close()
            except Exception:
                pass


def build_dispatcher(kernel=None):
    """-> (Dispatcher, note).  note is None when the unmodified generator
    produced the program, else the generator's error message (the program
    was then built under `reown_seam`)."""
    try:
        return Dispatcher(kernel, seam=False), None
    except AssembleError as e:
        note = f"AssembleError: {e}"
    return Dispatcher(kernel, seam=True), note


# ------------------------------------------------------------------ terminals
def fake_terminal(ec, cls=EBPFTerminal, position=1, in_sz=0, out_sz=0,
                  use_fmmu=True, pdos=None, in_off=0x1100, out_off=0x1000,
                  name=None):
    """a terminal faked by hand, exactly like ethercat_test.SimpleTests"""
    t = cls(ec)
    t.position = position
    t.pdo_in_sz = in_sz
    t.pdo_out_sz = out_sz
    t.pdo_in_off = in_off
    t.pdo_out_off = out_off
    t.use_fmmu = use_fmmu
    t.pdos = dict(pdos or {})
    if name is not None:
        t.name = name
    return t


def new_ec(name="verif"):
    return SimpleEtherCat(name)


# ------------------------------------------------------------------ groups
class FastGroup:
    """a real FastSyncGroup over fake terminals, allocated and assembled"""

    def __init__(self, devices, ec=None, kernel=None, index=5, seam=False,
                 ethertype=0x88A4):
        self.kernel = kernel
        self.real = kernel is None
        self.index = index
        self.ethertype = ethertype
        self.prog_fd = None
        ec = ec or new_ec()
        ec.ethertype = ethertype
        maps = SimMaps(kernel) if kernel is not None else RealMaps()
        with maps:
            if seam:
                with reown_seam():
                    self._build(ec, devices)
            else:
                self._build(ec, devices)

    def _build(self, ec, devices):
        sg = self.sg = FastSyncGroup(ec, devices)
        sg.allocate()
        sg.packet_index = self.index
        self.code = sg.assemble()
        self.insns = bpfvm.decode(self.code)
        self.area = sg.properties
        self.packet = sg.packet
        self.size = sg.packet.size
        self.wkc_off = sg.__dict__["wkc_errors"]
        # what FastSyncGroup.run sends (and re-sends from update_devices)
        self.sterile = bytes(sg.packet.sterile(self.index, self.ethertype))
        self.assembled = bytes(sg.packet.assemble(self.index, self.ethertype))

    # frame positions are EtherCAT-payload relative; + ETH in the raw frame
    def writers(self):
        """[(cmd position, wkc position, command value, expected wkc)] of the
        write datagrams, found by parsing the assembled (non-sterile) frame
        independently - NOT from SterilePacket's own on_the_fly list, so that
        bookkeeping errors there (stale or foreign entries) are visible"""
        from . import ecparse
        try:
            _, dgs = ecparse.parse(self.assembled)
        except ecparse.ParseError:
            # a group without any datagram: only the identification datagram
            return []
        out = []
        # the expected working counter is the number of terminals that
        # process the datagram, counted here from the terminals themselves
        # (not from SterilePacket.counters): one for a directly addressed
        # write, every output-mapped FMMU terminal for the logical write
        n_lwr = sum(1 for t, rw in self.sg.terminals.items()
                    if rw and t.use_fmmu and t.pdo_out_sz)
        for d in dgs[1:]:
            if d.cmd in (2, 3, 5, 6, 8, 9, 11, 12):
                expected = {5: 1, 11: n_lwr}.get(
                    d.cmd, self.packet.counters[d.wkc_pos])
                out.append((d.hdr_pos, d.wkc_pos, d.cmd, expected))
        return out

    def var_off(self, device, name):
        return device.__dict__[name]

    def set_var(self, device, name, fmt, value):
        struct.pack_into("<" + fmt, self.area, device.__dict__[name], value)

    def get_var(self, device, name, fmt):
        return struct.unpack_from("<" + fmt, self.area,
                                  device.__dict__[name])[0]

    def set_wkc_errors(self, v):
        struct.pack_into("<I", self.area, self.wkc_off, v & 0xffffffff)

    def get_wkc_errors(self):
        return struct.unpack_from("<I", self.area, self.wkc_off)[0]

    def load_real(self):
        self.prog_fd = kern.prog_load(self.code)
        return self.prog_fd

    def close(self):
        if self.real:
            if self.prog_fd is not None:
                try:
                    os.close(self.prog_fd)
                except OSError:
                    pass
            try:
                self.area.close()
            except Exception:
                pass


def reset_globals():
    """library globals that cases mutate"""
    SyncGroup.packet_index = 1000


def run_vm(kernel, insns, frame, prandom=None):
    """run one XDP program instance on `frame` (bytearray, modified in
    place) -> (retval, vm).  Traps propagate as bpfvm.Trap."""
    if prandom is not None:
        kernel.prandom = [prandom]
        kernel.prandom_i = 0
    vm = bpfvm.VM(kernel, insns, frame)
    vm.run()
    return vm.retval, vm
