#!/bin/bash
# run every claimed check's quick tier sequentially; one summary line each
cd "$(dirname "$0")/.."
tmp=$(mktemp -d)
trap 'rm -rf "$tmp"' EXIT
for p in $(python3 -c "import json;print(' '.join(c['property_id'] for c in json.load(open('MANIFEST.json'))['checks']))") "$@"; do
  /usr/bin/time -f "%e s" -o $tmp/time ./check $p ${TIER:+--tier $TIER} > $tmp/one 2>&1
  rc=$?
  echo "$p rc=$rc $(tail -1 $tmp/time) | $(grep -c '^KNOWN-FINDING' $tmp/one) KF | $(grep -v '^  \|Trace\|resource_tracker\|KNOWN-FINDING' $tmp/one | tail -1 | cut -c1-150)"
done
