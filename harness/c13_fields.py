"""C13 - datagram field encoding and decoding round-trip.

Single requests: every combination of up to three (thorough: four) format
groups (with values; the last one optionally read-only) and raw data - none,
a count of zeros 0..8 / 40, bytes of every length 0..8 / 40 - goes through the
real EtherCat.roundtrip / sendloop / process_packet on the virtual loop; the
payload on the wire and the returned tuple are compared with an independent
little-endian struct reference.

Placements: "every str is a format, everything else is the data for those
formats" - the formats are joined and the values taken in order wherever they
stand between the formats.  For the argument lists of one to three (thorough:
four) format groups every order of the positional arguments that keeps the
formats in their order and the values in theirs is sent as well (all formats
first and then all values, values moved across a format boundary, values in
front of the first format ...); the reference encoding does not depend on the
placement.  An order in which the trailing-format rule and the number of
values contradict each other may be refused.

Histories: sequences of two or three requests, one after the other on ONE
EtherCat object, in which earlier requests may be refused while they are put
together (a value that does not fit its field - in the first or a later field
-, a value of the wrong type, too few values, trailing data of the wrong type,
more zeros / bytes than a frame can hold).  A refused request must raise and
put nothing on the wire; every other request must send and return exactly what
the reference says, i.e. what it sends and returns on a fresh object.
"""
import asyncio
import itertools
import struct

from mc import core, ecparse, vloop

from ebpfcat.ethercat import ECCmd, EtherCat

PROP = "C13"
LEVEL = "model_checking"
RULE = ("single requests: all argument lists of <= 3 (thorough: 4) format "
        "groups from the alphabet, each with values, the last optionally "
        "read-only, x raw-data alphabet (none, counts and byte strings of "
        "every length 0..8 and 40) x 2 commands; placements: for <= 3 "
        "(thorough: 4) groups every interleaving of the format strings and "
        "the values that keeps both in their order; histories: all sequences "
        "of 2-3 requests from the history alphabet (accepted and refused "
        "requests) on one EtherCat object; non-trivial = at least one "
        "request was sent; distinct = distinct argument list / history")

GROUPS = [("B", (0xA1,)), ("H", (0xB2C3,)), ("I", (0xD4E5F607,)),
          ("H2xH", (0x1122, 0x3344)), ("4s", (b"wxyz",)),
          ("HBB", (0x5566, 0x77, 0x88)), ("BI", (0x99, 0xA0B0C0D0)),
          ("8s", (b"12345678",)), ("h", (-2,)), ("q", (-3,)),
          ("BQ", (1, 0x0102030405060708))]
# the raw-data alphabet; SMALL is used where the product gets large
SMALL = [None, 0, 3, b"", b"\x01", b"abc", bytes(range(100, 140))]
DATA = [None] + list(range(9)) + [40] \
    + [bytes(range(100, 100 + n)) for n in range(9)] \
    + [bytes(range(100, 140))]
MAXDATA = 1500 - 16 - 12    # the largest datagram a frame can hold

# groups that cannot be encoded: the request has to be refused
BAD_GROUPS = [("H", (70000,)),                # does not fit, first field
              ("HH", (0x1234, 70000)),        # ... a later field
              ("BI", (0x12, 1 << 32)),
              ("IB", (0xA1B2C3D4, 256)),
              ("B", (-1,)),
              ("h", (40000,)),
              ("H", (1.5,)),                  # wrong type
              ("4s", (5,)),
              ("I", (b"ab",)),
              ("HH", (7,))]                   # too few values


def resp_bytes(n):
    return bytes((i * 13 + 5) & 0xff for i in range(n))


class EchoTransport:
    def __init__(self, loop, ec):
        self.loop, self.ec = loop, ec
        self.sent = []

    def sendto(self, data, addr=None):
        self.sent.append(bytes(data))
        _, dgs = ecparse.parse(data)
        out = bytearray(data)
        for d in dgs[1:]:
            out[d.data_pos:d.wkc_pos] = resp_bytes(d.length)
            out[d.wkc_pos:d.wkc_pos + 2] = b"\1\0"
        self.loop.call_soon(self.ec.datagram_received, bytes(out), None)


def reference(groups, readonly, data):
    """-> (args for roundtrip, bytes expected on the wire or None when the
    request cannot be encoded, acceptable return values)

    Written from roundtrip's docstring: the formats are little-endian struct
    formats, each followed by its values; the last one may come without
    values and is then sent as zeros; data follows, an integer is a count of
    zeros.  What no frame can hold, or what struct cannot encode, cannot be
    sent."""
    args = []
    sent_exp = b""
    offs = []
    for i, (fmt, vals) in enumerate(groups):
        args.append(fmt)
        size = struct.calcsize("<" + fmt)
        offs.append((fmt, None if sent_exp is None else len(sent_exp)))
        if readonly and i == len(groups) - 1:
            part = bytes(size)
        else:
            args.extend(vals)
            try:
                part = struct.pack("<" + fmt, *vals)
            except struct.error:
                part = None
        sent_exp = None if part is None or sent_exp is None \
            else sent_exp + part
    if sent_exp is None:
        return args, None, []
    fmt_len = len(sent_exp)
    if data is None:
        pass
    elif isinstance(data, int) and not isinstance(data, bool):
        sent_exp += bytes(data)
    elif isinstance(data, (bytes, bytearray)):
        sent_exp += data
    else:
        return args, None, []
    if len(sent_exp) > MAXDATA:
        return args, None, []
    R = resp_bytes(len(sent_exp))
    decoded = ()
    for fmt, o in offs:
        decoded += struct.unpack_from("<" + fmt, R, o)
    if data is None:
        accept = [decoded]
    elif groups:
        accept = [decoded + (R[fmt_len:],)]
    else:
        accept = [R, (R,)]
    return args, sent_exp, accept


def grouped(groups, readonly):
    """the placement in which every format is directly followed by its own
    values: a string of 'f' (a format) and 'v' (a value), one per argument"""
    return "".join("f" + "v" * (0 if readonly and i == len(groups) - 1
                                else len(vals))
                   for i, (fmt, vals) in enumerate(groups))


def placements(groups, readonly):
    """every order of the positional arguments that keeps the formats in
    their order and the values in theirs, the grouped one left out"""
    g = grouped(groups, readonly)
    out = []
    for pos in itertools.combinations(range(len(g)), len(groups)):
        mask = "".join("f" if i in pos else "v" for i in range(len(g)))
        if mask != g:
            out.append(mask)
    return out


def place(args, mask):
    """the grouped argument list, rearranged as the placement says"""
    fmts = iter([a for a in args if isinstance(a, str)])
    vals = iter([a for a in args if not isinstance(a, str)])
    out = [next(fmts) if c == "f" else next(vals) for c in mask]
    if len(out) != len(args):
        raise core.Internal("placement %r does not fit %r" % (mask, args))
    return out


def show(x):
    """JSON-friendly and reversible (see unshow)"""
    if isinstance(x, (bytes, bytearray)):
        return {"b": bytes(x).hex()}
    if isinstance(x, str):
        return {"s": x}
    if isinstance(x, (tuple, list)):
        return [show(v) for v in x]
    return x


def unshow(x):
    if isinstance(x, dict):
        return bytes.fromhex(x["b"]) if "b" in x else x["s"]
    if isinstance(x, list):
        return tuple(unshow(v) for v in x)
    return x


def outcome(t):
    if not t.done():
        return ("pending",)
    if t.cancelled():
        return ("cancelled",)
    if t.exception() is not None:
        return ("error", type(t.exception()).__name__)
    return ("result", t.result())


def run_case(case, res):
    """case: (groups, readonly, data, cmd) - the grouped argument list - or
    (groups, readonly, data, cmd, placement)"""
    groups, readonly, data, cmd = case[:4]
    mask = case[4] if len(case) > 4 else None
    args, sent_exp, accept = reference(groups, readonly, data)
    if sent_exp is None:
        raise core.Internal("single cases are meant to be encodable: %r"
                            % (case,))
    # The reference does not look at the placement.  The one thing that is
    # tied to a position is the read-only format: "a trailing format without
    # values".  Where that rule and the number of values contradict each
    # other - the last argument is a format although there are values for
    # all formats; the last argument is a value although the last format has
    # none - the request may be refused (raise, send nothing); if it is
    # sent, it is judged like every other one.
    may_refuse = False
    if mask is not None:
        args = place(args, mask)
        may_refuse = isinstance(args[-1], str) != bool(readonly)
        res.count("placements")
    jcase = dict(args=[a if not isinstance(a, bytes) else a.hex()
                       for a in args], data=data, cmd=cmd)
    if mask is not None:
        jcase.update(placement=mask, groups=[fmt for fmt, _ in groups],
                     readonly=bool(readonly))
    res.count("evaluations")
    loop = vloop.VLoop()
    with loop:
        ec = EtherCat("sim")
        ec.send_queue = asyncio.Queue()
        tp = ec.transport = EchoTransport(loop, ec)
        st = asyncio.ensure_future(ec.sendloop())
        t = asyncio.ensure_future(ec.roundtrip(ECCmd(cmd), 7, 0x120, *args,
                                               data=data, idx=3))
        try:
            loop.settle(2000)
        except RuntimeError:
            pass
        out = outcome(t)
        sent = list(tp.sent)
        loop.shutdown()
    kf = None
    placed = "" if mask is None else \
        " (formats and values not grouped: all formats joined, all values " \
        "in order)"
    zero_raw = groups and data is not None and \
        (data == 0 or (not isinstance(data, int) and len(data) == 0))
    if not sent and may_refuse and out[0] == "error":
        res.outcomes.add(("placement refused", out[1]))
        res.count("placements_refused")
        return
    if not sent:
        res.outcomes.add("not sent " + out[-1] if out[0] == "error"
                         else "not sent")
        res.violation(jcase, "request sent", out,
                      sig="notsent" + str(out) + ("" if mask is None
                                                   else "-placed"),
                      note="request not sent" + placed)
        return
    res.nontrivial.add(core.digest(jcase))
    res.count("transitions", 2)
    _, dgs = ecparse.parse(sent[0])
    d = dgs[1]
    if d.data != sent_exp or (d.cmd, d.adp, d.ado, d.idx) != \
            (cmd, 7, 0x120, 3):
        res.violation(jcase, sent_exp.hex(), d.data.hex(),
                      sig=core.digest(["payload", readonly, data is None]
                                      + ["placed"] * (mask is not None)),
                      note="payload on the wire differs from the reference "
                           "encoding" + placed)
    ok = out[0] == "result" and any(
        type(out[1]) is type(a) and out[1] == a for a in accept)
    res.outcomes.add((out[0], ok))
    if not ok:
        if zero_raw:
            kf = "C13-empty-raw-data"
        res.violation(jcase, accept[0], out[1:], kf=kf,
                      sig=core.digest(["ret", readonly, bool(groups),
                                       repr(data)[:6], str(kf)]
                                      + ["placed"] * (mask is not None)),
                      note="returned value differs from the reference "
                           "decoding" + placed)


def run_history(history, res):
    """history: tuple of requests (groups, readonly, data, cmd), executed one
    after the other (each one is left to complete) on one EtherCat object"""
    jcase = dict(history=[dict(groups=show(g), readonly=ro, data=show(data),
                               cmd=cmd) for g, ro, data, cmd in history])
    refs = [reference(g, ro, data) for g, ro, data, cmd in history]
    shape = "".join("r" if r[1] is None else "a" for r in refs)
    res.count("evaluations")
    res.count("histories")
    steps = []
    loop = vloop.VLoop()
    with loop:
        ec = EtherCat("sim")
        ec.send_queue = asyncio.Queue()
        tp = ec.transport = EchoTransport(loop, ec)
        st = asyncio.ensure_future(ec.sendloop())
        for k, ((g, ro, data, cmd), (args, _, _)) in enumerate(
                zip(history, refs)):
            before = len(tp.sent)
            t = asyncio.ensure_future(ec.roundtrip(
                ECCmd(cmd), 7 + k, 0x120 + k, *args, data=data, idx=3 + k))
            try:
                loop.settle(2000)
            except RuntimeError:
                pass
            steps.append((outcome(t), tp.sent[before:]))
            if not t.done():
                t.cancel()
        if st.done() and not st.cancelled():
            steps.append((("sendloop ended", repr(st.exception())), []))
        loop.shutdown()
    if len(steps) > len(history):
        res.violation(jcase, "the send loop keeps running", steps[-1][0][1],
                      sig=core.digest(["sendloop", shape]),
                      note="send loop ended during a history")
        return
    if any(frames for _, frames in steps):
        res.nontrivial.add(core.digest(jcase))
    for k, ((out, frames), (args, sent_exp, accept)) in enumerate(
            zip(steps, refs)):
        cmd = history[k][3]
        after = "" if "r" not in shape[:k] else \
            " after a refused request on the same object"
        res.count("transitions", 1 + len(frames))
        if sent_exp is None:
            res.outcomes.add(("refused", out[0],
                              out[1] if out[0] == "error" else None))
            if frames:
                res.violation(jcase, "nothing sent (request %d cannot be "
                              "encoded)" % k, [f.hex()[:120] for f in frames],
                              sig=core.digest(["refused sent", shape, k]),
                              note="a request that cannot be encoded put "
                                   "something on the wire")
            if out[0] != "error":
                res.violation(jcase, "request %d raises" % k, show(out),
                              sig=core.digest(["refused", out[0], shape, k]),
                              note="a request that cannot be encoded does "
                                   "not raise")
            continue
        dgs = []
        for f in frames:
            dgs += ecparse.parse(f)[1][1:]
        if len(dgs) != 1:
            res.violation(jcase, "request %d sent as one datagram" % k,
                          dict(outcome=show(out), datagrams=len(dgs)),
                          sig=core.digest(["count", shape, k, len(dgs)]),
                          note="request not sent exactly once" + after)
            continue
        d = dgs[0]
        if d.data != sent_exp or (d.cmd, d.adp, d.ado, d.idx) != \
                (cmd, 7 + k, 0x120 + k, 3 + k):
            res.violation(jcase, dict(request=k, data=sent_exp.hex()),
                          dict(data=d.data.hex(), cmd=d.cmd, adp=d.adp,
                               ado=d.ado, idx=d.idx),
                          sig=core.digest(["hpayload", shape, k]),
                          note="payload on the wire differs from the "
                               "reference encoding" + after)
        ok = out[0] == "result" and any(
            type(out[1]) is type(a) and out[1] == a for a in accept)
        res.outcomes.add((out[0], ok, k))
        if not ok:
            res.violation(jcase, dict(request=k, value=show(accept[0])),
                          show(out[1:]),
                          sig=core.digest(["hret", shape, k, out[0]]),
                          note="returned value differs from the reference "
                               "decoding" + after)


# ------------------------------------------------------------------ alphabets
def cases(ctx):
    out = []
    gl = GROUPS
    for n in range(0, 4 if ctx.quick else 5):
        datas = DATA if n <= 2 or (n == 3 and not ctx.quick) else SMALL
        for groups in itertools.product(gl if n < 4 else GROUPS[::2],
                                        repeat=n):
            if ctx.quick and n == 3 and len({g[0] for g in groups}) < 2:
                continue
            for readonly in ((False, True) if n else (False,)):
                for data in datas:
                    if n == 0 and data is None:
                        continue
                    for cmd in ((4, 5) if n <= 1 else (4,)):
                        out.append((groups, readonly, data, cmd))
    return out


def placement_cases(ctx):
    """(groups, readonly, data, cmd, placement): every placement other than
    the grouped one (which cases() has) of the argument lists of
    one group               x the whole raw-data alphabet,
    two groups              x 5 (thorough: 7) kinds of raw data,
    three groups out of 4 (thorough: 5) with one, two and three values
                            x without / with raw bytes,
    thorough: four groups out of 3, without raw data"""
    g = dict(GROUPS)
    G = lambda *fmts: [(f, g[f]) for f in fmts]  # noqa: E731
    if ctx.quick:
        plan = [(1, GROUPS, DATA),
                (2, GROUPS, [None, 0, 3, b"", b"abc"]),
                (3, G("H", "H2xH", "4s", "HBB"), [None, b"abc"])]
    else:
        plan = [(1, GROUPS, DATA),
                (2, GROUPS, SMALL),
                (3, G("H", "H2xH", "4s", "HBB", "q"), [None, b"abc"]),
                (4, G("H", "4s", "BI"), [None])]
    out = []
    for n, alphabet, datas in plan:
        for groups in itertools.product(alphabet, repeat=n):
            for readonly in (False, True):
                for mask in placements(groups, readonly):
                    for data in datas:
                        out.append((groups, readonly, data, 4, mask))
    return out


def refused_requests(ctx):
    """requests that have to be refused: one bad group alone, behind / in
    front of good ones, with and without trailing data; trailing data that
    is too long or of the wrong type"""
    good = GROUPS[1], GROUPS[2]
    out = []
    for bad in BAD_GROUPS:
        out.append(((bad,), False, None, 4))
        out.append(((good[0], bad), False, None, 4))
        out.append(((bad, good[1]), True, None, 4))
        out.append(((bad,), False, b"abc", 5))
        if not ctx.quick:
            out.append(((bad, good[1]), False, 3, 4))
            out.append(((good[1], good[0], bad), False, b"", 4))
    for groups in ((), (GROUPS[2],), (GROUPS[1], GROUPS[3])):
        out.append((groups, False, 2000, 4))
        out.append((groups, bool(groups), MAXDATA + 1, 4))
        out.append((groups, False, bytes(range(256)) * 6, 5))
        out.append((groups, False, "abc", 4))
        out.append((groups, False, 2.5, 4))
    return out


def accepted_requests(ctx):
    """requests for the histories: everything whose encoding contains zeros
    the library has to supply (read-only formats, counts) or nothing at all,
    next to plain writes and raw data"""
    g = dict(GROUPS)
    G = lambda *fmts: tuple((f, g[f]) for f in fmts)  # noqa: E731
    out = [(G("H"), True, None, 4),
           (G("H2xH"), True, None, 4),
           (G("BQ"), True, None, 4),
           (G("H", "I"), True, None, 4),
           (G("B", "8s"), True, b"xyz", 4),
           (G("HBB"), True, 10, 4),
           (G("B"), False, 6, 4),
           (G("H"), False, 0, 4),
           (G("H"), False, b"", 5),
           ((), False, 6, 4),
           ((), False, 0, 4),
           ((), False, b"", 4),
           ((), False, b"raw only", 5),
           (G("I", "H"), False, None, 5),
           (G("q"), False, b"\x01", 4),
           ((), False, MAXDATA, 4)]
    if not ctx.quick:
        for fmt, vals in GROUPS:
            for data in (None, 0, 1, 8, b"", b"ab"):
                out.append((((fmt, vals),), True, data, 4))
                out.append(((GROUPS[0], (fmt, vals)), True, data, 4))
            out.append((((fmt, vals),), False, 5, 4))
    seen = set()
    out = [r for r in out if not (repr(r) in seen or seen.add(repr(r)))]
    return out


def histories(ctx):
    R = refused_requests(ctx)
    A = accepted_requests(ctx)
    quick = core.Ctx(ctx.prop, "quick", ctx.seed, 1)
    A0 = accepted_requests(quick)
    # the small alphabets for the first two of three requests: every bad
    # group in a later field, every kind of bad trailing data; every second
    # accepted request
    R1 = [r for r in refused_requests(quick)
          if len(r[0]) == 2 and r[0][0] == GROUPS[1] or r[0] == (GROUPS[2],)]
    A1 = A0[::2]
    out = []
    for pair in itertools.product(R + A, A):
        out.append(pair)
    for a in A0:
        for r in R:
            out.append((a, r))
    for x, y in itertools.product(R1 + A1, repeat=2):
        for a in (A if ctx.quick else A0 + A[len(A0)::3]):
            out.append((x, y, a))
    return out


def work(item, res):
    kind, payload = item
    if kind == "case":
        run_case(payload, res)
    else:
        run_history(payload, res)


def run(ctx):
    singles = cases(ctx)
    placed = placement_cases(ctx)
    hist = histories(ctx)
    items = [("case", c) for c in singles] + [("case", c) for c in placed] \
        + [("hist", h) for h in hist]
    res = core.pmap(ctx, work, items)
    res.cov["states"] = len(res.nontrivial)
    res.cov["traces_validated_against_impl"] = res.cov.get("evaluations", 0)
    res.cov["single_requests"] = len(singles)
    res.cov["placed_requests"] = len(placed)
    res.cov["alphabet"] = dict(
        groups=len(GROUPS), data=len(DATA), bad_groups=len(BAD_GROUPS),
        refused_requests=len(refused_requests(ctx)),
        accepted_requests=len(accepted_requests(ctx)))
    res.sample(dict(args=["H", 0xB2C3, "4s"], data="b''",
                    meaning="one written H, a read-only 4s, empty raw data"))
    res.sample(dict(args=["H", "I", 0xB2C3, 0xD4E5F607], data=None,
                    meaning="both formats first, then both values: the six "
                            "bytes of '<HI' on the wire"))
    res.sample(dict(history=["roundtrip(.., 'HH', 0x1234, 70000)",
                             "roundtrip(.., 'H2xH')"],
                    meaning="a request refused in its second field, then a "
                            "read of six bytes on the same EtherCat object: "
                            "six zeros on the wire"))
    res.assumptions += [
        "only the last format may be read-only (a format without values "
        "elsewhere is rejected by struct)",
        "the formats are joined and the values are taken in order wherever "
        "they stand between the formats (roundtrip's docstring: every str is "
        "a format, everything else is the data for those formats); only "
        "where the trailing-format rule and the number of values contradict "
        "each other (last argument a format although every format has its "
        "values; last argument a value although the last format has none) "
        "the request may also be refused - raise and send nothing",
        "with raw data and no formats either the raw bytes or a 1-tuple of "
        "them is accepted as the return value",
        "a request cannot be encoded when struct refuses a group's values "
        "for the group's format (range, type, number of values), when data "
        "is neither None, an integer nor bytes, or when formats plus data "
        "exceed the 1472 bytes a frame can hold; such a request must raise "
        "(any exception) and send nothing - at which stage it is refused "
        "is not judged",
        "requests of a history run one after the other, each is left to "
        "complete before the next is submitted (concurrency is C12's)"]
    return res


def replay(ctx, rep):
    res = core.Result()
    c = rep["case"]
    if "history" in c:
        history = tuple(
            (tuple((fmt, vals) for fmt, vals in unshow(r["groups"])),
             r["readonly"], unshow(r["data"]), r["cmd"])
            for r in c["history"])
        run_history(history, res)
        return res.violations
    byfmt = dict(GROUPS)
    data = c["data"]
    if isinstance(data, str):
        data = bytes.fromhex(data)
    if "placement" in c:
        run_case((tuple((fmt, byfmt[fmt]) for fmt in c["groups"]),
                  c["readonly"], data, c["cmd"], c["placement"]), res)
        return res.violations
    groups, ro = [], False
    args = c["args"]
    i = 0
    while i < len(args):
        fmt = args[i]
        i += 1
        n = len(byfmt[fmt])
        if i >= len(args) or isinstance(args[i], str) and args[i] in byfmt \
                and not (fmt.endswith("s") and i + n <= len(args)
                         and len(args[i]) == 2 * struct.calcsize(fmt)):
            ro = True
        else:
            i += n
        groups.append((fmt, byfmt[fmt]))
    run_case((tuple(groups), ro, data, c["cmd"]), res)
    return res.violations
