"""C29 - process-based sync groups share device variables.

For every configuration (1..3 device instances of deterministic device classes
with 1..3 ``DeviceVar`` declarations over the formats B H I Q b h i q ? x;
both kinds of declaration: ``DeviceVar(fmt)`` and, for all classes of up to
two variables with every non-empty pattern, ``DeviceVar(fmt, write=True)``
- "written to by the user", a flag the unchanged tree only stores) a
real ``ProcessSyncGroup(ec, devices)`` is constructed (real 'spawn'-context
shared array; ``start()`` is not called, it needs SCHED_RR and a NIC).

(a) in-process: the bytes every variable owns in the shared array are found
    black-box (clear the array, write a probe without zero bytes through the
    descriptor, look which bytes changed); they must be exactly as many as the
    format needs and disjoint between variables; then all variables are
    written and read back for all boundary values.  Rejected writes: with
    every variable holding a value without zero bytes, every value of
    ``K.BAD[fmt]`` (out of range on either side, wrong type, wrong number of
    members, for multi-member formats also wrong in a later member only) is
    written to every variable: the write must raise (whatever exception;
    the unchanged tree raises struct.error, for 'x' also TypeError,
    ValueError, OverflowError from the scaling) and ALL variables must read
    as before; a bad value accepted silently must at least read back equal.
(b) cross-process: the sync groups of a batch are pickled into a really
    spawned child (``sg.ctx.Process``; the same pickling that
    ``ProcessSyncGroup.start()`` does for ``target=self.subprocess_run``: the
    whole group incl. devices and shared arrays); values written in the parent
    before and after the spawn must be read in the child, values written in
    the child must be read in the parent, and with parent and child writing
    alternate variables both must see all of them.  Then a write history
    over two values a, b per variable (``HISTORY``: A-B-A across the
    processes from either side, rewrites of the same value by the last
    writer and by the other process), both processes reading after every
    write; then rejected writes in the parent and in the child, after which
    both processes must read the values written before.
Histories before the group exists: "preset", "regroup", and "rewrite" =
the devices were in another ProcessSyncGroup and were written there, the same
values are written again first thing in the new group.
"""
from mc import core, c29_classes as K

import ebpfcat
import ebpfcat.ebpfcat as ecat
from ebpfcat.ebpfcat import ParallelEtherCat, ProcessSyncGroup

import os

PROP = "C29"
LEVEL = "model_checking"
RULE = ("every configuration (list of device classes, DeviceVar(fmt) and "
        "DeviceVar(fmt, write=True) declarations, optionally with a history "
        "before the group exists) of the stated families is built as a real "
        "ProcessSyncGroup, checked in-process (ownership of bytes, round "
        "trip of all boundary values, every rejected value for every "
        "variable) and in a really spawned child (round trips, a fixed "
        "write history with A-B-A across the processes and rewrites, "
        "rejected writes on either side); non-trivial = at least one device "
        "variable could be accessed; distinct = distinct configuration")

KF = "C29-devicevar-bound-to-fast-group"
BATCH = 80
VARIANTS = ("preset", "regroup", "rewrite")
# who writes which of the two history values, in this order; after every
# write both processes read.  Contains, for both processes: A-B-A across the
# processes (P a, C b, P a / C b, P a, C b), a value rewritten by the process
# that wrote it last, a value written that is already there, and a change of
# value by the process that wrote last
HISTORY = (("P", K.HIST_A), ("C", K.HIST_B), ("P", K.HIST_A),
           ("C", K.HIST_B), ("C", K.HIST_B), ("P", K.HIST_B),
           ("P", K.HIST_A), ("C", K.HIST_A), ("C", K.HIST_B))
TIMEOUT = 120

_ARRAYS = {}


def _recording_get_array(orig):
    def get_array(self, size):
        arr = orig(self, size)
        _ARRAYS.setdefault(id(self), []).append(arr)
        return arr
    return get_array


def is_exc(v):
    return isinstance(v, (tuple, list)) and len(v) == 3 and v[0] == "exc"


def same(a, b):
    if is_exc(a) or is_exc(b):
        return False
    if isinstance(a, (tuple, list)) or isinstance(b, (tuple, list)):
        # multi-element formats read back as tuples (lists after a pipe)
        return isinstance(a, (tuple, list)) and \
            isinstance(b, (tuple, list)) and list(a) == list(b)
    if isinstance(a, (bytes, bytearray)) or isinstance(b, (bytes, bytearray)):
        return isinstance(a, (bytes, bytearray)) and \
            isinstance(b, (bytes, bytearray)) and bytes(a) == bytes(b)
    return isinstance(b, (int, float)) and a == b


class Config:
    def __init__(self, names, extra):
        # history before the group exists: "preset" = plain values were
        # assigned to the device variables while the devices were in no
        # group; "regroup" = the devices were in another group before
        # (without values); "rewrite" = regroup, with values written while
        # the devices were in the other group and the SAME values written
        # again in the new one
        self.variant = None
        if names and names[0] in VARIANTS:
            self.variant, names = names[0], names[1:]
        self.names = list(names)
        self.extra = extra
        self.case = dict(devices=self.names, extra=extra)
        if self.variant:
            self.case["history"] = self.variant
        self.viol = []      # (category, expected, observed, kf)
        self.sg = None
        self.accessible = False
        self.all_keyerror = False
        self.rejections = set()
        self.nrejected = 0
        self.history_failed = False

    def bad(self, cat, expected, observed, kf=None):
        if not any(v[0] == cat for v in self.viol):
            self.viol.append((cat, expected, observed, kf))

    def build(self):
        ec = ParallelEtherCat("c29")
        devs = [K.CLASSES[n]() for n in self.names]
        try:
            if self.variant == "preset":
                for d in devs:
                    for i, f in enumerate(d.FMTS):
                        if len(f) == 1 and f not in "?x":
                            setattr(d, "v%d" % i, 2 + 2 * i)
            elif self.variant in ("regroup", "rewrite"):
                other = [K.CLASSES[self.names[-1]]()] + devs[::-1]
                g0 = ProcessSyncGroup(ec, other)
                if self.variant == "rewrite":
                    K.write_all(g0, K.HIST_A, self.extra, None, True)
                _ARRAYS.clear()
            self.sg = ProcessSyncGroup(ec, devs)
        except Exception as e:
            self.bad("constructing ProcessSyncGroup raised", "a sync group",
                     repr(e))
            return False
        arrs = _ARRAYS.pop(id(self.sg), [])
        if len(arrs) != 1:
            raise core.Internal("expected one shared array per sync group, "
                                "saw %d" % len(arrs))
        self.arr = arrs[0]
        self.vars = K.variables(self.sg)
        return True

    # ------------------------------------------------------------ in-process
    def check_access(self):
        """can the device variables be used at all?"""
        excs = []
        for owner, name, fmt in self.vars[:-1]:
            for op in ("get", "set"):
                try:
                    if op == "get":
                        getattr(owner, name)
                    else:
                        setattr(owner, name, K.VALUES[fmt][0])
                except Exception as e:
                    excs.append((name, op, e))
        n = 2 * (len(self.vars) - 1)
        if not excs:
            self.accessible = True
            return
        # defect model: DeviceVar belongs to FastSyncGroup.properties, the
        # ProcessSyncGroup collects only ProcessSyncGroup.properties, so no
        # device variable has storage: *every* access raises KeyError(name)
        if len(excs) == n and all(
                isinstance(e, KeyError) and e.args == (name,)
                for name, op, e in excs):
            self.all_keyerror = True
            self.bad("every access to a device variable of a "
                     "ProcessSyncGroup raises KeyError",
                     "value", "KeyError(%r)" % excs[0][0], kf=KF)
        else:
            name, op, e = excs[0]
            self.bad("access to a device variable raised",
                     "%s %s works" % (op, name), repr(e))

    def usable(self):
        """variables that can be checked: all, or only the group's own"""
        return self.vars if self.accessible else self.vars[-1:]

    def check_layout(self):
        size = len(self.arr)
        foot = []
        for owner, name, fmt in self.usable():
            self.arr[:] = bytes(size)
            try:
                setattr(owner, name, K.PROBE[fmt])
            except Exception as e:
                self.bad("writing a probe value raised", "ok", repr(e))
                return
            raw = bytes(self.arr)
            own = [i for i in range(size) if raw[i]]
            need = K.SIZES[fmt]
            pat = K.owned_pattern(fmt)
            base = own[0] - pat[0] if own else 0
            if own != [base + i for i in pat]:
                self.bad("variable does not own exactly the bytes of its "
                         "format", "%d contiguous bytes (%s)" % (need, fmt),
                         own)
                foot.append(own)
            else:
                # the whole slot, padding included
                foot.append(list(range(base, base + need)))
        self.arr[:] = bytes(size)
        us = self.usable()
        for i in range(len(us)):
            for j in range(i + 1, len(us)):
                if set(foot[i]) & set(foot[j]):
                    what = ("variables of different devices share storage"
                            if us[i][0] is not us[j][0] else
                            "two variables of one device share storage")
                    self.bad(what, "disjoint",
                             dict(a=[self.owner_index(us[i][0]), us[i][1],
                                     foot[i]],
                                  b=[self.owner_index(us[j][0]), us[j][1],
                                     foot[j]]))

    def owner_index(self, owner):
        if owner is self.sg:
            return "group"
        return [d is owner for d in self.sg.devices].index(True)

    def expected(self, k, parity=None, before=None):
        out = []
        for n, (owner, name, fmt) in enumerate(self.vars):
            if parity is not None and n % 2 != parity:
                out.append(before[n])
            else:
                out.append(K.value_for(fmt, k + n, self.extra))
        return out

    def compare(self, cat, exp, obs, attempt=None):
        """compare full value vectors; device variables only if accessible"""
        lo = 0 if self.accessible else len(self.vars) - 1
        for n in range(lo, len(self.vars)):
            if not same(exp[n], obs[n]):
                owner, name, fmt = self.vars[n]
                e = dict(var=[self.owner_index(owner), name, fmt],
                         value=exp[n])
                if attempt is not None:
                    e["after_the_rejected_write"] = attempt
                self.bad(cat, e, dict(value=obs[n]))
                return False
        return True

    def flat(self, k):
        return [K.flat_value(fmt, k, self.extra) for _, _, fmt in self.vars]

    def check_rewrite(self):
        """history "rewrite": the values the devices were given in their
        former group are written again in this one, first thing"""
        if self.variant != "rewrite":
            return
        for k in (K.HIST_A, K.HIST_A, K.HIST_B, K.HIST_A):
            w = K.write_all(self.sg, k, self.extra, None, True)
            obs = K.read_all(self.sg)
            if any(w) or any(is_exc(x) for x in obs):
                return      # no access at all: check_access reports it
            exp = self.flat(k)
            for n, (owner, name, fmt) in enumerate(self.vars):
                if not same(exp[n], obs[n]):
                    self.bad("in-process: value written again after the "
                             "devices changed their group is not read back",
                             dict(var=[self.owner_index(owner), name, fmt],
                                  value=exp[n]), dict(value=obs[n]))
                    return

    def check_rejected(self):
        """writes the format must reject: all of BAD for every variable;
        all variables hold values without zero bytes before"""
        if not self.accessible:
            return
        probe = self.flat("probe")
        refused = K.write_all(self.sg, "probe", self.extra, None, True)
        if any(refused):
            # values every format of the alphabet holds
            self.bad("in-process: a value that fits the format of its "
                     "variable can be written",
                     dict(values=[repr(v) for v in probe]),
                     dict(errors=[repr(e)[:80] for e in refused if e]))
            return
        for n, (owner, name, fmt) in enumerate(self.vars):
            for badv in K.BAD[fmt]:
                try:
                    setattr(owner, name, badv)
                    exc = None
                except Exception as e:
                    exc = e
                self.rejections.add(type(exc).__name__)
                after = K.read_all(self.sg)
                where = dict(var=[self.owner_index(owner), name, fmt],
                             value=repr(badv))
                if exc is None:
                    self.bad("a value that does not fit the format was "
                             "written without an error and is read back as "
                             "another value", where, dict(value=after[n]))
                    K.write_all(self.sg, "probe", self.extra, None, True)
                elif not self.compare(
                        "in-process: a rejected write (%s) changed a "
                        "variable" % type(exc).__name__, probe, after,
                        attempt=where):
                    K.write_all(self.sg, "probe", self.extra, None, True)
        self.nrejected = sum(len(K.BAD[f]) for _, _, f in self.vars)

    def check_roundtrip(self):
        for k in range(2 * K.NVALUES):
            w = K.write_all(self.sg, k, self.extra)
            bad = [x for x in w[0 if self.accessible else -1:] if x]
            if bad:
                self.bad("writing a value raised", "ok", bad[0])
                return
            self.compare("in-process: value read back differs from the "
                         "value written", self.expected(k),
                         K.read_all(self.sg))


# ------------------------------------------------------------ cross-process
def spawn_batch(cfgs):
    """write the first values and start one spawned child for the batch"""
    live = [c for c in cfgs if c.sg is not None]
    if not live:
        return None
    groups = [c.sg for c in live]
    ctx = groups[0].ctx
    for c in live:
        K.write_all(c.sg, 100, c.extra)
    parent, child = ctx.Pipe()
    try:
        proc = ctx.Process(target=K.child_main, args=(groups, child))
        proc.start()
    except Exception as e:
        for c in live:
            c.bad("spawning a child with the sync group failed", "spawned",
                  repr(e))
        parent.close()
        child.close()
        return None
    child.close()
    return live, parent, proc


def protocol(handle):
    """the cross-process protocol of one batch, as a generator: yields the
    command for the child (None: only wait for its message) and is sent the
    child's answer; returns the number of exchanges"""
    live, parent, proc = handle
    if True:
        hello = yield None
        here = os.path.dirname(os.path.abspath(ebpfcat.__file__))
        if hello[0] != "hello" or hello[1] != here:
            raise core.Internal("child imported ebpfcat from %r, parent "
                                "from %r" % (hello[1], here))
        if hello[2] == os.getpid():
            raise core.Internal("child is not a separate process")
        # 1. written in the parent before the spawn, read in the child
        got = yield ("read",)
        for c, g in zip(live, got):
            c.compare("parent -> child: value written before the spawn is "
                      "not what the child reads", c.expected(100), g)
        # 2. written in the parent while the child lives
        for c in live:
            K.write_all(c.sg, 201, c.extra)
        got = yield ("read",)
        for c, g in zip(live, got):
            c.compare("parent -> child: value written in the parent is not "
                      "what the child reads", c.expected(201), g)
        # 3. written in the child, read in the parent
        for k in (302, 303):
            yield ("write", k, live[0].extra, None)
            for c in live:
                c.compare("child -> parent: value written in the child is "
                          "not what the parent reads", c.expected(k),
                          K.read_all(c.sg))
        # 4. alternating writers
        before = {id(c): c.expected(303) for c in live}
        for c in live:
            K.write_all(c.sg, 404, c.extra, 0)
        yield ("write", 505, live[0].extra, 1)
        got = yield ("read",)
        for c, g in zip(live, got):
            exp = c.expected(505, 1, c.expected(404, 0, before[id(c)]))
            c.compare("alternating writers: child does not see all values",
                      exp, g)
            c.compare("alternating writers: parent does not see all values",
                      exp, K.read_all(c.sg))
        # 5. value histories: A-B-A across the processes, rewrites
        acc = [c for c in live if c.accessible]
        story = []
        for who, k in HISTORY:
            story.append("%s writes %s" % (who, "ab"[k == K.HIST_B]))
            if who == "P":
                for c in live:
                    K.write_all(c.sg, k, c.extra, None, True)
            else:
                yield ("writeflat", k, live[0].extra)
            got = yield ("read",)
            for c, g in zip(live, got):
                # (the first step of the history that fails is reported)
                for side, obs in (("child", g), ("parent", K.read_all(c.sg))):
                    if not c.history_failed and not c.compare(
                            "history (P = parent, C = child; %s): %s does "
                            "not read the value written last"
                            % (", ".join(story), side), c.flat(k), obs):
                        c.history_failed = True
        # 6. rejected writes in the parent, 7. in the child: both go on
        # reading the values written before
        for c in live:
            K.write_all(c.sg, "probe", c.extra, None, True)
        for who, shift in (("parent", 0), ("child", 3)):
            if who == "parent":
                outcome = [K.reject_all(c.sg, shift) for c in live]
            else:
                outcome = yield ("reject", shift,)
            got = yield ("read",)
            for c, o, g in zip(acc, [o for c, o in zip(live, outcome)
                                     if c.accessible],
                               [g for c, g in zip(live, got)
                                if c.accessible]):
                if not all(o):
                    n = [bool(x) for x in o].index(False)
                    owner, name, fmt = c.vars[n]
                    c.bad("a value that does not fit the format was "
                          "written without an error (%s)" % who,
                          dict(var=[c.owner_index(owner), name, fmt],
                               value=repr(K.BAD[fmt][(n + shift)
                                                     % len(K.BAD[fmt])])),
                          "no exception")
                    continue
                c.rejections |= {x[1] for x in o}
                for side, obs in (("child", g), ("parent", K.read_all(c.sg))):
                    c.compare("after writes rejected in the %s the %s does "
                              "not read the values written before"
                              % (who, side), c.flat("probe"), obs)
        if (yield ("quit",)) != "bye":
            raise core.Internal("child protocol error")
    return (6 + 2 * len(HISTORY) + 4) * len(live)


def talk_wave(handles):
    """run the protocols of all batches of a wave in lock-step, so that the
    children work at the same time; returns the number of exchanges"""
    total = 0
    gens = []
    for h in handles:
        if h is not None:
            g = protocol(h)
            gens.append((g, h, next(g)))
    while gens:
        for g, h, cmd in gens:
            if cmd is not None:
                h[1].send(cmd)
        nxt = []
        for g, h, cmd in gens:
            if not h[1].poll(TIMEOUT):
                raise core.Internal(
                    "spawned child does not answer %r (exit code %r)"
                    % (cmd, h[2].exitcode))
            try:
                ans = h[1].recv()
            except EOFError:
                raise core.Internal("spawned child died (exit code %r)"
                                    % h[2].exitcode)
            try:
                nxt.append((g, h, g.send(ans)))
            except StopIteration as e:
                total += e.value
                h[2].join(TIMEOUT)
                if h[2].exitcode != 0:
                    raise core.Internal("child exit code %r" % h[2].exitcode)
        gens = nxt
    return total


# ------------------------------------------------------------ configurations
def configurations(ctx):
    names = list(K.ORDER)
    n = len(names)
    extra = ctx.seed
    out = []

    def add(*idx):
        out.append(tuple(names[i % n] for i in idx))

    plain = K.NPLAIN + K.NSPECIAL       # classes without write=True first
    small = [i for i, nm in enumerate(names[:plain])
             if len(K.CLASSES[nm].FMTS) <= 2 or nm.startswith("Dev_sub")
             or nm.startswith("Dev_base")]
    wsmall = list(range(plain, n))      # declared with write=True
    if ctx.quick:
        big = [i for i in range(plain) if i not in small]
        pick = small + big[ctx.seed % 8::8]
        for i in pick + wsmall:
            add(i)
            add(i, i)
        for i in small:
            add(i, i, i)
            add(i, i + 1)
        for i in small[::3]:
            add(i, i + 31, i + 152)
            add(i + 5, i, i)
        for i in wsmall[ctx.seed % 3::3]:
            add(i, i + 1)
            add(i, i - plain, i)
    else:
        for i in range(n):
            add(i)
            add(i, i)
            add(i, i, i)
            add(i, i + 1)
            add(i, i + 97)
            add(i, i + 31, i + 152)
            if i % 2:
                add(i, i, i + 5)
            else:
                add(i + 5, i, i)
    # the same with a history (see Config)
    hist = small + wsmall if not ctx.quick else \
        small[::2] + wsmall[ctx.seed % 4::4]
    for i in hist:
        for v in VARIANTS:
            out.append((v, names[i % n], names[(i + 1) % n]))
            if not ctx.quick:
                out.append((v, names[i % n]))
                out.append((v, names[i % n], names[i % n],
                            names[(i + 31) % n]))
    seen, uniq = set(), []
    for c in out:
        if c not in seen:
            seen.add(c)
            uniq.append(c)
    return uniq, extra


def run_configs(ctx, confs, extra, res):
    orig = ProcessSyncGroup.get_array
    ProcessSyncGroup.get_array = _recording_get_array(orig)
    try:
        batches = []
        for start in range(0, len(confs), BATCH):
            batch = [Config(names, extra)
                     for names in confs[start:start + BATCH]]
            for c in batch:
                if not c.build():
                    continue
                c.check_rewrite()
                c.check_access()
                c.check_layout()
                c.check_roundtrip()
                c.check_rejected()
                res.count("transitions", 2 * K.NVALUES * len(c.vars)
                          + c.nrejected)
            batches.append(batch)
        # children are started in waves (their start-up dominates), then
        # served one after the other; results do not depend on the overlap
        wave = max(1, min(ctx.workers, 16))
        for w in range(0, len(batches), wave):
            handles = []
            try:
                for batch in batches[w:w + wave]:
                    handles.append(spawn_batch(batch))
                    res.count("spawns")
                res.count("transitions", talk_wave(handles))
            finally:
                for h in handles:
                    if h is not None:
                        h[1].close()
                        if h[2].is_alive():
                            h[2].kill()
                            h[2].join()
        for batch in batches:
            for c in batch:
                res.count("evaluations")
                res.count("traces_validated_against_impl")
                if c.accessible:
                    res.nontrivial.add(core.digest(c.case))
                res.outcomes.add((c.variant, len(c.names), len(set(c.names)),
                                  c.accessible, tuple(sorted(c.rejections)),
                                  tuple(v[0] for v in c.viol)))
                res.count("rejected_writes", c.nrejected)
                if any(w for n in c.names
                       for w in K.CLASSES[n].__dict__.get("WRITTEN", ())) \
                        or any("_w" in n for n in c.names):
                    res.count("configurations_with_write_variables")
                for cat, exp, obs, kf in c.viol:
                    res.violation(c.case, exp, obs, kf=kf,
                                  sig=core.digest([cat]), note=cat)
                c.sg = None
    finally:
        ProcessSyncGroup.get_array = orig
        _ARRAYS.clear()


def selftest():
    for fmt in K.FORMATS:
        import struct
        vals = K.VALUES[fmt] + [K.PROBE[fmt]]
        for v in vals:
            if fmt == "x":
                if int(v * 100000) != v * 100000:
                    raise core.Internal("fixed-point value %r not exact" % v)
                raw = struct.pack("q", int(v * 100000))
            else:
                raw = struct.pack(fmt, v)
            if len(raw) != K.SIZES[fmt]:
                raise core.Internal("size table wrong for %r" % fmt)
        if fmt == "x":
            raw = struct.pack("q", int(K.PROBE[fmt] * 100000))
        else:
            raw = struct.pack(fmt, K.PROBE[fmt])
        if 0 in raw:
            raise core.Internal("probe for %r has a zero byte" % fmt)
    if len(K.ORDER) != 285 + 9 + 10 + 3 * 55 + 3 + 2 \
            or len(set(K.ORDER)) != len(K.ORDER):
        raise core.Internal("class table incomplete")
    # the values called "bad" do not fit, by the rules of struct alone
    import struct
    for fmt, bads in K.BAD.items():
        for v in bads:
            try:
                if fmt == "x":
                    struct.pack("q", round(v * 100000))
                else:
                    struct.pack(fmt, *(v if isinstance(v, tuple) else (v,)))
            except (struct.error, TypeError, ValueError, OverflowError):
                continue
            raise core.Internal("%r fits format %r" % (v, fmt))
    for fmt in K.SIZES:
        if same(K.flat_value(fmt, K.HIST_A), K.flat_value(fmt, K.HIST_B)):
            raise core.Internal("history values of %r are equal" % fmt)


def run(ctx):
    selftest()
    confs, extra = configurations(ctx)
    res = core.Result()
    run_configs(ctx, confs, extra, res)
    res.cov["states"] = len(confs)
    res.cov["alphabet"] = dict(
        formats=K.FORMATS, classes=len(K.ORDER),
        classes_with_write_variables=len(K.WORDER),
        configurations=len(confs), instances="1..3",
        values_per_format=K.NVALUES, batch=BATCH,
        histories_before_the_group=list(VARIANTS),
        write_history=["%s:%s" % (w, "ab"[k == K.HIST_B])
                       for w, k in HISTORY],
        rejected_values_per_format={f: len(v) for f, v in K.BAD.items()})
    res.cov["bound_completed"] = (
        "all declaration multisets up to size 3, those up to size 2 also "
        "with every pattern of write=True; quick: all of size <= 2 and "
        "every 8th of size 3" if ctx.quick else
        "all declaration multisets up to size 3 (up to size 2 also with "
        "every pattern of write=True) x 7 instance patterns")
    if not res.violations and not (
            res.cov.get("rejected_writes")
            and res.cov.get("configurations_with_write_variables")):
        raise core.Internal("vacuous: no rejected writes / no write=True "
                            "variables")
    for c in (confs[0], confs[len(confs) // 2], confs[-1]):
        res.sample(dict(devices=list(c)))
    res.assumptions += [
        "the child runs harness code around the real descriptors on the "
        "unpickled sync group, not subprocess_run (needs SCHED_RR and a NIC); "
        "the group is pickled exactly as Process(target=bound method) would",
        "fixed-point ('x') values are dyadic, so no rounding is involved",
        "storage is identified black-box: the bytes of the shared array that "
        "change when a value without zero bytes is written",
        "formats are native ones (struct without prefix): 'l'/'L' are 8 "
        "bytes here, 'hI'/'BI' contain padding, which belongs to the "
        "variable's slot",
        "a write that raises is a rejected write, whatever the exception; "
        "the statement then demands nothing of the written value, but 'read "
        "unchanged' still holds for what was written before: the variable "
        "and all others read as before, in both processes.  Only values are "
        "compared, padding bytes may change.  '?' accepts every object, only "
        "a wrong number of members is rejected",
        "write histories use two values per variable that differ for every "
        "format; parent and child never write at the same time (reads "
        "follow the acknowledged write)",
    ]
    return res


def replay(ctx, rep):
    c = rep["case"]
    res = core.Result()
    names = tuple(c["devices"])
    if c.get("history"):
        names = (c["history"],) + names
    run_configs(ctx, [names], c.get("extra", 0), res)
    for v in res.violations:
        print("  ", v["note"], "| expected", v["expected"], "| observed",
              v["observed"])
    return res.violations
