"""C19 - process variables access their own bits and bytes on both paths.

Terminals are faked by hand with a PDO map covering a bit at every position,
B H I Q at aligned and unaligned offsets, signed overrides, bit overrides,
`PacketDesc`s, and `Struct` channels with sm3/sm2/coe offsets.  Devices link
1..3 of these variables.  Every case is executed twice on the same frame:

* Python path: a slow `SyncGroup` with `current_data`, `device.var` /
  `device.var = value`;
* program path: a real `FastSyncGroup` whose device program is the same access
  as a DSL statement (`self.dv = self.tv`, `self.tv = self.dv`,
  `self.tv = <constant>`), assembled and run in the interpreter.

Oracle (1): plain `struct` / bit mask at (start of the terminal's region in
the frame) + (byte offset of the variable), nothing else changes.
Oracle (2): both paths leave the same frame and read the same value.
"""
import itertools
import struct

from mc import bpfvm, core, ecparse, fastsim, kern
from ebpfcat.ebpfcat import (
    Device, DeviceVar, EBPFTerminal, PacketDesc, ProcessDesc, Struct,
    SyncGroup, TerminalVar)
from ebpfcat.ethercat import SyncManager

PROP = "C19"
LEVEL = "model_checking"
RULE = ("every variable of the fake terminal's map (bits 0..7, B H I Q aligned "
        "and unaligned, signed / bit overrides, PacketDesc, Struct channels "
        "with offsets) x {read, write from a device variable, write a "
        "constant} x frame content {all 0, all 1, position coded} x boundary "
        "values x group layout (FMMU / direct, with and without a terminal in "
        "front), plus pairs and triples of neighbouring / aliasing variables "
        "in one device; non-trivial = both paths accepted the access")

OUT, IN = SyncManager.OUT, SyncManager.IN
SIZES = {"B": 1, "H": 2, "I": 4, "Q": 8, "b": 1, "h": 2, "i": 4, "q": 8}
REGION = 31            # bytes per direction of the terminal under test

# ---------------------------------------------------------------- the map
# independent table: name -> (sm, byte offset in the terminal's region,
# format letter or bit number)
VARS = {}
PDOS = {}
ATTRS = {}


def _add(name, desc, sm, off, size):
    ATTRS[name] = desc
    VARS[name] = (sm, off, size)


def _build_map():
    for sm, base, tag in ((OUT, 0x7000, "o"), (IN, 0x6000, "i")):
        for bit in range(8):                      # a bit at every position
            PDOS[(base, bit + 1)] = (sm, 0, bit)
            _add(f"{tag}_bit{bit}", ProcessDesc(base, bit + 1), sm, 0, bit)
        blocks = ((0x10, "a", {"B": 1, "H": 2, "I": 4, "Q": 8}),
                  (0x20, "u", {"B": 16, "H": 17, "I": 19, "Q": 23}))
        for blk, al, offs in blocks:
            for sub, (fmt, off) in enumerate(offs.items(), 1):
                PDOS[(base + blk, sub)] = (sm, off, fmt)
                _add(f"{tag}_{al}{fmt}", ProcessDesc(base + blk, sub),
                     sm, off, fmt)
                # explicit signed format
                _add(f"{tag}_{al}{fmt.lower()}",
                     ProcessDesc(base + blk, sub, fmt.lower()),
                     sm, off, fmt.lower())
        # bit override: one bit of the byte a multi-byte entry starts at
        _add(f"{tag}_ovbit5", ProcessDesc(base + 0x10, 2, 5), sm, 2, 5)
        _add(f"{tag}_ovbit0", ProcessDesc(base + 0x20, 3, 0), sm, 19, 0)
        # size override to a narrower / wider format
        _add(f"{tag}_ovB", ProcessDesc(base + 0x10, 3, "B"), sm, 4, "B")
        _add(f"{tag}_ovQ", ProcessDesc(base + 0x20, 1, "Q"), sm, 16, "Q")
        # low-level descriptions
        _add(f"{tag}_pdH", PacketDesc(sm, 2, "H"), sm, 2, "H")
        _add(f"{tag}_pdq", PacketDesc(sm, 23, "q"), sm, 23, "q")
        _add(f"{tag}_pdi3", PacketDesc(sm, 3, "i"), sm, 3, "i")
        _add(f"{tag}_pdbit7", PacketDesc(sm, 30, 7), sm, 30, 7)
        _add(f"{tag}_pdbit2", PacketDesc(sm, 1, 2), sm, 1, 2)


_build_map()


class _Ch(Struct):
    """a repetitive channel: entries relative to the channel's offsets"""
    ov = ProcessDesc(0x7010, 2)            # H, output
    iv = ProcessDesc(0x6010, 2)            # H, input
    ovs = ProcessDesc(0x7010, 2, "h")
    op = PacketDesc(OUT, 2, "H")
    ip = PacketDesc(IN, 2, "H")
    ob = PacketDesc(OUT, 0, 3)
    ib = PacketDesc(IN, 0, 6)


ATTRS["ch1"] = _Ch(0)
ATTRS["ch2"] = _Ch(15, 15, 0x10)       # sm3, sm2, coe
ATTRS["ch3"] = _Ch(4, 6, 0)
STRUCT_LINKED = ["@ch2.ov", "@ch3.ip", "@ch1.ib"]
for _n, (_sm3, _sm2, _coe) in (("ch1", (0, 0, 0)), ("ch2", (15, 15, 0x10)),
                               ("ch3", (4, 6, 0))):
    _h = {0: 2, 0x10: 17}[_coe]
    VARS[f"{_n}.ov"] = (OUT, _h, "H")
    VARS[f"{_n}.iv"] = (IN, _h, "H")
    VARS[f"{_n}.ovs"] = (OUT, _h, "h")
    VARS[f"{_n}.op"] = (OUT, 2 + _sm2, "H")
    VARS[f"{_n}.ip"] = (IN, 2 + _sm3, "H")
    VARS[f"{_n}.ob"] = (OUT, 0 + _sm2, 3)
    VARS[f"{_n}.ib"] = (IN, 0 + _sm3, 6)

for _n in STRUCT_LINKED:
    VARS[_n] = VARS[_n[1:]]

T19 = type("T19", (EBPFTerminal,), dict(ATTRS))


def _other_revision():
    """the PDO table of another terminal of the same class (another
    revision / another configured mapping): every entry keeps its place but
    has another width or bit number"""
    wider = {"B": "H", "H": "I", "I": "Q", "Q": "B"}
    out = {}
    for key, (sm, off, size) in PDOS.items():
        out[key] = (sm, off, (size + 3) % 8 if isinstance(size, int)
                    else wider[size])
    return out


PDOS_B = _other_revision()


class _Other(EBPFTerminal):
    o = PacketDesc(OUT, 0, "H")
    i = PacketDesc(IN, 1, "B")


LAYOUTS = {
    # name: [(kind, position, use_fmmu)], kind "T" = terminal under test
    "fmmu": [("T", 4, True)],
    "direct": [("T", 4, False)],
    "other+fmmu": [("O", 2, True), ("T", 4, True)],
    "direct-other+direct": [("O", 2, False), ("T", 4, False)],
    "fmmu+direct-other-behind": [("T", 4, True), ("O", 9, False)],
    "direct+fmmu-other": [("O", 2, True), ("T", 4, False)],
}


def values_for(size, seed):
    if isinstance(size, int):
        # a bit is written by truth value: flags masked out of a status
        # byte and counters are ordinary sources
        return [0, 1, 0x10, 2, 0x80, 0x100]
    bits = SIZES[size] * 8
    import random
    rnd = random.Random(seed * 131 + bits + size.islower())
    if size.islower():
        lo, hi = -(1 << (bits - 1)), (1 << (bits - 1)) - 1
        vs = [0, 1, -1, lo, hi, -2, int("5a" * (bits // 8), 16) >> 1]
        vs.append(rnd.randrange(lo, hi + 1))
    else:
        hi = (1 << bits) - 1
        vs = [0, 1, hi, 1 << (bits - 1), hi - 1, int("a5" * (bits // 8), 16)]
        vs.append(rnd.randrange(0, hi + 1))
    out = []
    for v in vs:
        if v not in out:
            out.append(v)
    return out


def content(kind, n):
    if kind == "zero":
        return bytearray(n)
    if kind == "ones":
        return bytearray(b"\xff" * n)
    return bytearray(((i * 7 + 3) ^ (i >> 3)) & 0xff for i in range(n))


# ---------------------------------------------------------------- building
def make_device(names, ops, consts):
    """device with tvK linked later; dvK device variables; program = ops"""
    attrs = {}
    for k, name in enumerate(names):
        attrs[f"tv{k}"] = TerminalVar()
        size = VARS[name][2]
        signed = isinstance(size, str) and size.islower()
        attrs[f"dv{k}"] = DeviceVar("q" if signed else "Q", write=True)

    def program(self):
        for k, op in enumerate(ops):
            if op == "read" and names[k].startswith("@"):
                setattr(self, f"dv{k}", getattr(getattr(self, f"tv{k}"),
                                                names[k].split(".")[1]))
            elif op == "read":
                setattr(self, f"dv{k}", getattr(self, f"tv{k}"))
            elif op == "writev":
                setattr(self, f"tv{k}", getattr(self, f"dv{k}"))
            elif op == "writec":
                setattr(self, f"tv{k}", consts[k])

    attrs["program"] = program
    return type("Dev19", (Device,), attrs)()


def resolve(term, name):
    if name.startswith("@"):          # link the whole Struct channel
        return getattr(term, name[1:].split(".")[0])
    if "." in name:
        ch, attr = name.split(".")
        return getattr(getattr(term, ch), attr)
    return getattr(term, name)


def build_terminals(ec, layout):
    terms = []
    tut = None
    for n, (kind, pos, fmmu) in enumerate(LAYOUTS[layout]):
        if kind == "T":
            t = fastsim.fake_terminal(ec, T19, pos, REGION, REGION, fmmu,
                                      PDOS, in_off=0x1100, out_off=0x1000)
            tut = t
        else:
            t = fastsim.fake_terminal(ec, _Other, pos, 3, 5, fmmu, {},
                                      in_off=0x1400, out_off=0x1300)
        terms.append(t)
    return terms, tut


class Keep(Device):
    """keeps the other terminal in the group (read-write)"""
    o = TerminalVar()
    i = TerminalVar()

    def program(self):
        pass


def link(dev, terms, tut, names):
    for k, name in enumerate(names):
        setattr(dev, f"tv{k}", resolve(tut, name))
    devs = [dev]
    for t in terms:
        if t is not tut:
            kd = Keep()
            kd.o = t.o
            kd.i = t.i
            devs.append(kd)
    return devs


def region_starts(payload, tut, sg):
    """where the terminal's regions are, found in the assembled frame by the
    independent parser (direct addressing), else from the allocation"""
    starts = {}
    try:
        _, dgs = ecparse.parse(bytes(payload))
    except ecparse.ParseError as e:
        raise core.Internal(f"frame does not parse: {e}")
    for d in dgs[1:]:
        if d.cmd in (ecparse.FPRD, ecparse.FPWR) and \
                d.addr & 0xffff == tut.position:
            sm = IN if d.cmd == ecparse.FPRD else OUT
            starts[sm] = d.data_pos
    return starts


class Case:
    """one (layout, variables, ops) configuration built on both paths"""

    def __init__(self, layout, names, ops, consts):
        self.layout, self.names, self.ops, self.consts = \
            layout, names, ops, consts
        fastsim.reset_globals()
        if layout.endswith("|revB"):
            # history: a terminal of the same class with another PDO table
            # had the same variables resolved before in this process
            layout = layout[:-5]
            tb = fastsim.fake_terminal(fastsim.new_ec(), T19, 9, REGION,
                                       REGION, True, PDOS_B,
                                       in_off=0x1100, out_off=0x1000)
            for name in names:
                try:
                    resolve(tb, name)
                except Exception:
                    pass
        # ---- python path
        ec = fastsim.new_ec()
        terms, tut = build_terminals(ec, layout)
        self.pdev = make_device(names, ops, consts)
        devs = link(self.pdev, terms, tut, names)
        self.psg = SyncGroup(ec, devs)
        self.psg.allocate()
        # ---- program path
        self.kernel = bpfvm.Kernel()
        ec2 = fastsim.new_ec()
        terms2, tut2 = build_terminals(ec2, layout)
        self.fdev = make_device(names, ops, consts)
        devs2 = link(self.fdev, terms2, tut2, names)
        self.group = fastsim.FastGroup(devs2, ec2, self.kernel, index=3)
        g = self.group
        self.size = max(g.size, 46)
        if self.psg.packet.size != g.size:
            raise core.Internal("slow and fast groups allocate differently")
        # start of the terminal's regions: allocation, cross-checked with the
        # parsed frame where the datagram is addressed to the terminal
        self.starts = dict(g.sg.pdo_assign[tut2])
        pstarts = dict(self.psg.pdo_assign[tut])
        if pstarts != self.starts:
            raise core.Internal("slow and fast groups place the terminal "
                                "differently")
        # where the datagram is addressed to the terminal the parsed frame
        # is the authority: the region is the datagram's data area
        for sm, pos in region_starts(g.assembled, tut2, g.sg).items():
            self.starts[sm] = pos
        # bytes the activation of the frame owns (not judged here)
        self.masked = set()
        for cp, wp, _, _ in g.writers():
            self.masked |= {cp, wp, wp + 1}

    def var_pos(self, name):
        sm, off, size = VARS[name]
        return self.starts[sm] + off, size

    # -- oracle (1)
    def ref_read(self, payload, name):
        pos, size = self.var_pos(name)
        if isinstance(size, int):
            return (payload[pos] >> size) & 1
        return struct.unpack_from("<" + size, payload, pos)[0]

    def ref_write(self, payload, name, value):
        pos, size = self.var_pos(name)
        if isinstance(size, int):
            if value:
                payload[pos] |= 1 << size
            else:
                payload[pos] &= ~(1 << size) & 0xff
        else:
            struct.pack_into("<" + size, payload, pos, value)

    # -- python path
    def run_python(self, payload, values):
        self.psg.current_data = bytearray(payload)
        reads = []
        for k, op in enumerate(self.ops):
            if op == "read" and self.names[k].startswith("@"):
                reads.append(int(getattr(getattr(self.pdev, f"tv{k}"),
                                         self.names[k].split(".")[1])))
            elif op == "read":
                reads.append(int(getattr(self.pdev, f"tv{k}")))
            else:
                v = values[k] if op == "writev" else self.consts[k]
                setattr(self.pdev, f"tv{k}", v)
                reads.append(None)
        out = bytearray(self.psg.current_data)
        self.psg.current_data = None
        return out, reads

    # -- program path
    def run_program(self, payload, values):
        g = self.group
        g.area[:] = bytes(len(g.area))
        g.set_wkc_errors(1)
        for k, op in enumerate(self.ops):
            if op == "writev":
                size = VARS[self.names[k]][2]
                signed = isinstance(size, str) and size.islower()
                g.set_var(self.fdev, f"dv{k}", "q" if signed else "Q",
                          values[k])
            else:
                g.set_var(self.fdev, f"dv{k}", "Q", 0x7777777777777777)
        frame = bytearray(fastsim.ETH_HEADER + payload)
        vm = bpfvm.VM(self.kernel, g.insns, frame)
        vm.run()
        if vm.retval != bpfvm.XDP_TX:
            raise bpfvm.Trap(f"group program returned {vm.retval}")
        reads = []
        for k, op in enumerate(self.ops):
            if op == "read":
                size = VARS[self.names[k]][2]
                signed = isinstance(size, str) and size.islower()
                reads.append(g.get_var(self.fdev, f"dv{k}",
                                       "q" if signed else "Q"))
            else:
                reads.append(None)
        return frame[fastsim.ETH:], reads, frame


def judge(case, kind, values, res, realrig=None):
    """run one (frame content, values) on both paths and judge"""
    names, ops = case.names, case.ops
    payload = content(kind, case.size)
    desc = dict(layout=case.layout, vars=list(names), ops=list(ops),
                content=kind, values=list(values),
                consts=list(case.consts))
    res.count("evaluations")
    # reference
    exp = bytearray(payload)
    exp_reads = []
    for k, op in enumerate(ops):
        if op == "read":
            exp_reads.append(case.ref_read(exp, names[k]))
        else:
            v = values[k] if op == "writev" else case.consts[k]
            case.ref_write(exp, names[k], v)
            exp_reads.append(None)

    def masked(b):
        b = bytearray(b)
        for p in case.masked:
            b[p] = 0
        return bytes(b)

    def report(path, what, e, o):
        res.outcomes.add(("wrong", path, what))
        res.violation(desc, e, o,
                      sig=core.digest([path, what,
                                       [shape(n) for n in names], list(ops)]),
                      note=f"{path}: {what}")

    try:
        pout, preads = case.run_python(payload, values)
    except Exception as e:
        res.count("python_path_rejected")
        res.outcomes.add(("python rejected", type(e).__name__))
        pout = None
    try:
        fout, freads, _ = case.run_program(payload, values)
    except bpfvm.Trap as t:
        report("program", "trap", "program runs", str(t))
        fout = None
    if pout is not None and fout is not None:
        res.nontrivial.add(core.digest([desc], 10))
    ok = True
    for path, out, reads in (("python", pout, preads if pout is not None
                              else None),
                             ("program", fout, freads if fout is not None
                              else None)):
        if out is None:
            continue
        if masked(out) != masked(exp):
            ok = False
            diff = [i for i in range(len(exp))
                    if masked(out)[i] != masked(exp)[i]]
            report(path, "frame bytes differ from the reference",
                   dict(at=diff[:6], bytes=[exp[i] for i in diff[:6]]),
                   dict(at=diff[:6], bytes=[out[i] for i in diff[:6]]))
        if reads != exp_reads:
            ok = False
            report(path, "value read differs from the reference",
                   exp_reads, reads)
    if pout is not None and fout is not None:
        if masked(pout) != masked(fout) or preads != freads:
            ok = False
            report("both", "Python path and program path disagree",
                   dict(frame=masked(pout).hex()[:120], reads=preads),
                   dict(frame=masked(fout).hex()[:120], reads=freads))
    if ok:
        res.outcomes.add(("ok", tuple(ops)))


def shape(name):
    sm, off, size = VARS[name]
    return [sm.name, "bit" if isinstance(size, int) else size,
            "struct" if "." in name else "packetdesc" if "_pd" in name
            else "override" if "_ov" in name else "processdesc"]


# ---------------------------------------------------------------- enumeration
def ops_for(name):
    sm = VARS[name][0]
    if name.startswith("@"):     # a linked Struct can only be read through
        return ["read"]
    return ["read", "writev", "writec"] if sm is OUT else ["read"]


def single_items(ctx, layouts):
    items = []
    for layout in layouts:
        for name in VARS:
            for op in ops_for(name):
                items.append((layout, (name,), (op,)))
    return items


def multi_items(ctx, layouts):
    groups = [
        ("o_bit0", "o_bit1", "o_bit7"), ("o_bit3", "o_aB", "o_ovbit5"),
        ("o_aH", "o_pdH", "o_pdi3"), ("o_uH", "o_uI", "o_uB"),
        ("o_aI", "o_ovB", "o_aQ"), ("o_uQ", "o_pdq", "o_pdbit7"),
        ("ch1.ov", "ch2.ov", "ch3.op"), ("ch2.ob", "ch3.ob", "ch1.ob"),
        ("i_aH", "o_aH", "i_bit4"), ("i_uq", "o_uq", "ch3.ip"),
        ("o_ah", "o_ai", "o_ab"), ("o_ui", "o_ub", "o_uh"),
    ]
    items = []
    for layout in layouts:
        for names in groups:
            opsets = itertools.product(*[ops_for(n) for n in names])
            for ops in opsets:
                if ctx.quick and sum(o != "read" for o in ops) > 2:
                    continue
                items.append((layout, names, ops))
            for a, b in ((0, 1), (1, 2)):
                pair = (names[a], names[b])
                for ops in itertools.product(*[ops_for(n) for n in pair]):
                    items.append((layout, pair, ops))
    return items


def work(item, res):
    layout, names, ops, seed, quick, kevery = item
    doms = [values_for(VARS[n][2], seed) for n in names]
    if quick:
        doms = [d[:5] for d in doms]
    # constants: bits both ways; integers extreme, zero, sign/top bit, seeded
    const_sets = [[1, 0, 0x10, 2] if isinstance(VARS[n][2], int) else
                  [d[2], d[0], d[3], d[-1]] for n, d in zip(names, doms)]
    nconst = 1 if "writec" not in ops else (2 if quick else 4)
    for ci in range(nconst):
        consts = tuple(cs[ci] for cs in const_sets)
        try:
            case = Case(layout, names, ops, consts)
        except core.Internal:
            raise
        except Exception as e:
            res.count("rejected_by_generator")
            res.outcomes.add(("rejected", type(e).__name__, str(e)[:40]))
            continue
        res.count("programs")
        if len(names) == 1:
            vecs = [(v,) for v in doms[0]]
        else:
            # every variable takes each of its values at least once; the
            # others rotate
            n = max(len(d) for d in doms)
            vecs = [tuple(d[(i + 2 * k) % len(d)] for k, d in enumerate(doms))
                    for i in range(n)]
        if "writev" not in ops:
            vecs = vecs[:1]
        for kind in ("zero", "ones", "coded"):
            for values in vecs:
                judge(case, kind, values, res)


def run(ctx):
    layouts = list(LAYOUTS)[:3] if ctx.quick else list(LAYOUTS)
    items = single_items(ctx, layouts) + multi_items(ctx, layouts)
    # every single-variable case also with a history (see Case)
    items += single_items(ctx, [l + "|revB" for l in layouts[:1 if ctx.quick
                                                            else 3]])
    if ctx.quick:
        # the first layout carries everything; the others a seed-rotated third
        items = [it for n, it in enumerate(items)
                 if it[0] == layouts[0] or (n + ctx.seed) % 3 == 0]
    items = [it + (ctx.seed, ctx.quick, 11) for it in items]
    res = core.pmap(ctx, work, items, chunk=4)
    res.cov["states"] = len(res.nontrivial)
    res.cov["transitions"] = res.cov.get("evaluations", 0)
    res.cov["traces_validated_against_impl"] = \
        2 * res.cov.get("evaluations", 0)
    res.cov["alphabet"] = dict(variables=len(VARS), layouts=layouts,
                               configurations=len(items))
    res.sample(dict(layout=layouts[0], vars=["o_uH"], ops=["writev"],
                    content="coded", values=[0xa5a5]))
    res.assumptions += [
        "'its own bytes' = start of the terminal's region in the frame (taken "
        "from the group's allocation, cross-checked against the independently "
        "parsed frame for directly addressed terminals) + the byte offset of "
        "the PDO entry / PacketDesc (+ the Struct channel's offset), little "
        "endian; a bit variable is bit n of that byte",
        "values are restricted to the variable's format range (Python's "
        "struct refuses others); formats are the integer formats B H I Q "
        "b h i q; the command byte and working counter of write datagrams, "
        "which the group program's activation owns, are not compared",
        "a value read from a bit is compared as 0/1; a bit written with any "
        "non-zero value (1, 2, 0x10, 0x80, 0x100) is set, with 0 cleared",
    ]
    return res


def replay(ctx, rep):
    c = rep["case"]
    res = core.Result()
    case = Case(c["layout"], tuple(c["vars"]), tuple(c["ops"]),
                tuple(c["consts"]))
    judge(case, c["content"], tuple(c["values"]), res)
    print(bpfvm.disasm(case.group.insns))
    return res.violations
