"""C26 - the fast Motor device commands exactly its limited control law.

The real `Motor.program` is generated inside a real `FastSyncGroup` over
hand-faked terminals (EL7041-style: 16-bit 'h' velocity output, enable bit,
switch bits, 'i' step counter; optionally a second EL5042-style terminal with a
'q' position).  Only the group program runs (in the interpreter, a subset also
in the kernel), once per input vector; inputs are planted as bytes (array map
for DeviceVars, frame for TerminalVars), the velocity output is read back from
the frame and compared with the reference law written from the statement.
"""
import struct

from mc import bpfvm, core, fastsim, kern
from ebpfcat.devices import Motor
from ebpfcat.ebpfcat import EBPFTerminal, ProcessDesc
from ebpfcat.ethercat import SyncManager
from ebpfcat.terminals import EL7041

PROP = "C26"
LEVEL = "model_checking"
RULE = ("full product of boundary alphabets for velocity limit x previous "
        "velocity x acceleration limit x gain x switches x enable, and for "
        "each the distances target-position that put the desired velocity "
        "on / just below / just above every threshold of the reference law "
        "(acceleration window, velocity limit, zero, 16/32/64-bit edges), each "
        "realised by several (target, position) pairs; every vector runs the "
        "real generated Motor bytecode; non-trivial = inside the statement's "
        "preconditions")

KF_WRAP = "C26-int16-wrap-before-velocity-clamp"
I64 = (-(1 << 63), (1 << 63) - 1)
U32 = (1 << 32) - 1


def sx(v, bits):
    v &= (1 << bits) - 1
    return v - (1 << bits) if v >> (bits - 1) else v


# ------------------------------------------------------------ reference law
def law(G, T, P, A, V, W, lo, hi, wrap16=False):
    """the statement, literally.  wrap16 = the one documented deviation: the
    acceleration-limited value passes through the 16-bit output before the
    velocity limit is applied"""
    desired = G * (T - P)
    v = min(max(desired, W - A), W + A)
    if wrap16:
        v = sx(v, 16)
    v = min(max(v, -V), V)
    if lo and v < 0:
        v = 0
    if hi and v > 0:
        v = 0
    return v


def consequences(out, A, V, W, lo, hi):
    """the three consequences, judged on an output value"""
    bad = []
    if abs(out) > V:
        bad.append("command exceeds the velocity limit")
    if (lo and out < 0) or (hi and out > 0):
        bad.append("command drives into an active limit switch")
    if abs(out - W) > A and out != 0:
        bad.append("command changes by more than the acceleration limit "
                   "without stopping")
    return bad


# ------------------------------------------------------------ the rig
class _Enc(EBPFTerminal):
    value = ProcessDesc(0x6000, 0x11, "q")


class Rig:
    """one terminal configuration with the real Motor program"""
    CONFIGS = {
        # name: (encoder format, second terminal?, use_fmmu)
        "el7041-i-fmmu": ("i", False, True),
        "el7041+enc-q-direct": ("q", True, False),
        "el7041-i-direct": ("i", False, False),
        "el7041+enc-q-fmmu": ("q", True, True),
    }

    def __init__(self, name, kernel):
        self.name = name
        self.encfmt, second, fmmu = self.CONFIGS[name]
        self.kernel = kernel
        ec = fastsim.new_ec()
        pdos = {
            (0x7010, 1): (SyncManager.OUT, 0, 0),       # enable
            (0x7010, 2): (SyncManager.OUT, 0, 1),       # reset
            (0x7010, 3): (SyncManager.OUT, 0, 2),       # reduced current
            (0x7010, 0x21): (SyncManager.OUT, 2, "H"),  # velocity ('h' by
                                                        # the class's override)
            (0x6010, 1): (SyncManager.IN, 0, 0),
            (0x6010, 2): (SyncManager.IN, 0, 1),
            (0x6010, 4): (SyncManager.IN, 0, 3),
            (0x6010, 0xc): (SyncManager.IN, 1, 3),      # high switch
            (0x6010, 0xd): (SyncManager.IN, 1, 4),      # low switch
            (0x6000, 0x11): (SyncManager.IN, 2, "I"),   # step counter ('i')
        }
        t = fastsim.fake_terminal(ec, EL7041, 3, 6, 4, fmmu, pdos)
        m = self.motor = Motor()
        m.velocity = t.velocity
        m.low_switch = t.low_switch
        m.high_switch = t.high_switch
        m.enable = t.enable
        if second:
            t2 = fastsim.fake_terminal(
                ec, _Enc, 7, 10, 0, fmmu,
                {(0x6000, 0x11): (SyncManager.IN, 2, "Q")},
                in_off=0x1200)
            m.encoder = t2.value
        else:
            m.encoder = t.stepcounter
        if t.velocity.size != "h":
            raise core.Internal("the velocity output is not the 16-bit 'h' "
                                "the statement is about")
        # the position is read in whatever format the encoder variable
        # declares (i / q on the bundled terminals)
        self.encfmt = m.__dict__["encoder"].size
        g = self.group = fastsim.FastGroup([m], ec, kernel, index=9)
        pv = m.__dict__
        self.vel_pos = pv["velocity"].fmt_addr(m)[1]
        self.enc_pos = pv["encoder"].fmt_addr(m)[1]
        (lbit, _), self.low_pos = pv["low_switch"].fmt_addr(m)
        (hbit, _), self.high_pos = pv["high_switch"].fmt_addr(m)
        (ebit, _), self.en_pos = pv["enable"].fmt_addr(m)
        self.lbit, self.hbit, self.ebit = lbit, hbit, ebit
        self.template = bytearray(fastsim.ETH_HEADER + g.sterile)
        self.fd = None
        self.rgroup = None
        # first instruction of the device code = first access after activate;
        # everything from the first load of set_enable on is Motor.program
        self.motor_start = None
        off = m.__dict__["set_enable"]
        for n, ins in enumerate(g.insns):
            if ins and ins[0] == 0x61 and ins[2] == 7 and ins[3] == off:
                self.motor_start = n
                break
        if self.motor_start is None:
            raise core.Internal("cannot locate Motor.program in the bytecode")

    def enc_range(self):
        bits = 8 * struct.calcsize("<" + self.encfmt)
        if self.encfmt.islower():
            return -(1 << (bits - 1)), (1 << (bits - 1)) - 1
        return 0, (1 << bits) - 1

    def plant(self, group, motor, vec):
        G, T, P, A, V, W, lo, hi, en = vec
        area = group.area
        area[:len(self.group.area)] = bytes(len(self.group.area))
        group.set_wkc_errors(1)
        for name, val in (("proportional", G), ("target", T),
                          ("max_acceleration", A), ("max_velocity", V),
                          ("set_enable", en)):
            struct.pack_into("<I", area, motor.__dict__[name], val)
        f = bytearray(self.template)
        struct.pack_into("<h", f, self.vel_pos, W)
        struct.pack_into("<" + self.encfmt, f, self.enc_pos, P)
        if lo:
            f[self.low_pos] |= 1 << self.lbit
        if hi:
            f[self.high_pos] |= 1 << self.hbit
        return f

    def run(self, vec, trace=False):
        """-> (out velocity, frame before, frame after, path)"""
        f0 = self.plant(self.group, self.motor, vec)
        f = bytearray(f0)
        vm = bpfvm.VM(self.kernel, self.group.insns, f)
        if trace:
            vm.trace_pcs = []
        vm.run()
        if vm.retval != bpfvm.XDP_TX:
            raise bpfvm.Trap(f"group program returned {vm.retval}")
        out = struct.unpack_from("<h", f, self.vel_pos)[0]
        path = None
        if trace:
            path = tuple(pc for pc in vm.trace_pcs if pc >= self.motor_start)
        return out, f0, f, path

    # -- real kernel
    def load_real(self):
        r = Rig(self.name, None)     # the same rig over real kernel maps
        r.group.load_real()
        self.rrig = r
        return r

    def run_real(self, vec):
        r = self.rrig
        f0 = r.plant(r.group, r.motor, vec)
        ret, out = kern.test_run(r.group.prog_fd, f0)
        return ret, bytes(out)


# ------------------------------------------------------------ alphabets
def dedupe(xs):
    out = []
    for x in xs:
        if x not in out:
            out.append(x)
    return out


def alphabets(ctx):
    import random
    rnd = random.Random(ctx.seed * 7919 + 26)
    if ctx.quick:
        Vs = [0, 1, 1000, 32767]
        As = [0, 1, 100, 2000, 32768, 65535, U32]
        Gs = [0, 1, 3, 1000, U32]
        sw = [(0, 0, 1), (1, 0, 1), (0, 1, 0), (1, 1, 1)]
    else:
        Vs = [0, 1, 100, 1000, 32766, 32767]
        As = [0, 1, 100, 1000, 2000, 32767, 32768, 40000, 65536,
              (1 << 31) - 1, U32]
        Gs = [0, 1, 2, 3, 1000, 65536, U32]
        sw = [(0, 0, 1), (1, 0, 1), (0, 1, 0), (1, 1, 1), (0, 0, 0)]
    Vs.append(rnd.randrange(3, 32767))
    As.append(rnd.randrange(3, 1 << 17))
    Gs.append(rnd.randrange(4, 1 << 16))
    return dedupe(Vs), dedupe(As), dedupe(Gs), sw


def prev_values(V, quick):
    c = [0, V, -V, 1, -1, V - 1, 1 - V] if not quick else \
        [0, V, -V, 1, 1 - V]
    return dedupe([w for w in c if abs(w) <= V])


def distances(G, A, V, W, quick):
    """target-position values that put G*(T-P) on every threshold of the
    law (and one step to either side)"""
    thr = [W + A, W - A, V, -V, 0, 32767, -32768, 32768, -32769,
           65535, 65536, -65536, (1 << 31) - 1, -(1 << 31), 1 << 32,
           I64[1], I64[0]]
    if quick:
        thr = [W + A, W - A, V, -V, 0, 32768, -32769, I64[1], I64[0]]
    ds = []
    for th in thr:
        if G == 0:
            ds += [0, 1, -1]
            continue
        q = th // G
        ds += [q - 1, q, q + 1] if not quick or th in (W + A, W - A) \
            else [q, q + 1]
    ds += [1, -1, (1 << 31), -(1 << 31) + 1]
    return dedupe(ds)


def decompositions(D, lo, hi, quick):
    """(target, position) pairs with target - position == D, target a u32,
    position within the encoder's range"""
    cands = [0, 1, -1, 12345, lo, hi, (1 << 31) - 1, -(1 << 31)]
    out = []
    for P in cands:
        T = P + D
        if 0 <= T <= U32 and lo <= P <= hi:
            out.append((T, P))
    for T in (0, U32, 1 << 31):
        P = T - D
        if lo <= P <= hi:
            out.append((T, P))
    out = dedupe(out)
    return out[:2] if quick else out[:3]


def in_precondition(G, T, P, A, V, W):
    if not 0 <= V <= 32767 or abs(W) > V:
        return False
    return I64[0] <= G * (T - P) <= I64[1]


# ------------------------------------------------------------ work
def judge(rig, vec, res, kernel_check=False, paths=None):
    G, T, P, A, V, W, lo, hi, en = vec
    res.count("evaluations")
    case = dict(config=rig.name, gain=G, target=T, position=P, acc=A,
                vmax=V, prev=W, low=lo, high=hi, enable=en)
    try:
        out, f0, f1, path = rig.run(vec, trace=paths is not None)
    except bpfvm.Trap as t:
        res.violation(case, "program runs", str(t),
                      sig=core.digest(["trap", str(t)[:40]]),
                      note="Motor program traps")
        return
    if paths is not None:
        paths.add(path)
    if kernel_check:
        ret, kout = rig.run_real(vec)
        res.count("kernel_validated")
        if ret != bpfvm.XDP_TX or kout != bytes(f1):
            raise core.Internal(f"VM/kernel disagreement on {case}: "
                                f"vm={bytes(f1).hex()} kernel={kout.hex()}")
    if not in_precondition(G, T, P, A, V, W):
        res.count("outside_precondition")
        res.outcomes.add("outside precondition")
        return
    exp = law(G, T, P, A, V, W, lo, hi)
    res.nontrivial.add(core.digest([rig.name, vec], 10))
    desired = G * (T - P)
    shape = ("acc+" if desired > W + A else "acc-" if desired < W - A
             else "free",
             "vel" if abs(min(max(desired, W - A), W + A)) > V else "in",
             "stop" if exp == 0 and (lo or hi) else "go")
    wrong = []
    if out != exp:
        wrong.append(("law", f"velocity {exp}", f"velocity {out}"))
    for c in consequences(out, A, V, W, lo, hi):
        wrong.append(("consequence", "holds: " + c.replace("command ", "no "),
                      f"{c} (velocity {out}, previous {W})"))
    changed = [i for i in range(len(f0)) if f0[i] != f1[i]
               and i not in (rig.vel_pos, rig.vel_pos + 1, rig.en_pos)]
    cmd_wkc = {c + fastsim.ETH for c, _, _, _ in rig.group.writers()} | \
        {w + fastsim.ETH + d for _, w, _, _ in rig.group.writers()
         for d in (0, 1)}
    if [i for i in changed if i not in cmd_wkc]:
        res.count("other_frame_bytes_changed")
    if not wrong:
        res.outcomes.add(("ok",) + shape)
        return
    kf = None
    if out == law(G, T, P, A, V, W, lo, hi, wrap16=True):
        v1 = min(max(desired, W - A), W + A)
        if not -32768 <= v1 <= 32767:
            kf = KF_WRAP
    res.outcomes.add(("wrong", str(kf)) + shape)
    seen = res.__dict__.setdefault("_c26_sigs", {})
    for kind, e, o in wrong:
        sig = core.digest([kind, e.split(" (")[0][:60]
                           if kind != "law" else "law", str(kf)])
        res.count("wrong_results")
        # keep a few reproducers per signature and worker chunk, count all
        seen[sig] = seen.get(sig, 0) + 1
        if seen[sig] > 3:
            res.count("violations_not_stored_same_signature")
            continue
        res.violation(dict(case, desired=desired), e, o, kf=kf, sig=sig,
                      note=("wrong velocity" if kind == "law" else
                            "consequence violated"))


_RIGS = {}


def get_rig(name):
    r = _RIGS.get(name)
    if r is None:
        fastsim.reset_globals()
        r = _RIGS[name] = Rig(name, bpfvm.Kernel())
        r.rrig = None
        if kern.available():
            try:
                r.load_real()
            except kern.LoadError as e:
                r.rrig = None
                r.load_error = e.log[-300:]
    return r


def work(item, res):
    name, V, A, G, sws, quick, kevery = item
    rig = get_rig(name)
    lo_, hi_ = rig.enc_range()
    paths = set()
    n = 0
    for W in prev_values(V, quick):
        for D in distances(G, A, V, W, quick):
            for T, P in decompositions(D, lo_, hi_, quick):
                for lo, hi, en in sws:
                    n += 1
                    judge(rig, (G, T, P, A, V, W, lo, hi, en), res,
                          kernel_check=rig.rrig is not None
                          and n % kevery == 0, paths=paths)
    # outside the precondition (counted, not judged): limit beyond the
    # output's range, previous velocity beyond the limit
    for V2, W2 in ((32768, 0), (65535, 7), (V, min(V + 1, 32767))):
        judge(rig, (G, 5, 2, A, V2, W2, 0, 0, 1), res, paths=paths)
    res.cov.setdefault("paths", set()).update(
        (name, core.digest(p, 10)) for p in paths)
    res.cov.setdefault("branch_outcomes", set()).update(
        (name, a, b) for p in paths for a, b in zip(p, p[1:])
        if b != a + 1 and not (rig.group.insns[a]
                               and rig.group.insns[a][0] == 0x18))
    res.cov.setdefault("branch_fallthrough", set()).update(
        (name, a) for p in paths for a, b in zip(p, p[1:]) if b == a + 1)


def cond_branches(rig):
    """pcs of the conditional jumps inside Motor.program"""
    out = []
    for n, ins in enumerate(rig.group.insns):
        if ins is None or n < rig.motor_start:
            continue
        op = ins[0]
        if (op & 7) in (5, 6) and (op & 0xf0) not in (0x00, 0x80, 0x90):
            out.append(n)
    return out


def run(ctx):
    Vs, As, Gs, sw = alphabets(ctx)
    names = list(Rig.CONFIGS)[:2] if ctx.quick else list(Rig.CONFIGS)
    kevery = 53
    items = [(name, V, A, G, sw, ctx.quick, kevery)
             for name in names[:2] for V in Vs for A in As for G in Gs]
    if not ctx.quick:
        # the two remaining addressing variants get the quick alphabets
        qctx = core.Ctx(ctx.prop, "quick", ctx.seed, ctx.workers)
        qV, qA, qG, qsw = alphabets(qctx)
        items += [(name, V, A, G, qsw, True, kevery)
                  for name in names[2:] for V in qV for A in qA for G in qG]
    res = core.pmap(ctx, work, items, chunk=2)
    res.cov["states"] = len(res.nontrivial)
    res.cov["transitions"] = res.cov.get("evaluations", 0)
    res.cov["traces_validated_against_impl"] = res.cov.get("evaluations", 0)
    res.cov["kernel_available"] = kern.available()
    paths = res.cov.pop("paths", set())
    taken = res.cov.pop("branch_outcomes", set())
    fall = res.cov.pop("branch_fallthrough", set())
    per = {}
    for name in names:
        rig = get_rig(name)
        br = cond_branches(rig)
        both = [b for b in br
                if any(t[0] == name and t[1] == b for t in taken)
                and (name, b) in fall]
        per[name] = dict(paths_covered=len([p for p in paths
                                            if p[0] == name]),
                         cond_branches=len(br), branches_both_ways=len(both))
        if len(both) != len(br):
            missing = [b for b in br if b not in both]
            raise core.Internal(
                f"alphabet too weak: conditional branches {missing} of "
                f"Motor.program ({name}) were not taken both ways")
    res.cov["paths_covered"] = len(paths)
    res.cov["path_coverage"] = per
    res.cov["alphabet"] = dict(vmax=len(Vs), acc=len(As), gain=len(Gs),
                               switches_enable=len(sw), configs=names)
    res.sample(dict(config=names[0], gain=1, target=40000, position=0,
                    acc=40000, vmax=1000, prev=0, low=0, high=0))
    res.assumptions += [
        "inputs are bit-vectors read in the formats the code declares: "
        "target, gain, acceleration limit, velocity limit are DeviceVar 'I' "
        "(unsigned 32 bit), the position is the encoder variable's format "
        "('i' step counter / 'q' position), the previous velocity is the "
        "16-bit 'h' output as found in the frame; desired = gain * (target - "
        "position) over the integers, required to fit a signed 64-bit value",
        "preconditions: 0 <= velocity limit <= 32767, |previous velocity| <= "
        "velocity limit; cases outside are run and counted only",
        "'except to stop' = the commanded velocity is 0",
        "the enable bit and everything else in the frame is not judged "
        "(the statement is about the velocity command)",
    ]
    return res


def replay(ctx, rep):
    c = rep["case"]
    rig = get_rig(c["config"])
    res = core.Result()
    vec = (c["gain"], c["target"], c["position"], c["acc"], c["vmax"],
           c["prev"], c["low"], c["high"], c["enable"])
    judge(rig, vec, res, kernel_check=rig.rrig is not None)
    out = rig.run(vec)[0]
    print(f"  config={c['config']} desired={c['gain'] * (c['target'] - c['position'])} "
          f"law={law(*vec[:8])} program={out}")
    return res.violations
