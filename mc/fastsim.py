"""Kernel-free (and, optionally, real-kernel) construction of the fast path.

Builds the real `EtherXDP` dispatcher and real `FastSyncGroup` programs over
hand-faked terminals (as ethercat_test.py does), with the `ArrayMap`s living
either in a `bpfvm.Kernel` (seams: `ebpfcat.arraymap.create_map/mmap`) or in
the real kernel.  Shared by the C21/C22, C26 and C19 harnesses.

Nothing here judges anything; it is plumbing around the code under test.
"""
import os
import struct
from contextlib import contextmanager

import ebpfcat.arraymap as _am
import ebpfcat.ebpf as _ebpf
from ebpfcat.ebpf import AssembleError
from ebpfcat.ebpfcat import (
    EBPFTerminal, EtherXDP, FastEtherCat, FastSyncGroup, SimpleEtherCat,
    SyncGroup)
from ebpfcat.ethercat import Packet, SyncManager

from . import bpfvm, kern

ETH = Packet.ETHERNET_HEADER           # 14
ETH_HEADER = bytes.fromhex("ffffffffffff" "020000000001" "88a4")
MAX_PROGS = FastEtherCat.MAX_PROGS

_REAL_CREATE_MAP = _am.create_map
_REAL_MMAP = _am.mmap


# ------------------------------------------------------------------ the seams
class SimMaps:
    """`with SimMaps(kernel):` array maps created by ebpfcat land in `kernel`

    create_map -> a fresh integer fd registered in kernel.maps,
    mmap       -> the BpfMap's own bytearray (Python side and VM share it)."""
    _next_fd = [1000]

    def __init__(self, kernel):
        self.kernel = kernel

    def create_map(self, map_type, key_size, value_size, max_entries,
                   attributes=None):
        mtype = getattr(map_type, "value", map_type)
        if mtype != bpfvm.BpfMap.ARRAY:
            raise AssertionError(f"unexpected map type {map_type}")
        fd = SimMaps._next_fd[0]
        SimMaps._next_fd[0] += 1
        self.kernel.maps[fd] = bpfvm.BpfMap(bpfvm.BpfMap.ARRAY, key_size,
                                            value_size, max_entries)
        return fd

    def mmap(self, fd, size):
        m = self.kernel.maps[fd]
        if size > len(m.area):
            raise AssertionError("mmap larger than the map")
        return m.area

    def __enter__(self):
        self._saved = (_am.create_map, _am.mmap)
        _am.create_map = self.create_map
        _am.mmap = self.mmap
        return self

    def __exit__(self, *exc):
        _am.create_map, _am.mmap = self._saved


class RealMaps:
    """the unmodified module-level names (real kernel maps)"""
    def __enter__(self):
        self._saved = (_am.create_map, _am.mmap)
        _am.create_map, _am.mmap = _REAL_CREATE_MAP, _REAL_MMAP
        return self

    def __exit__(self, *exc):
        _am.create_map, _am.mmap = self._saved


class SimBpf:
    """`with SimBpf(kernel):` everything the life cycle of a fast sync group
    asks of the kernel lands in `kernel` (a bpfvm.Kernel):

      ebpfcat.arraymap.create_map / mmap          (SimMaps: the array maps)
      ebpfcat.ebpfcat.create_map                  (the PROG_ARRAY of a master)
      ebpfcat.ebpfcat.lookup_elem / update_elem / delete_elem
                                                  (register_sync_group)
      ebpfcat.bpf.prog_load                       (EBPF.load)
      ebpfcat.ebpf.os.close                       (EBPF.close)

    with the error behaviour of the wrappers in ebpfcat/bpf.py (a missing
    element is KeyError, an index beyond the table IndexError, a closed or
    foreign descriptor OSError(EBADF)).  A program array keeps the *program*
    it was given, not the descriptor number: closing the descriptor (as
    register_sync_group does right after the update) changes nothing, and
    descriptor numbers are never handed out twice.  `loaded[pid]` remembers
    for every program the array maps it refers to, so that a harness can
    tell whose program sits in a slot; `log` lists the table edits."""

    def __init__(self, kernel):
        self.kernel = kernel
        self.maps = SimMaps(kernel)
        self.loaded = {}      # pid -> dict(maps=frozenset(map fds), open=bool)
        self.log = []

    @staticmethod
    def _newfd():
        fd = SimMaps._next_fd[0]
        SimMaps._next_fd[0] += 1
        return fd

    # -- ebpfcat.ebpfcat.create_map
    def create_map(self, map_type, key_size, value_size, max_entries,
                   attributes=None):
        mtype = getattr(map_type, "value", map_type)
        if mtype != bpfvm.BpfMap.PROG_ARRAY:
            return self.maps.create_map(map_type, key_size, value_size,
                                        max_entries, attributes)
        if key_size != 4 or value_size != 4:
            raise OSError(22, "prog array key/value size")
        fd = self._newfd()
        self.kernel.maps[fd] = bpfvm.BpfMap(bpfvm.BpfMap.PROG_ARRAY, 4, 4,
                                            max_entries)
        return fd

    def _table(self, fd):
        m = self.kernel.maps.get(fd)
        if m is None:
            raise OSError(9, "Bad file descriptor")
        if m.type != bpfvm.BpfMap.PROG_ARRAY:
            raise AssertionError("map call on something that is not a "
                                 "program table")
        return m

    @staticmethod
    def _index(m, key):
        key = bytes(key)
        if len(key) < m.key_size:
            raise AssertionError("short key buffer")
        return struct.unpack_from("<I", key)[0]

    def lookup_elem(self, fd, key, fmt):
        m = self._table(fd)
        i = self._index(m, key)
        if i >= m.max_entries or i not in m.progs:
            raise KeyError
        value = struct.pack("<I", 1000 + (m.progs[i] & 0xffffff))
        if isinstance(fmt, int):
            return bytearray(value[:fmt].ljust(fmt, b"\0"))
        return struct.unpack(fmt, value[:struct.calcsize(fmt)])[0]

    def update_elem(self, fd, key, value, flags=None):
        m = self._table(fd)
        i = self._index(m, key)
        if getattr(flags, "value", flags) not in (None, 0):
            raise OSError(22, "prog array update flags")
        if i >= m.max_entries:
            raise IndexError("map is full")
        pid = struct.unpack_from("<I", bytes(value))[0]
        ent = self.loaded.get(pid)
        if ent is None or not ent["open"]:
            raise OSError(9, "Bad file descriptor")
        m.progs[i] = pid
        self.log.append(("update", fd, i, pid))
        return 0

    def delete_elem(self, fd, key):
        m = self._table(fd)
        i = self._index(m, key)
        if i >= m.max_entries or i not in m.progs:
            raise KeyError
        self.log.append(("delete", fd, i, m.progs[i]))
        del m.progs[i]
        return 0

    # -- ebpfcat.bpf.prog_load
    def prog_load(self, prog_type, insns, license, log_level=0,
                  log_size=4096, kern_version=0, flags=0, name="", ifindex=0,
                  attach_type=0):
        code = bytes(insns)
        try:
            decoded = bpfvm.decode(code)
        except bpfvm.Trap as e:
            raise OSError(22, str(e))
        refs = set()
        for ins in decoded:
            if ins is not None and ins[0] == 0x18 and ins[2] == 1:
                mfd = ins[4] & 0xffffffff
                if mfd not in self.kernel.maps:
                    raise OSError(9, "program refers to a bad map fd")
                refs.add(mfd)
        pid = self._newfd()
        self.kernel.progs[pid] = decoded
        self.loaded[pid] = dict(maps=frozenset(refs), open=True, code=code)
        return pid, ("" if log_level else None)

    # -- ebpfcat.ebpf.os
    class _Os:
        def __init__(self, outer):
            self._outer = outer

        def close(self, fd):
            ent = self._outer.loaded.get(fd)
            if ent is None:
                return os.close(fd)
            if not ent["open"]:
                raise OSError(9, "Bad file descriptor")
            ent["open"] = False

        def __getattr__(self, name):
            return getattr(os, name)

    def map_fd_of(self, area):
        """descriptor of the array map whose storage `area` is"""
        for fd, m in self.kernel.maps.items():
            if m.type == bpfvm.BpfMap.ARRAY and m.area is area:
                return fd
        return None

    def __enter__(self):
        import ebpfcat.bpf as _bpf
        import ebpfcat.ebpfcat as _ec
        self.maps.__enter__()
        self._saved = [(_ec, n, getattr(_ec, n)) for n in
                       ("create_map", "lookup_elem", "update_elem",
                        "delete_elem")]
        self._saved += [(_bpf, "prog_load", _bpf.prog_load),
                        (_ebpf, "os", _ebpf.os)]
        _ec.create_map = self.create_map
        _ec.lookup_elem = self.lookup_elem
        _ec.update_elem = self.update_elem
        _ec.delete_elem = self.delete_elem
        _bpf.prog_load = self.prog_load
        _ebpf.os = SimBpf._Os(self)
        return self

    def __exit__(self, *exc):
        for mod, name, val in reversed(self._saved):
            setattr(mod, name, val)
        self.maps.__exit__(*exc)


@contextmanager
def reown_seam():
    """Defect-model seam for the finding 'dispatcher cannot be generated'
    (C22-dispatcher-not-generated, repaired in /repo by e1fe9f7; dormant
    unless that defect returns - `build_dispatcher` only falls back to it
    after the unmodified generator has failed, and says so).

    `EBPF.save_registers` restores the registers it saved around a helper call
    but leaves them un-owned (`call()` strips r1..r5, the final
    `owners -= registers` never gives them back).  After `ArrayMap.init` and
    after `prandom(...)`/`ktime(...)` the context register r1 is therefore
    "without value" for the generator although the emitted MOV restored it.
    Under this seam the registers that were owned before and were restored are
    owned again afterwards; nothing else changes."""
    o_init = _am.ArrayMap.init
    o_pr = _ebpf.prandom.calculate
    o_kt = _ebpf.ktime.calculate

    def init(self, ebpf, fd):
        saved = ebpf.owners & set(range(1, 6))
        o_init(self, ebpf, fd)
        if self.size:
            ebpf.owners |= saved - {self.base_register}

    def wrap(orig):
        @contextmanager
        def calculate(self, dst, long, force=False):
            before = self.ebpf.owners & set(range(1, 6))
            with orig(self, dst, long, force) as (d, lng):
                self.ebpf.owners |= before - {d}
                yield d, lng
        return calculate

    _am.ArrayMap.init = init
    _ebpf.prandom.calculate = wrap(o_pr)
    _ebpf.ktime.calculate = wrap(o_kt)
    try:
        yield
    finally:
        _am.ArrayMap.init = o_init
        _ebpf.prandom.calculate = o_pr
        _ebpf.ktime.calculate = o_kt


# ------------------------------------------------------------------ dispatcher
class Dispatcher:
    """the real EtherXDP program, assembled; maps in `kernel` or the real one"""

    def __init__(self, kernel=None, seam=False, programs_fd=None):
        """programs_fd: an existing program table in `kernel` (e.g. the one
        a master created through the SimBpf seam) instead of a fresh one"""
        self.kernel = kernel
        self.seam = seam
        self.real = kernel is None
        self._given_programs = programs_fd
        maps = SimMaps(kernel) if kernel is not None else RealMaps()
        with maps:
            if seam:
                with reown_seam():
                    self._build()
            else:
                self._build()

    def _build(self):
        e = self.ebpf = EtherXDP()
        if self._given_programs is not None:
            self.programs_fd = self._given_programs
        elif self.real:
            self.programs_fd = kern.map_create(3, 4, 4, MAX_PROGS)
        else:
            self.programs_fd = SimMaps._next_fd[0]
            SimMaps._next_fd[0] += 1
            self.kernel.maps[self.programs_fd] = bpfvm.BpfMap(
                bpfvm.BpfMap.PROG_ARRAY, 4, 4, MAX_PROGS)
        e.programs = self.programs_fd
        self.code = e.assemble()
        self.insns = bpfvm.decode(self.code)
        self.area = e.variables            # bytearray (sim) or mmap (real)
        self.counters_off = e.__dict__["counters"]
        self.dropcounter_off = e.__dict__["dropcounter"]
        self.prog_fd = None

    # -- the dispatcher's per-group loop counter (u32)
    def set_counter(self, group, value):
        struct.pack_into("<I", self.area, self.counters_off + 4 * group,
                         value & 0xffffffff)

    def get_counter(self, group):
        return struct.unpack_from("<I", self.area,
                                  self.counters_off + 4 * group)[0]

    def variables_bytes(self):
        return bytes(self.area[:])

    def register(self, index, group):
        """put the group's program into the program table"""
        if self.real:
            kern.prog_array_set(self.programs_fd, index, group.prog_fd)
        else:
            pid = ("group", id(group))
            self.kernel.progs[pid] = group.insns
            self.kernel.maps[self.programs_fd].progs[index] = pid

    def unregister(self, index):
        if self.real:
            try:
                kern.map_delete(self.programs_fd, struct.pack("<I", index))
            except OSError:
                pass
        else:
            self.kernel.maps[self.programs_fd].progs.pop(index, None)

    def load_real(self):
        self.prog_fd = kern.prog_load(self.code)
        return self.prog_fd

    def close(self):
        if self.real:
            for fd in (self.prog_fd, self.programs_fd):
                if fd is not None:
                    try:
                        os.close(fd)
                    except OSError:
                        pass
            try:
                self.area.close()
            except Exception:
                pass


def build_dispatcher(kernel=None, programs_fd=None):
    """-> (Dispatcher, note).  note is None when the unmodified generator
    produced the program, else the generator's error message (the program
    was then built under `reown_seam`)."""
    try:
        return Dispatcher(kernel, seam=False, programs_fd=programs_fd), None
    except AssembleError as e:
        note = f"AssembleError: {e}"
    return Dispatcher(kernel, seam=True, programs_fd=programs_fd), note


# ------------------------------------------------------------------ terminals
def fake_terminal(ec, cls=EBPFTerminal, position=1, in_sz=0, out_sz=0,
                  use_fmmu=True, pdos=None, in_off=0x1100, out_off=0x1000,
                  name=None):
    """a terminal faked by hand, exactly like ethercat_test.SimpleTests"""
    t = cls(ec)
    t.position = position
    t.pdo_in_sz = in_sz
    t.pdo_out_sz = out_sz
    t.pdo_in_off = in_off
    t.pdo_out_off = out_off
    t.use_fmmu = use_fmmu
    t.pdos = dict(pdos or {})
    if name is not None:
        t.name = name
    return t


def new_ec(name="verif"):
    return SimpleEtherCat(name)


# ------------------------------------------------------------------ groups
class FastGroup:
    """a real FastSyncGroup over fake terminals, allocated and assembled"""

    def __init__(self, devices, ec=None, kernel=None, index=5, seam=False,
                 ethertype=0x88A4):
        self.kernel = kernel
        self.real = kernel is None
        self.index = index
        self.ethertype = ethertype
        self.prog_fd = None
        ec = ec or new_ec()
        ec.ethertype = ethertype
        maps = SimMaps(kernel) if kernel is not None else RealMaps()
        with maps:
            if seam:
                with reown_seam():
                    self._build(ec, devices)
            else:
                self._build(ec, devices)

    def _build(self, ec, devices):
        sg = self.sg = FastSyncGroup(ec, devices)
        sg.allocate()
        sg.packet_index = self.index
        self.code = sg.assemble()
        self.insns = bpfvm.decode(self.code)
        self.area = sg.properties
        self.packet = sg.packet
        self.size = sg.packet.size
        self.wkc_off = sg.__dict__["wkc_errors"]
        # what FastSyncGroup.run sends (and re-sends from update_devices)
        self.sterile = bytes(sg.packet.sterile(self.index, self.ethertype))
        self.assembled = bytes(sg.packet.assemble(self.index, self.ethertype))

    # frame positions are EtherCAT-payload relative; + ETH in the raw frame
    def writers(self):
        """see `writers_of`"""
        return writers_of(self.sg, self.assembled)

    def var_off(self, device, name):
        return device.__dict__[name]

    def set_var(self, device, name, fmt, value):
        struct.pack_into("<" + fmt, self.area, device.__dict__[name], value)

    def get_var(self, device, name, fmt):
        return struct.unpack_from("<" + fmt, self.area,
                                  device.__dict__[name])[0]

    def set_wkc_errors(self, v):
        struct.pack_into("<I", self.area, self.wkc_off, v & 0xffffffff)

    def get_wkc_errors(self):
        return struct.unpack_from("<I", self.area, self.wkc_off)[0]

    def load_real(self):
        self.prog_fd = kern.prog_load(self.code)
        return self.prog_fd

    def close(self):
        if self.real:
            if self.prog_fd is not None:
                try:
                    os.close(self.prog_fd)
                except OSError:
                    pass
            try:
                self.area.close()
            except Exception:
                pass


def writers_of(sg, assembled):
    """[(cmd position, wkc position, command value, expected wkc)] of the
    write datagrams of an allocated FastSyncGroup, found by parsing its
    assembled (non-sterile) frame independently - NOT from SterilePacket's
    own on_the_fly list, so that bookkeeping errors there (stale or foreign
    entries) are visible.  Positions are EtherCAT-payload relative."""
    from . import ecparse
    try:
        _, dgs = ecparse.parse(assembled)
    except ecparse.ParseError:
        # a group without any datagram: only the identification datagram
        return []
    out = []
    # the expected working counter is the number of terminals that
    # process the datagram, counted here from the terminals themselves
    # (not from SterilePacket.counters): one for a directly addressed
    # write, every output-mapped FMMU terminal for the logical write
    n_lwr = sum(1 for t, rw in sg.terminals.items()
                if rw and t.use_fmmu and t.pdo_out_sz)
    for d in dgs[1:]:
        if d.cmd in (2, 3, 5, 6, 8, 9, 11, 12):
            expected = {5: 1, 11: n_lwr}.get(
                d.cmd, sg.packet.counters[d.wkc_pos])
            out.append((d.hdr_pos, d.wkc_pos, d.cmd, expected))
    return out


def reset_globals():
    """library globals that cases mutate"""
    SyncGroup.packet_index = 1000


def run_vm(kernel, insns, frame, prandom=None):
    """run one XDP program instance on `frame` (bytearray, modified in
    place) -> (retval, vm).  Traps propagate as bpfvm.Trap."""
    if prandom is not None:
        kernel.prandom = [prandom]
        kernel.prandom_i = 0
    vm = bpfvm.VM(kernel, insns, frame)
    vm.run()
    return vm.retval, vm
