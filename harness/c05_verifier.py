"""C05 - every program the generator accepts loads into the kernel.

Bounded exhaustive, deterministic enumeration of programs written with the
real DSL; every program the generator assembles without an exception is handed
to the REAL verifier of this kernel (raw BPF_PROG_LOAD through mc/kern, XDP
program type, GPL) and must be accepted.  The verifier explores all paths of
each program itself.

Programs come from three sources
 1. the program enumerators of the finished harnesses, reused by import: C01
    (integer expression trees), C02 (fixed point), C03 (conditional blocks),
    C04 (variables of every kind, subprograms, Dict), C06 (in-place addition),
    C07 (packet variables), C08 (array-map declaration sets), C09 (hash-map
    variables, Dict programs) - their `work` functions run unchanged, only
    their per-program functions (`run_case`, `run_prog`, `run_guard_case`)
    are replaced by adapters that "build and load"; the adapters take the
    arguments they know by name and ignore parameters added later, the
    signatures are inspected when this module is imported (`SIG_PROBLEMS`)
    and a start-up self-test demands at least one program of every family;
 2. dedicated families written in a small JSON-able statement language that
    is interpreted onto the real DSL (`SpecProg`): hash-map variables in
    every position, Dict update/lookup, ktime/prandom, subprograms, a stack
    filled up to and beyond 512 bytes, packet-size guards, XDP classes with
    minimumPacketSize at its boundary values (0, 1, 13, 14, 15, 1500, 1514)
    that end with an exit of their own or rely on defaultExitCode;
 3. the library's own programs: the `EtherXDP` dispatcher and `FastSyncGroup`
    programs over hand-faked terminals with every bundled device.

Maps are real kernel maps (the program refers to them by descriptor); every
descriptor obtained while a program is built is recorded and closed again.

Oracle: BPF_PROG_LOAD accepts.  A program the generator refuses (any
exception while it is written or assembled) is counted, never a violation; a
program outside the statement's side conditions is loaded and counted, not
judged.  A rejected program is attributed to a documented defect only when
its shape has the defect's structural trigger, the verifier's complaint is
one documented for it AND the same program generated with exactly that
defect repaired (a wrapper around the one library function concerned) loads;
see the section "known findings".  If bpf() is unavailable nothing is judged
(coverage says kernel_available: false); the mini-verifier fallback of the
design is not implemented.
"""
import contextlib
import hashlib
import inspect
import itertools
import operator
import os
import re
import traceback
import zlib

from mc import bpfvm, core, kern
from mc.dsl import Raw

import ebpfcat
import ebpfcat.arraymap as AM
import ebpfcat.bpf as B
import ebpfcat.hashmap as HM
from ebpfcat.arraymap import ArrayMap
from ebpfcat.bpf import MapFlags, ProgType
from ebpfcat.ebpf import (
    EBPF, Expression, Instruction, LocalVar, Member, Memory, Structure,
    SubProgram, fmtsize, ktime, prandom)
from ebpfcat.hashmap import Dict, HashMap
from ebpfcat.xdp import XDP, PacketVar, XDPExitCode

PROP = "C05"
LEVEL = "model_checking"
RULE = ("programs = (a) the program enumerations of the C01 C02 C03 C04 C06 "
        "C07 C08 C09 harnesses as they are now (C01 incl. memory at computed "
        "addresses; C02/C07/C08/C09 incl. byte-order-prefixed formats; C03 "
        "incl. else-if chains, bodies that exit, the bit-field comparison "
        "family; C04 incl. statements inside Dict lookup blocks and "
        "histories of the program class; C06 one- and two-statement "
        "programs incl. zero amounts; C07 incl. programs with two and three "
        "packet-size guards; C08 incl. programs with two maps) - a "
        "deterministic, seed-rotated 1/k slice of the large ones, k per "
        "sub-family in the evidence -, (b) dedicated families in a "
        "statement language interpreted onto the real DSL: hash-map variable "
        "as source / destination / in conditions x format x owned-register "
        "context x follow-up statement; Dict update/lookup x key/value "
        "structures x Else x modify-in-lookup x register context; "
        "ktime/prandom expressions x destinations x contexts; subprogram "
        "classes x instances x bodies; locals filling the stack to 480..520 "
        "bytes; packet-size guards x accesses; minimumPacketSize in {0, 1, "
        "13, 14, 15, 1500, 1514} x every XDPExitCode as defaultExitCode x "
        "program ending (relies on defaultExitCode / own exit / own exit "
        "with another code / exit in a branch) x bodies without packet "
        "access and with array and packet-variable accesses at the first "
        "and last bytes the guard promises, (c) EtherXDP and FastSyncGroup "
        "x bundled devices x terminal variable kinds x FMMU/direct layout x "
        "1-3 devices; each accepted program is loaded once into the real "
        "kernel; a case is non-trivial when the generator accepted the "
        "program and the statement's side conditions hold, so that the "
        "verifier's verdict is judged; distinct = distinct program bytes")

SRCDIR = os.path.dirname(os.path.abspath(ebpfcat.__file__))

KF_XADD = "C05-xadd-into-packet"
KF_R0 = "C05-hashvar-read-restores-r0-over-pointer"
KF_DICT = "C05-dict-call-saves-into-r0"
KF_REOWN = "C05-restored-registers-unowned"
KF_WIDE = "C05-hashvar-set-reads-8-bytes-of-narrow-source"
KF_TEMP = "C05-temporary-below-full-stack"
KF_EXIT = "C05-else-after-exit-unreachable-jump"
KF_ELIF = "C05-bittest-else-in-elif-chain"
KF_SAMEKIND = "C05-two-maps-of-one-kind-out-of-bounds"
KF_BTEXIT = "C05-bittest-else-exit-unreachable-jump"


def _try_import(name):
    try:
        return __import__("harness." + name, fromlist=[name]), None
    except Exception as ex:         # another helper may be mid-edit
        return None, f"{type(ex).__name__}: {ex}"


c01, _e01 = _try_import("c01_intexpr")
c02, _e02 = _try_import("c02_fixed")
c03, _e03 = _try_import("c03_cond")
c04, _e04 = _try_import("c04_vars")
c06, _e06 = _try_import("c06_xadd")
c07, _e07 = _try_import("c07_packet")
c08, _e08 = _try_import("c08_arraymap")
c09, _e09 = _try_import("c09_hashmap")
UNAVAILABLE = {n: e for n, e in (("c01", _e01), ("c02", _e02), ("c03", _e03),
                                 ("c04", _e04), ("c06", _e06), ("c07", _e07),
                                 ("c08", _e08), ("c09", _e09)) if e}


def tup(x):
    return tuple(tup(y) for y in x) if isinstance(x, (list, tuple)) else x


# ---- the coupling to the other harnesses: which of their functions this
# module replaces or calls, and with which parameters.  Inspected once, here;
# run() and replay() refuse to work (core.Internal naming the function) when
# a signature is no longer understood.
SIG_PROBLEMS = []
_MODS = {"c01": c01, "c02": c02, "c03": c03, "c04": c04, "c06": c06,
         "c07": c07, "c08": c08, "c09": c09}


def _lookup(short, qual):
    mod = _MODS[short]
    if mod is None:
        return None, None
    obj = mod
    for part in qual.split("."):
        obj = getattr(obj, part, None)
        if obj is None:
            SIG_PROBLEMS.append(f"{mod.__name__}.{qual} does not exist any "
                                f"more")
            return None, None
    try:
        params = list(inspect.signature(obj).parameters.values())
    except (TypeError, ValueError) as ex:
        SIG_PROBLEMS.append(f"{mod.__name__}.{qual}: signature cannot be "
                            f"inspected ({ex})")
        return None, None
    return obj, params


def _describe(params):
    return "(" + ", ".join(str(p) for p in params) + ")"


def understood(short, qual, lead, keywords=()):
    """a function / class of another harness that THIS module calls with the
    positional arguments `lead` (and the keyword arguments `keywords`): its
    parameters must begin with exactly these names, every further parameter
    must be optional.  -> the object, or None (problem recorded)"""
    obj, params = _lookup(short, qual)
    if obj is None:
        return None
    names = [p.name for p in params]
    full = f"{_MODS[short].__name__}.{qual}"
    if names[:len(lead)] != list(lead):
        SIG_PROBLEMS.append(
            f"the signature of {full}{_describe(params)} is no longer "
            f"understood: C05 calls it with the positional arguments "
            f"({', '.join(lead)})")
        return None
    for p in params[len(lead):]:
        if p.name in keywords:
            continue
        if p.default is p.empty and p.kind not in (p.VAR_POSITIONAL,
                                                    p.VAR_KEYWORD):
            SIG_PROBLEMS.append(
                f"the signature of {full}{_describe(params)} is no longer "
                f"understood: the added parameter '{p.name}' has no default "
                f"and C05 does not know what to pass")
            return None
    missing = [k for k in keywords if k not in names]
    if missing:
        SIG_PROBLEMS.append(
            f"the signature of {full}{_describe(params)} is no longer "
            f"understood: C05 passes the keyword argument(s) "
            f"{', '.join(missing)}")
        return None
    return obj


_ADAPTERS = []


def adapter(short, name, lead, fn):
    """`fn` is to stand in for the per-program function `name` of another
    harness, which that harness' own `work` calls.  The original's
    parameters must begin with the names `lead` (what C05 knows about);
    parameters added behind them are tolerated and ignored.  The stand-in
    accepts whatever the original accepts, positionally or by keyword, and
    hands `fn` the arguments named in fn's own signature."""
    obj, params = _lookup(short, name)
    if obj is None:
        return
    full = f"{_MODS[short].__name__}.{name}"
    names = [p.name for p in params]
    if names[:len(lead)] != list(lead):
        SIG_PROBLEMS.append(
            f"the signature of {full}{_describe(params)} is no longer "
            f"understood: C05 replaces this function and expects it to "
            f"begin with ({', '.join(lead)})")
        return
    sig = inspect.Signature(params)
    wanted = list(inspect.signature(fn).parameters)
    if not set(wanted) <= set(lead):
        raise core.Internal(f"C05: the stand-in for {full} wants {wanted}")

    def stand_in(*args, **kwargs):
        try:
            ba = sig.bind(*args, **kwargs)
        except TypeError as ex:
            raise core.Internal(
                f"C05: {full}{_describe(params)} was called with arguments "
                f"that do not fit the signature it had when C05 was "
                f"imported: {ex}")
        ba.apply_defaults()
        return fn(*[ba.arguments[n] for n in wanted])
    stand_in.__name__ = f"c05_stand_in_for_{short}_{name}"
    _ADAPTERS.append((_MODS[short], name, stand_in))


def check_signatures():
    if SIG_PROBLEMS:
        raise core.Internal("C05 reuses the program enumerators of other "
                            "harnesses; " + "; ".join(SIG_PROBLEMS))


# ====================================================================
# the world a program is built in
# ====================================================================
class _Captured(Exception):
    """raised by the prog_load seam: the library wanted to load these bytes"""
    def __init__(self, code):
        super().__init__("captured")
        self.code = bytes(code)


class World:
    """seams: every descriptor ebpfcat obtains from bpf() is recorded and
    closed on exit; mmap of an array map is a plain bytearray (Python side
    only); `ebpfcat.bpf.prog_load` hands the bytes to the harness instead"""

    def __enter__(self):
        self.fds = fds = []
        self._saved = (B.bpf, B.prog_load, AM.mmap)
        orig = B.bpf

        def recording_bpf(cmd, fmt, *args):
            r = orig(cmd, fmt, *args)
            if cmd in (0, 5, 7):
                fds.append(r[0])
            return r

        def capture(prog_type, insns, license, *a, **k):
            raise _Captured(insns)
        B.bpf = recording_bpf
        B.prog_load = capture
        AM.mmap = lambda fd, size: bytearray(size)
        return self

    def own(self, fd):
        self.fds.append(fd)
        return fd

    def __exit__(self, *exc):
        B.bpf, B.prog_load, AM.mmap = self._saved
        for fd in self.fds:
            try:
                os.close(fd)
            except OSError:
                pass
        self.fds[:] = []


class RealFake:
    """stands in for the FakeMaps classes of the C04 / C06 harnesses: same
    interface, but the maps are created in the real kernel (and closed by
    the surrounding World)"""

    def __init__(self):
        self.kernel = bpfvm.Kernel()
        self.fds = self.created = []

    def restart(self):
        pass

    def create_map(self, map_type, key_size, value_size, max_entries,
                   attributes=None):
        fd = B.create_map(map_type, key_size, value_size, max_entries,
                          attributes if attributes is not None
                          else MapFlags(0))
        self.fds.append(fd)
        return fd

    def mmap(self, fd, size):
        return bytearray(size)

    @contextlib.contextmanager
    def bound(self):
        old = AM.create_map, AM.mmap, HM.create_map
        AM.create_map, AM.mmap, HM.create_map = \
            self.create_map, self.mmap, self.create_map
        try:
            yield self
        finally:
            AM.create_map, AM.mmap, HM.create_map = old


# ====================================================================
# the oracle: the real verifier
# ====================================================================
_STAT = re.compile(r"^(processed \d+ insns|verification time|stack depth|"
                   r"max_states|peak_states|mark_read)")
_NUM = re.compile(r"0x[0-9a-fA-F]+|-?\d+")


def distinctive(log):
    """the verifier's complaint: last line that is not statistics"""
    lines = [ln.strip() for ln in log.strip().splitlines() if ln.strip()]
    for ln in reversed(lines):
        if not _STAT.match(ln):
            return ln
    return ""


def normalise(line):
    return _NUM.sub("N", line)


def load(code):
    """-> None when the kernel accepts, else (errno, log)"""
    try:
        fd = kern.prog_load(code, log=False)
    except kern.LoadError:
        try:
            fd = kern.prog_load(code, log=True, log_size=1 << 18)
        except kern.LoadError as e:
            return e.errno, e.log
        os.close(fd)
        raise core.Internal("the kernel rejected a program without a log "
                            "and accepted the same bytes with one")
    os.close(fd)
    return None


def canonical(code):
    """program bytes with the map descriptors masked (their numbers depend
    on what else the worker process has open)"""
    out = bytearray(code)
    for i in range(0, len(out), 8):
        if out[i] == 0x18 and out[i + 1] >> 4 == 1:
            out[i + 4:i + 8] = bytes(4)
    return bytes(out)


_stored = {}
KEEP = 2


def judge(res, family, shape, code, outside=None, triggers=()):
    """load one accepted program and record the verdict"""
    res.count("programs")
    res.count("programs:" + family)
    res.count("traces_validated_against_impl")
    verdict = load(code)
    res.count("evaluations")
    res.count("transitions", len(code) // 8)
    if outside:
        # outside the statement's side conditions: counted, not judged
        res.count("outside_side_condition")
        res.count("outside:" + outside)
        res.outcomes.add(("outside", outside, verdict is None))
        return verdict
    res.nontrivial.add(hashlib.sha1(canonical(code)).hexdigest()[:12])
    if len(res.samples) < 2:
        res.sample(dict(family=family, shape=shape, insns=len(code) // 8,
                        kernel="accepted" if verdict is None
                        else "rejected"))
    if verdict is None:
        res.count("loaded")
        res.outcomes.add(("loaded", family))
        return None
    err, log = verdict
    line = distinctive(log)
    norm = normalise(line)
    res.count("kernel_rejected")
    kf = classify(family, shape, norm, code, set(triggers))
    res.outcomes.add(("kernel-rejected", norm[:60], str(kf)))
    sig = core.digest([family, norm, str(kf)])
    n = _stored[sig] = _stored.get(sig, 0) + 1
    if n > KEEP:
        res.count("violations_not_stored")
        if kf is not None:
            res.count("not_stored:" + str(kf))
        return verdict
    res.violation(dict(family=family, shape=shape),
                  "BPF_PROG_LOAD accepts the program the generator accepted",
                  dict(errno=err, complaint=line, log_tail=log[-300:],
                       insns=len(code) // 8),
                  kf=kf, sig=sig,
                  note=f"{family}: verifier says: {line[:120]}")
    return verdict


REJECT_ANYWHERE = ("AssembleError", "TypeError", "NotImplementedError")


def generator_rejection(ex):
    """is this exception the generator refusing the program (as opposed to a
    bug of the harness)?"""
    if type(ex).__name__ in REJECT_ANYWHERE:
        return True
    tb = traceback.extract_tb(ex.__traceback__)
    if isinstance(ex, (ValueError, ZeroDivisionError, OverflowError)) and \
            tb and tb[-1].name in ("mk", "opnd", "<lambda>"):
        # Python itself refuses the constant sub-expression (3 >> -2, 1 // 0)
        # while the reused harness folds it: no program was written
        return True
    return bool(tb) and os.path.abspath(tb[-1].filename).startswith(SRCDIR)


def submit(res, family, shape, outside=None, triggers=()):
    """build the program of `shape` with the real generator and judge it"""
    res.count("enumerated")
    res.count("enumerated:" + family)
    with World() as w:
        try:
            code = BUILDERS[family](shape, w)
        except core.Internal:
            raise
        except _Captured as c:
            code = c.code
        except Exception as ex:
            if not generator_rejection(ex):
                tb = traceback.extract_tb(ex.__traceback__)
                raise core.Internal(
                    f"harness error while building {family} {shape!r}: "
                    f"{ex!r} at {tb[-1].filename}:{tb[-1].lineno}")
            res.count("rejected_by_generator")
            res.outcomes.add("rejected:" + type(ex).__name__)
            return None
        if isinstance(code, tuple):         # builder found a side condition
            code, why, *more = code
            outside = outside or why
            if more:
                triggers = set(triggers) | more[0]
        return judge(res, family, shape, code, outside, triggers)


# ====================================================================
# known findings: narrow matchers = trigger + message + defect model
# ====================================================================
# A rejected program is attributed to documented defects only if
#  (1) its shape has the structural trigger of each of them,
#  (2) the verifier's complaint is one those defects are documented with,
#  (3) the SAME program, generated again with exactly those defects repaired
#      (a wrapper around the one library function concerned, the rest of the
#      library - including whatever a mutation changed - untouched), loads.
# The smallest set of repairs that makes the program load is the attribution;
# a rejection no documented repair explains stays a fresh violation.
def _xadd_to_store(code):
    """repair model for KF_XADD at bytecode level: every atomic add becomes
    a plain store of the same width (what the verifier objects to is the
    atomic access to packet memory, nothing else)"""
    out = bytearray(code)
    for i in range(0, len(out), 8):
        if out[i] in (0xc3, 0xdb):
            out[i] = 0x63 if out[i] == 0xc3 else 0x7b
            out[i + 4:i + 8] = bytes(4)
    return bytes(out)


@contextlib.contextmanager
def seam_r0():
    """KF_R0 repaired: HashGlobalVar.get_address always moves the looked-up
    pointer into the destination register before save_registers restores
    r0 (the library does so only when `force` is set)"""
    orig = HM.HashGlobalVar.get_address

    def get_address(self, dst, long, force=False):
        return orig(self, dst, long, force or dst is not None)
    HM.HashGlobalVar.get_address = get_address
    try:
        yield
    finally:
        HM.HashGlobalVar.get_address = orig


@contextlib.contextmanager
def seam_park():
    """KF_DICT repaired: save_registers parks saved registers only in
    registers a helper call preserves (r6..r9)"""
    orig = EBPF.save_registers

    @contextlib.contextmanager
    def save_registers(self, registers):
        block = set(range(6)) - self.owners - set(registers)
        self.owners |= block
        cm = orig(self, registers)
        try:
            cm.__enter__()
        finally:
            self.owners -= block
        try:
            yield
        except BaseException as ex:
            if not cm.__exit__(type(ex), ex, ex.__traceback__):
                raise
        else:
            cm.__exit__(None, None, None)
    EBPF.save_registers = save_registers
    try:
        yield
    finally:
        EBPF.save_registers = orig


@contextlib.contextmanager
def seam_reown():
    """KF_REOWN repaired: what was owned before a helper-call block is owned
    after it (save_registers restores the registers it saved but drops them
    from `owners`; call() drops the reserved destination register)"""
    orig = EBPF.save_registers

    @contextlib.contextmanager
    def save_registers(self, registers):
        before = self.owners.copy()
        with orig(self, registers):
            yield
        self.owners |= before
    EBPF.save_registers = save_registers
    try:
        yield
    finally:
        EBPF.save_registers = orig


class _Spilled(Expression):
    """a value that is computed and spilled to the stack when its address
    is asked for (Expression.get_address), whatever it is"""
    def __init__(self, inner):
        self.inner = inner
        self.ebpf = inner.ebpf
        self.signed = inner.signed
        self.fixed = inner.fixed

    def calculate(self, dst, long, force=False):
        return self.inner.calculate(dst, long, force)


@contextlib.contextmanager
def seam_wide():
    """KF_WIDE repaired: `hashvar = <memory variable narrower than 8
    bytes>` stores the variable's value (spilled as 8 bytes) instead of
    handing the variable's own address to map_update_elem"""
    orig = HM.HashGlobalVarDesc.__set__

    def __set__(self, ebpf, value):
        if not ebpf.loaded and isinstance(value, Memory) and not (
                isinstance(value.fmt, str) and fmtsize(value.fmt) == 8):
            value = _Spilled(value)
        return orig(self, ebpf, value)
    HM.HashGlobalVarDesc.__set__ = __set__
    try:
        yield
    finally:
        HM.HashGlobalVarDesc.__set__ = orig


@contextlib.contextmanager
def seam_generic_else():
    """defect model for KF_ELIF and KF_BTEXIT (the one C03 uses for
    C03-bittest-else-in-elif-chain): bit tests (AndComparison, the one
    comparison without an inverse jump) use the generic Else - a jump over
    the Else part behind the with-body - instead of moving the Else part in
    front of the with-body when the block is left"""
    import ebpfcat.ebpf as eb
    orig = eb.AndComparison.Else
    eb.AndComparison.Else = eb.Comparison.Else
    try:
        yield
    finally:
        eb.AndComparison.Else = orig


@contextlib.contextmanager
def seam_samekind():
    """defect model for KF_SAMEKIND (C08-two-maps-of-one-kind-share-base-
    register seen through the verifier): the maps of one class share the
    class's base register, which points to the value of the map initialised
    last; an access to a variable of the other map is refused when it lies
    beyond that value.  Modelled deviation: every map of a class gets the
    value size of the largest map of that class of the program - nothing
    else changes, in particular not the generated instructions"""
    orig = AM.ArrayMap.collect

    def collect(self, ebpf):
        size = orig(self, ebpf)
        if not size:
            return size
        for cls in type(ebpf).__mro__:
            for v in cls.__dict__.values():
                if isinstance(v, AM.ArrayMap) and v is not self \
                        and type(v) is type(self):
                    size = max(size, orig(v, ebpf))
        return size
    AM.ArrayMap.collect = collect
    try:
        yield
    finally:
        AM.ArrayMap.collect = orig


SCALAR = "RN invalid mem access 'scalar'"
# id -> (trigger, admissible complaints, generator seam or None)
DEFECTS = {
    KF_XADD: ("xadd-pkt",
              {"BPF_ATOMIC stores into RN pkt is not allowed"}, None),
    # r0 holds whatever the program (or the generator, as a temporary) put
    # there before the hash-map variable was read
    # (a pointer to a smaller map value inside a Dict lookup body: then the
    # load through it is out of bounds)
    KF_R0: ("hash-read", {SCALAR, "RN invalid mem access 'pkt_end'",
                          "RN min value is outside of the allowed memory "
                          "range"}, seam_r0),
    KF_DICT: ("dict-call", {SCALAR}, seam_park),
    KF_REOWN: ("helper-restore",
               {SCALAR, "RN invalid mem access 'pkt_end'", "RN !read_ok",
                "RN invalid mem access 'map_value'",
                "RN invalid mem access 'map_ptr'",
                "RN invalid mem access 'fp'",
                "RN invalid mem access 'pkt'"}, seam_reown),
    KF_SAMEKIND: ("same-kind-maps",
                  {"RN min value is outside of the allowed memory range"},
                  seam_samekind),
    # `with <bit test> as Else: ..` / `with Else: ..; exit()`: the Else part
    # of a bit test is put in FRONT of the with-body; the jump over the
    # with-body that follows its EXIT can never be reached (the mirror
    # image of KF_EXIT, which stays as narrow as it is)
    KF_BTEXIT: ("bittest-else-exit", {"unreachable insn N"},
                seam_generic_else),
    KF_WIDE: ("hash-set-narrow",
              {"invalid read from stack RN off=N size=N",
               "invalid indirect access to stack RN off=N size=N",
               "RN min value is outside of the allowed memory range",
               "RN max value is outside of the allowed memory range",
               "RN offset is outside of the packet"}, seam_wide),
}
DEFECT_ORDER = [KF_XADD, KF_R0, KF_DICT, KF_REOWN, KF_WIDE, KF_SAMEKIND,
                KF_BTEXIT]
# KF_ELIF: an else-if chain with a bit test as a link (C03's finding
# C03-bittest-else-in-elif-chain seen through the verifier): AndComparison
# moves its Else block in front of the body after the other links of the
# chain recorded instruction indices; jumps land in the wrong place or an
# instruction (half of a 64-bit load) is overwritten.  Defect model as in
# C03 (seam_generic_else): bit tests use the generic jump-over-Else.
ELIF_MSGS = {"unreachable insn N", "invalid bpf_ld_immN insn",
             "BPF_ALU uses reserved fields", "BPF_MOV uses reserved fields",
             "BPF_LD_IMMN uses reserved fields",
             "misaligned stack access off N+N+N size N"}
TEMP_MSGS = {"invalid write to stack RN off=N size=N",
             "invalid stack off=N size=N",
             "invalid indirect access to stack RN off=N size=N",
             "invalid read from stack RN off=N size=N"}


def rebuild(family, shape, kfs):
    """the program of `shape` generated with the defects `kfs` repaired ->
    bytes, or None if the generator refuses it then"""
    with contextlib.ExitStack() as st:
        for k in kfs:
            if DEFECTS[k][2] is not None:
                st.enter_context(DEFECTS[k][2]())
        w = st.enter_context(World())
        try:
            code = BUILDERS[family](shape, w)
        except core.Internal:
            raise
        except _Captured as c:
            code = c.code
        except Exception as ex:
            # parking in r6..r9 only / keeping restored registers owned
            # needs more registers: the repaired generator refuses the
            # program instead of emitting a bad one
            if (KF_DICT in kfs or KF_REOWN in kfs) \
                    and type(ex).__name__ == "AssembleError" \
                    and str(ex) == "not enough registers":
                return None, None
            return None
        if isinstance(code, tuple):
            code = code[0]
        if KF_XADD in kfs:
            code = _xadd_to_store(code)
        return code, load(code)


def classify_elif(family, shape, norm, code, trig):
    """KF_ELIF: trigger (a bit test with an Else as a link of an else-if
    chain) + a complaint documented for it + the same program generated
    with `AndComparison.Else = Comparison.Else` (seam_generic_else, the
    defect model of C03-bittest-else-in-elif-chain) differs and loads.  If what
    remains then is exactly the unreachable jump behind a body that ends in
    exit() (KF_EXIT: its trigger, its complaint), both are named."""
    if norm not in ELIF_MSGS:
        return None
    with seam_generic_else(), World() as w:
        try:
            code2 = BUILDERS[family](shape, w)
        except core.Internal:
            raise
        except Exception:
            return None
        if canonical(code2) == canonical(code):
            return None     # the modelled deviation does not touch it
        # (loaded while the World is open: a program with an array-map
        # variable refers to a map descriptor that the World closes)
        v2 = load(code2)
    if v2 is None:
        return KF_ELIF
    if "exit-then-else" in trig and norm != "unreachable insn N" and \
            normalise(distinctive(v2[1])) == "unreachable insn N":
        # (with the same complaint before and after, the deviation explains
        # nothing: that is KF_EXIT by its own rule, or nothing)
        return [KF_ELIF, KF_EXIT]
    return None


def classify(family, shape, norm, code, trig):
    """-> known-finding id(s) or None"""
    if "temp-below-512" in trig and norm in TEMP_MSGS:
        return KF_TEMP          # no repair exists: trigger + message only
    if "elif-bittest" in trig:
        kf = classify_elif(family, shape, norm, code, trig)
        if kf is not None:
            return kf
    if "exit-then-else" in trig and norm == "unreachable insn N":
        return KF_EXIT
    cands = [k for k in DEFECT_ORDER if DEFECTS[k][0] in trig]
    refused = None
    for n in range(1, len(cands) + 1):
        for sub in itertools.combinations(cands, n):
            if not any(norm in DEFECTS[k][1] for k in sub):
                continue
            out = rebuild(family, shape, sub)
            if out is not None and out[1] is None:
                if out[0] is not None:
                    return sub[0] if n == 1 else list(sub)
                if refused is None:     # weaker: repaired generator refuses
                    refused = sub[0] if n == 1 else list(sub)
    return refused


# ====================================================================
# 1. reused enumerators
# ====================================================================
CFG = dict(stride={}, seed=0, dry=False)


def take(family, key):
    """deterministic 1/k slice, rotated by the seed, independent of how the
    work is partitioned"""
    k = CFG["stride"].get(family, 1)
    if k <= 1:
        return True
    return zlib.crc32(repr(key).encode()) % k == CFG["seed"] % k


def offer(res, family, slice_, key, shape, subs=(), outside=None,
          triggers=()):
    """one program a reused enumerator yields.  It is counted (the self-test
    wants at least one program of every family and sub-family), and - if it
    is in this run's slice `slice_` - built and judged.  `shape`, `outside`
    and `triggers` may be functions: they are only needed for programs in
    the slice."""
    res.count("yielded:" + family)
    for s in subs:
        res.count(f"yielded:{family}/{s}")
    if CFG["dry"] or not take(slice_, key):
        return
    if callable(shape):
        shape = shape()
    if callable(outside):
        outside = outside()
    if callable(triggers):
        triggers = triggers()
    res.count("enumerated:slice:" + slice_)
    submit(res, family, shape, outside, triggers)


# operators of the expression trees of C01 / C02; everything else is a leaf
# (a new kind of leaf of those harnesses needs no change here)
_UNARY = ("neg", "abs")


def _is_op(tree):
    return tree[0] in BINOPS or tree[0] in _UNARY or tree[0] in ("/", "cmp")


def const_trouble(tree, W):
    """a constant the user wrote that no instruction can carry: shift amount
    outside [0, W), division by the constant 0"""
    k = tree[0]
    if not _is_op(tree):
        return None
    if k in _UNARY:
        return const_trouble(tree[1], W)
    if k == "cmp":
        return const_trouble(tree[2], W) or const_trouble(tree[3], W)
    c = const_value(tree[2])
    if c is not None:
        if k in ("<<", ">>") and not 0 <= c < W:
            return "constant shift amount outside [0, width)"
        if k in ("//", "%", "/") and c == 0:
            return "division by the constant 0"
    return const_trouble(tree[1], W) or const_trouble(tree[2], W)


def const_value(tree):
    """the Python number a constant-only subtree folds to (the harnesses
    hand such subtrees to the DSL as one folded Python constant)"""
    k = tree[0]
    if k == "const":
        return tree[1]
    if not _is_op(tree) or k == "cmp":
        return None
    vals = [const_value(t) for t in tree[1:]]
    if any(v is None for v in vals):
        return None
    try:
        if k == "neg":
            return -vals[0]
        if k == "abs":
            return abs(vals[0])
        if k == "/":
            return vals[0] / vals[1]
        return BINOPS[k](*vals)
    except (ZeroDivisionError, TypeError, ValueError, OverflowError):
        return None


def _has_prefix(fmt):
    return isinstance(fmt, str) and len(fmt) > 1 and fmt[0] in "<>!"


def _mentions_leaf(tree, kind):
    if not isinstance(tree, (tuple, list)) or not tree:
        return False
    if tree[0] == kind:
        return True
    return _is_op(tree) and any(_mentions_leaf(t, kind) for t in tree[1:])


# ---- C01
_c01_Prog = understood("c01", "Prog", ("tree", "dest", "alias"))
understood("c01", "width_of", ("tree", "dest"))
understood("c01", "work", ("item", "res"))
understood("c01", "run", ("ctx",))


def _b_c01(s, w):
    return _c01_Prog(tup(s["tree"]), tup(s["dest"]), s["alias"]).b._code


def _c01_case(tree, dest, alias, res):
    # demand less: a shift constant must be inside the narrower of the
    # statement's width and the width the operands suggest
    subs = ["idx"] if _mentions_leaf(tree, "idx") else []
    if dest[0] != "reg" and _has_prefix(dest[1]):
        subs.append("prefixed")
    offer(res, "c01", "c01", (tree, dest, alias),
          dict(tree=tree, dest=dest, alias=alias), subs,
          lambda: const_trouble(tree, c01.width_of(tree, dest)))


adapter("c01", "run_case", ("tree", "dest", "alias", "vectors", "res"),
        _c01_case)


# ---- C02
_c02_Prog = understood("c02", "Prog", ("tree", "dest", "alias"))
understood("c02", "items_for", ("ctx",))
understood("c02", "work", ("item", "res"))


def _b_c02(s, w):
    dest = s["dest"]
    return _c02_Prog(tup(s["tree"]), None if dest is None else tup(dest),
                     s["alias"]).b._code


def _c02_case(tree, dest, alias, res):
    subs = ["prefixed"] if dest is not None and dest[0] != "reg" \
        and _has_prefix(dest[1]) else []
    offer(res, "c02", "c02", (tree, dest, alias),
          dict(tree=tree, dest=dest, alias=alias), subs,
          lambda: const_trouble(tree, 32))


adapter("c02", "run_case", ("tree", "dest", "alias", "envs", "res"),
        _c02_case)


# ---- C03
_c03_Prog = understood("c03", "Prog", ("stmts",))
understood("c03", "stmts_from_json", ("js",))
understood("c03", "items_for", ("ctx",))
understood("c03", "work", ("item", "res"))


def _b_c03(s, w):
    # programs with an array-map variable create their map through the
    # harness' FakeMaps class: here it has to be a real kernel map
    old = getattr(c03, "FakeMaps", None)
    if old is not None:
        c03.FakeMaps = RealFake
    try:
        return _c03_Prog(
            c03.stmts_from_json(core.jsonable(s["stmts"]))).b._code
    finally:
        if old is not None:
            c03.FakeMaps = old


def _bittest(tree):
    """can the condition be an AndComparison (jump-if-bits-set, the one
    comparison without an inverse): `a & b`, `(a & b) != 0`, a bit field,
    `bitfield != 0`"""
    return tree[0] in ("jset", "bit", "nz") or \
        (tree[0] == "cmp" and tree[1] == "!=")


def _c03_triggers(stmts):
    """exit-then-else: a with-block that ends in exit() and has an Else
    part; elif-bittest: a bit test that is a link of an else-if chain and
    has an Else (a further link or the final Else); bittest-else-exit: a
    with-block on a bit test whose Else part ends in exit()"""
    t = set()

    def walk(stmts):
        for s in stmts or ():
            if s[0] == "if":
                if s[3] is not None and s[2] and s[2][-1][0] == "x":
                    t.add("exit-then-else")
                if s[3] and s[3][-1][0] == "x" and _bittest(s[1]):
                    t.add("bittest-else-exit")
                walk(s[2])
                walk(s[3])
            elif s[0] == "chain":
                links, final = s[1], s[2]
                for i, (tree, body) in enumerate(links):
                    if i + 1 < len(links) or final is not None:
                        if body and body[-1][0] == "x":
                            t.add("exit-then-else")
                        if _bittest(tree):
                            t.add("elif-bittest")
                    walk(body)
                walk(final)
    walk(stmts)
    return t


def _c03_subs(stmts, family):
    r = repr(stmts)
    subs = [family or "unnamed"]
    if "'chain'" in r:
        subs.append("chain")
    if "('x'," in r:
        subs.append("exit")
    if "('arr'," in r:
        subs.append("array-map-variable")
    return subs


def _c03_case(stmts, res, family):
    subs = _c03_subs(stmts, family)
    slice_ = "c03x" if "chain" in subs or "exit" in subs else \
        "c03bf" if family == "bf" else "c03"
    offer(res, "c03", slice_, stmts, dict(stmts=stmts, sub=family), subs,
          triggers=lambda: _c03_triggers(stmts))


adapter("c03", "run_prog", ("stmts", "envs", "res", "kernel", "family"),
        _c03_case)


# ---- C04
_c04_Prog = understood("c04", "Prog", ("shape", "stmt", "hist"))
understood("c04", "shape_from", ("j",))
understood("c04", "shape_json", ("shape",))
understood("c04", "work", ("item", "res"))
understood("c04", "run", ("ctx",))


def _b_c04(s, w):
    shape = c04.shape_from(core.jsonable(s["shape"]))
    hist = s.get("hist")
    old = c04.FakeMaps
    c04.FakeMaps = RealFake
    try:
        return _c04_Prog(shape, tup(s["stmt"]),
                         tup(hist) if hist else None).code
    finally:
        c04.FakeMaps = old


def _c04_triggers(stmt):
    t = set()
    k = stmt[0]
    if k == "in":
        # ("in", place, inner statement, member, access): the inner
        # statement inside a Dict lookup block or its Else
        return _c04_triggers(stmt[2]) | {"dict-call", "helper-restore"}
    if k == "iadd" and stmt[1][0] in ("pv", "pw"):
        t.add("xadd-pkt")
    if k == "hget":
        t |= {"hash-read", "helper-restore"}
    if k in ("hset", "hsetx", "hsetr"):
        t.add("helper-restore")
    if k == "hset":
        t.add("hash-set-narrow")
    if k in ("dupd", "dlook"):
        t |= {"dict-call", "helper-restore"}
    return t


def _c04_case(shape, stmt, hist, res):
    subs = []
    if stmt[0] == "in":
        subs.append("lookup-block")
    if hist:
        subs.append("history")
    slice_ = "c04h" if hist else "c04in" if stmt[0] == "in" else "c04"
    offer(res, "c04", slice_, (shape, stmt, hist),
          lambda: dict(shape=c04.shape_json(shape), stmt=stmt,
                       hist=list(hist) if hist else None),
          subs, triggers=lambda: _c04_triggers(stmt))


adapter("c04", "run_case", ("shape", "stmt", "hist", "res", "caseno"),
        _c04_case)


# ---- C06: one program = (memory kind, format, one or two statements)
_c06_Inst = understood("c06", "Inst", ("cfg", "i", "fake"))
understood("c06", "configs", ("ctx",))
C06_PACKET = ("pktvar", "pktarr", "rawsum", "rawptr")


def _b_c06(s, w):
    kind, fmt, stmts = s["prog"]
    fake = RealFake()
    with fake.bound():
        return _c06_Inst((kind, fmt, (tup(stmts),)), 0, fake).code


def _c06_triggers(shape):
    return {"xadd-pkt"} if shape["prog"][0] in C06_PACKET else set()


def _c06_programs(ctx):
    """the distinct programs of the configurations of C06 (a configuration
    is several program instances on shared memory)"""
    seen, out = set(), []
    for item in c06.configs(ctx):
        try:
            kind, fmt, progs = item[0]
            progs = [tuple(tuple(st) for st in p) for p in progs]
            if not all(len(st) == 3 for p in progs for st in p):
                raise ValueError("statement is not (operator, form, index)")
        except (TypeError, ValueError, IndexError) as ex:
            raise core.Internal(
                "C05: an item of harness.c06_xadd.configs() is no longer "
                "((kind, format, per-instance statement lists), ...): "
                f"{item!r:.200} ({ex})")
        for p in progs:
            if (kind, fmt, p) not in seen:
                seen.add((kind, fmt, p))
                out.append((kind, fmt, p))
    return out


def _c06_item(prog, res):
    kind, fmt, stmts = prog
    subs = []
    zero = getattr(c06, "ZERO_FORMS", ())
    if any(st[1] in zero for st in stmts):
        subs.append("zero-amount")
    if len(stmts) > 1:
        subs.append("two-statements")
    if any(st[1] in getattr(c06, "UNIT_FORMS", ()) for st in stmts):
        subs.append("mixed-units")
    shape = dict(prog=prog)
    offer(res, "c06", "c06", prog, shape, subs,
          triggers=lambda: _c06_triggers(shape))


# ---- C07
_c07_Prog = understood("c07", "Prog", ("case",))
_c07_GuardProg = understood("c07", "GuardProg", ("case",))
understood("c07", "work", ("item", "res"))
understood("c07", "run", ("ctx",))


def _b_c07(s, w):
    if "guards" in s:
        g = s["guards"]
        return _c07_GuardProg(dict(min=g["min"],
                                   top=core.jsonable(g["top"]))).code
    c = s["case"]
    return _c07_Prog((c[0], c[1], c[2], c[3], tup(c[4]))).code


def _c07_triggers(shape):
    if "guards" in shape:
        return set()
    op = shape["case"][4]
    return {"xadd-pkt"} if op[0] == "ip" and op[1] in ("+=", "-=") else set()


def _c07_localfmt(op):
    if op[0] == "rd" and op[1] == "loc":
        return op[2]
    if op[0] == "wv":
        return op[1]
    if op[0] == "ip" and op[2] == "loc":
        return op[3]
    return None


def _c07_case(case, res):
    subs = ["single-access"]
    if _has_prefix(_c07_localfmt(case[4])):
        subs.append("prefixed-local")
    shape = dict(case=case)
    offer(res, "c07", "c07", case, shape, subs,
          triggers=lambda: _c07_triggers(shape))


GUARD_BODY = ("gt", "ge")       # the with-body has the bytes
GUARD_ELSE = ("lt", "le")       # the Else part has them


def guards_outside(case):
    """programs with several packet-size guards: every guard reloads the
    packet pointer and the verifier forgets what the guards around it had
    established.  A body that accesses the byte an OUTER guard promises
    after an inner guard was entered is outside 'packet access inside a
    packet-size guard' in the reading that demands less of the generator
    (the access is inside the guard it relies on only textually).
    The C07 bodies access byte n-1, n = the largest promise around them."""
    def nodes(ns, known):
        for op, G, opt, body, els in ns:
            if op in GUARD_BODY:
                kb, hb, ke, he = max(known, G), G, known, 0
            elif op in GUARD_ELSE:
                kb, hb, ke, he = known, 0, max(known, G), G
            else:
                raise core.Internal(f"C05: unknown guard comparison {op!r} "
                                    "in a program of harness.c07_packet")
            if kb >= 1 and kb > hb:
                return True
            if opt == "else" and ke >= 1 and ke > he:
                return True
            if nodes(body, kb) or nodes(els, ke):
                return True
        return False
    if nodes(case["top"], case["min"] or 0):
        return "access relies on the promise of an outer packet-size guard"
    return None


def _c07_guard_case(case, res):
    try:
        outside = guards_outside(case)
    except (TypeError, ValueError, KeyError) as ex:
        raise core.Internal("C05: a case of harness.c07_packet.run_guard_case "
                            "is no longer dict(min, top=[[op, G, opt, body, "
                            f"else], ...]): {case!r:.200} ({ex!r})")
    offer(res, "c07", "c07g", case, dict(guards=case), ["guards"], outside)


adapter("c07", "run_case", ("case", "plan", "seed", "res"), _c07_case)
adapter("c07", "run_guard_case", ("case", "seed", "res"), _c07_guard_case)


# ---- C08
_c08_Case = understood("c08", "Case", ("layout",),
                       keywords=("percpu", "kinds", "assign"))
understood("c08", "layouts_with_prefix", ("k", "prefix"))
understood("c08", "prefixes", ("k",))
understood("c08", "valid", ("layout",))
understood("c08", "run", ("ctx",))


def _b_c08(s, w):
    layout = tup(s["layout"])
    if s.get("kinds"):
        case = _c08_Case(layout, kinds=tuple(s["kinds"]),
                         assign=tuple(s["assign"]))
    else:
        case = _c08_Case(layout, percpu=s["percpu"])
    case.read_positions()
    case.emit()
    return case.b.code()


def _c08_triggers(shape):
    kinds = shape.get("kinds") or ()
    return {"same-kind-maps"} if len(set(kinds)) < len(kinds) else set()


def _c08_subs(layout, percpu=False, kinds=None):
    subs = ["two-maps"] if kinds else ["per-cpu" if percpu else "one-map"]
    if any(_has_prefix(f) for f, _ in layout):
        subs.append("prefixed")
    return subs


def _c08_item(item, res):
    what = item[0]
    if what == "k":
        _, k, prefix, percpu = item
        for layout in c08.layouts_with_prefix(k, prefix):
            offer(res, "c08", "c08k%d" % k, (layout, percpu),
                  dict(layout=layout, percpu=percpu),
                  _c08_subs(layout, percpu))
    elif what == "x":
        for layout in item[1]:
            offer(res, "c08", "c08x", layout,
                  dict(layout=layout, percpu=False), _c08_subs(layout))
    else:
        for layout, assign, kinds in item[1]:
            shape = dict(layout=layout, kinds=kinds, assign=assign)
            offer(res, "c08", "c08m", (layout, assign, kinds), shape,
                  _c08_subs(layout, kinds=kinds),
                  triggers=_c08_triggers(shape))


def _c08_items(ctx):
    """declaration sets of one to three variables on an array map and of
    one or two on a per-CPU map (enumerated here, as C08 does); from C08's
    own work items the sets with byte-order-prefixed formats ('arrayx') and
    the programs with two maps ('multi')"""
    out = []
    for k in (1, 2, 3):
        for p in c08.prefixes(k):
            out.append(("k", k, p, False))
    for k in (1, 2):
        for p in c08.prefixes(k):
            out.append(("k", k, p, True))
    seen = set()
    for it in capture_items(c08, ctx):
        try:
            what, extra = it[0], it[5]
            if what == "arrayx":
                lays = [tuple((f, p) for f, p in lay) for lay in extra]
                # (C08 also tries a lone re-declaration: no such class)
                lays = [lay for lay in lays
                        if lay not in seen and c08.valid(lay)]
                seen.update(lays)
                for i in range(0, len(lays), 8):
                    out.append(("x", lays[i:i + 8]))
            elif what == "multi":
                progs = []
                for lay, assign, kinds_list, _ in extra:
                    lay = tuple((f, p) for f, p in lay)
                    if not c08.valid(lay):
                        continue
                    for kinds in kinds_list:
                        key = (lay, tuple(assign), tuple(kinds))
                        if key not in seen:
                            seen.add(key)
                            progs.append(key)
                for i in range(0, len(progs), 8):
                    out.append(("m", progs[i:i + 8]))
        except (TypeError, ValueError, IndexError) as ex:
            raise core.Internal(
                "C05: a work item of harness.c08_arraymap.run() is no longer "
                "(kind, k, prefix, seed, kernel_every, extra) with extra = "
                "layouts ('arrayx') resp. (layout, assign, kinds list, "
                f"configurations) ('multi'): {it!r:.200} ({ex!r})")
    return out


# ---- C09
_c09_HashVarCase = understood("c09", "HashVarCase", ("cfg", "backend"))
_c09_DictCase = understood("c09", "DictCase", ("cfg", "backend"))
understood("c09", "RealBackend", ())
understood("c09", "hashvar_configs", ("ctx",))
understood("c09", "dict_configs", ("ctx",))


def _b_c09(s, w):
    be = c09.RealBackend()
    if s["kind"] == "hv":
        _c09_HashVarCase(dict(vars=[tuple(v) for v in s["vars"]]), be)
    else:
        _c09_DictCase(dict(key=tuple(s["key"]), value=tuple(s["value"]),
                           size=s["size"], lru=s["lru"]), be)
    raise core.Internal("C09 case did not try to load its program")


def _c09_item(cfg, res):
    try:
        if "vars" in cfg:
            shape = dict(kind="hv", vars=cfg["vars"])
            fmts = [v[0] for v in cfg["vars"]]
            subs = ["hash-map-variables"]
        else:
            shape = dict(kind="dict", key=cfg["key"], value=cfg["value"],
                         size=cfg["size"], lru=cfg["lru"])
            fmts = list(cfg["key"]) + list(cfg["value"])
            subs = ["dict"]
    except (TypeError, KeyError, IndexError) as ex:
        raise core.Internal("C05: a configuration of harness.c09_hashmap is "
                            "no longer dict(vars=[(format, default)...]) / "
                            f"dict(key, value, size, lru): {cfg!r:.200} "
                            f"({ex!r})")
    if any(_has_prefix(f) for f in fmts):
        subs.append("prefixed")
    offer(res, "c09", "c09", shape, shape, subs)


class _ItemsCaptured(BaseException):
    pass


def capture_items(mod, ctx):
    """the work items a harness' run() would hand to core.pmap (run() is
    left at that point: what it does with the results is not executed)"""
    got = {}

    def fake_pmap(c, fn, items, chunk=None, *more, **kw):
        got["items"] = list(items)
        raise _ItemsCaptured()
    old = core.pmap
    core.pmap = fake_pmap
    try:
        mod.run(ctx)
    except _ItemsCaptured:
        pass
    finally:
        core.pmap = old
    if "items" not in got:
        raise core.Internal(f"C05: {mod.__name__}.run() does not hand its "
                            "work items to core.pmap any more")
    return got["items"]


def reuse_items(ctx):
    """[(family, item)] for the reused enumerators"""
    out = []
    sub = core.Ctx(ctx.prop, ctx.tier, ctx.seed, ctx.workers)
    if c01:
        out += [("c01", it) for it in capture_items(c01, sub)]
    if c02:
        out += [("c02", it) for it in c02.items_for(sub)
                if it[0] not in ("const", "pyset")]
    if c03:
        out += [("c03", it) for it in c03.items_for(sub)]
    if c04:
        # (the bit-field items of c04 have their own per-program function;
        # bit fields are loaded through the c03 and c07 families here)
        out += [("c04", it) for it in capture_items(c04, sub)
                if not (isinstance(it[0], tuple) and it[0][:1] == ("bits",))]
    if c07:
        out += [("c07", it) for it in capture_items(c07, sub)]
    if c06:
        out += [("c06", prog) for prog in _c06_programs(sub)]
    if c08:
        out += [("c08", it) for it in _c08_items(sub)]
    if c09:
        out += [("c09", cfg) for cfg in c09.hashvar_configs(sub)]
        out += [("c09", cfg) for cfg in c09.dict_configs(sub)]
    return out


_rebound = []


def _rebind():
    """the per-program step of each reused harness becomes 'build and load'
    (module attributes of the harness modules, in this process and the
    workers forked from it only)"""
    check_signatures()
    if not _rebound:
        for mod, name, stand_in in _ADAPTERS:
            setattr(mod, name, stand_in)
        _rebound.append(True)


REUSE = {
    "c01": lambda it, res: c01.work(it, res),
    "c02": lambda it, res: c02.work(it, res),
    "c03": lambda it, res: c03.work(it, res),
    "c04": lambda it, res: c04.work(it, res),
    "c06": _c06_item,
    "c07": lambda it, res: c07.work(it, res),
    "c08": _c08_item,
    "c09": _c09_item,
}

# what the self-test demands of the reused enumerators: at least one
# program of the family and of each of these kinds of programs
EXPECTED = {
    "c01": ("idx", "prefixed"),
    "c02": ("prefixed",),
    "c03": ("atom", "tree", "shtree", "block", "bf", "chain", "exit",
            "endian", "array-map-variable"),
    "c04": ("lookup-block", "history"),
    "c06": ("zero-amount", "two-statements", "mixed-units"),
    "c07": ("single-access", "prefixed-local", "guards"),
    "c08": ("one-map", "per-cpu", "two-maps", "prefixed"),
    "c09": ("hash-map-variables", "dict", "prefixed"),
}


def item_kind(item):
    """what sort of work item of its harness this is (first element if that
    is a string)"""
    if isinstance(item, (tuple, list)) and item and isinstance(item[0], str):
        return item[0]
    if isinstance(item, dict):
        return "vars" if "vars" in item else "dict"
    return ""


def startup_selftest(items):
    """before any worker is started: every reused harness is available to
    the run, hands out work items, and the first work item of each sort
    yields programs when it is walked with the adapters in place (nothing
    is built or loaded here)"""
    probe = core.Result()
    CFG["dry"] = True
    try:
        for fam in REUSE:
            if fam in UNAVAILABLE:
                continue
            mine = [it for f, it in items if f == fam]
            if not mine:
                raise core.Internal(f"C05 self-test: the enumerator of "
                                    f"{fam} hands out no work items")
            seen = set()
            for it in mine:
                k = item_kind(it)
                if k not in seen:
                    seen.add(k)
                    REUSE[fam](it, probe)
            if not probe.cov.get("yielded:" + fam):
                raise core.Internal(
                    f"C05 self-test: the first work items of the enumerator "
                    f"of {fam} (one of each sort: {sorted(seen)}) yield no "
                    "program: its per-program function is no longer the one "
                    "C05 replaces")
    finally:
        CFG["dry"] = False
    return probe


def final_selftest(res):
    """after the run: every family and every kind of program the reused
    enumerators are known to produce was seen at least once"""
    missing = []
    for fam, subs in EXPECTED.items():
        if fam in UNAVAILABLE:
            continue
        for key in [fam] + [f"{fam}/{s}" for s in subs]:
            if not res.cov.get("yielded:" + key):
                missing.append(key)
    if missing:
        raise core.Internal(
            "C05 self-test: the reused enumerators yielded no program of: "
            + ", ".join(missing) + " (a family was lost silently: a "
            "per-program function that C05 does not replace, an alphabet "
            "that changed)")


# ====================================================================
# 2. dedicated families: a statement language on top of the real DSL
# ====================================================================
BINOPS = {"+": operator.add, "-": operator.sub, "*": operator.mul,
          "&": operator.and_, "|": operator.or_, "^": operator.xor,
          "<<": operator.lshift, ">>": operator.rshift,
          "//": operator.floordiv, "%": operator.mod}
CMPS = {">": operator.gt, ">=": operator.ge, "<": operator.lt,
        "<=": operator.le, "!=": operator.ne, "==": operator.eq}
ST_OP = {1: 0x72, 2: 0x6a, 4: 0x62, 8: 0x7a}


def _fmt(f):
    return tuple(f) if isinstance(f, (list, tuple)) else f


class SpecProg:
    """one program of the statement language.

    spec: dict(xdp, min, dexit, tail, loc, hv, av, pv, dict, dorder, subs,
               regs, body)
      min   minimumPacketSize (None: no guard)  dexit  defaultExitCode value
      tail  False: the program does NOT end with an exit of its own but
            relies on `defaultExitCode` (only with a minimumPacketSize)
      loc   formats of LocalVars l0..          hv  formats of hash vars h0..
      av    formats of array-map vars a0..     pv  [offset, format] p0..
      dict  [key formats, value formats]       dorder 'first' | 'last'
      subs  [dict(loc, av, inst, body)]  subprogram classes, `inst` instances
      regs  {register number: constant} planted (and owned) at the start
    statements
      [set D S] [iadd D S] [isub D S] [if C body else|None] [upd]
      [look body else|None] [sub k] [psz op n body else|None] [exit code]
    operands
      [l i] [h i] [a i] [p i] [dk i] [dv i] [lv i] (looked-up value member)
      [pa F off] (array of the innermost packetSize guard) [ea F off] (array
      of the minimumPacketSize guard) [sl k i] [sa k i] (of instance k)
      [ml i] [ma i] (of the running subprogram) [r n] [w n] [sr n] [sw n]
      [c v] [kt] [pr] [bin op A B] [neg A] [abs A]
    conditions
      [cmp op A B] [and C C] [or C C] [not C] [nz A] [mask A m]
    Every declared stack byte is zeroed by raw stores first, so that only
    initialised variables are ever read."""

    def __init__(self, spec):
        self.spec = s = spec
        prog = self
        attrs = {}
        xdp = s.get("xdp", True)
        if s.get("min") is not None:
            attrs["minimumPacketSize"] = s["min"]
        if s.get("dexit") is not None:
            attrs["defaultExitCode"] = XDPExitCode(s["dexit"])
        if not s.get("tail", True) and (s.get("min") is None or not xdp):
            raise core.Internal("C05: a program without a minimumPacketSize "
                                "has to end with an exit of its own")

        def add_dict():
            if s.get("dict"):
                kf, vf = s["dict"]
                Key = type("Key", (Structure,), {
                    f"k{i}": Member(_fmt(f)) for i, f in enumerate(kf)})
                Val = type("Val", (Structure,), {
                    f"v{i}": Member(_fmt(f)) for i, f in enumerate(vf)})
                attrs["d"] = Dict(key=Key, value=Val, size=s.get("dsize", 4))
        if s.get("dorder") == "first":
            add_dict()
        for i, f in enumerate(s.get("loc", ())):
            attrs[f"l{i}"] = LocalVar(_fmt(f))
        if s.get("dorder") != "first":
            add_dict()
        if s.get("hv"):
            hm = attrs["hmap"] = HashMap()
            for i, f in enumerate(s["hv"]):
                attrs[f"h{i}"] = hm.globalVar(f)
        subs = s.get("subs", ())
        if s.get("av") or any(sb.get("av") for sb in subs):
            am = attrs["amap"] = ArrayMap()
            for i, f in enumerate(s.get("av", ())):
                attrs[f"a{i}"] = am.globalVar(_fmt(f))
        for i, (off, f) in enumerate(s.get("pv", ())):
            attrs[f"p{i}"] = PacketVar(off, f)
        self.subs, self.subspec = [], []
        for j, sb in enumerate(subs):
            sattrs = {f"l{i}": LocalVar(_fmt(f))
                      for i, f in enumerate(sb.get("loc", ()))}
            for i, f in enumerate(sb.get("av", ())):
                sattrs[f"a{i}"] = am.globalVar(_fmt(f))
            sattrs["program"] = lambda inst: prog.run_sub(inst)
            scls = type(f"S{j}", (SubProgram,), sattrs)
            for _ in range(sb.get("inst", 1)):
                self.subs.append(scls())
                self.subspec.append(sb)

        def program(e):
            prog.main(e)
        attrs["program"] = program
        cls = self.cls = type("C05P", (XDP if xdp else EBPF,), attrs)
        if xdp:
            e = cls(license="GPL", subprograms=self.subs)
        else:
            e = cls(prog_type=ProgType.XDP, license="GPL",
                    subprograms=self.subs)
        self.e = e
        self.look, self.pkt, self.cur = [], [], []
        self.code = e.assemble()

    # ---------------------------------------------------------- layout
    def declared_bytes(self):
        """stack bytes the declarations ask for (locals, Dict key/value,
        the deepest subprogram frame)"""
        low = self.cls.stack
        for sb in self.subs:
            low = min(low, (self.cls.stack & -8) + type(sb).stack)
        return -low

    def raw(self, op, dst, src, off, imm):
        self.e.opcodes.append(Instruction(Raw(op), dst, src, off, imm))

    def zero(self, lo, hi):
        """raw stores of 0 over the stack bytes [lo, hi) (r10 relative)"""
        off = lo
        while off < hi:
            for size in (8, 4, 2, 1):
                if off % size == 0 and off + size <= hi:
                    self.raw(ST_OP[size], 10, 0, off, 0)
                    off += size
                    break

    def zero_vars(self, holder):
        for c in type(holder).__mro__:
            for name, d in c.__dict__.items():
                if type(d) is LocalVar:
                    fmt, addr = d.fmt_addr(holder)
                    self.zero(addr, addr + fmtsize(fmt))

    # ---------------------------------------------------------- emission
    def main(self, e):
        s = self.spec
        self.e = e
        if -self.cls.stack <= 512:
            self.zero_vars(e)
            if s.get("dict"):
                d = self.cls.__dict__["d"]
                self.zero(d.value_offset, d.value_offset + d.Value.stack)
                self.zero(d.key_offset, d.key_offset + d.Key.stack)
        for n, v in sorted((int(k), v) for k, v in s.get("regs", {}).items()):
            e.r[n] = v
        self.emit(s["body"])
        if s.get("tail", True):
            e.exit(XDPExitCode.PASS)

    def run_sub(self, inst):
        k = self.subs.index(inst)
        if self.declared_bytes() <= 512:
            self.zero_vars(inst)
        self.cur.append(inst)
        try:
            self.emit(self.subspec[k].get("body", ()))
        finally:
            self.cur.pop()

    def target(self, o):
        """-> (holder, attribute name) of a variable operand"""
        k, e = o[0], self.e
        if k in ("l", "h", "a", "p"):
            return e, f"{k}{o[1]}"
        if k == "dk":
            return e.d.key, f"k{o[1]}"
        if k == "dv":
            return e.d.value, f"v{o[1]}"
        if k == "lv":
            return self.look[-1], f"v{o[1]}"
        if k == "sl":
            return self.subs[o[1]], f"l{o[2]}"
        if k == "sa":
            return self.subs[o[1]], f"a{o[2]}"
        if k == "ml":
            return self.cur[-1], f"l{o[1]}"
        if k == "ma":
            return self.cur[-1], f"a{o[1]}"
        raise core.Internal(f"not a variable operand: {o!r}")

    def opnd(self, o):
        k, e = o[0], self.e
        if k == "c":
            return o[1]
        if k in ("r", "w", "sr", "sw"):
            return getattr(e, k)[o[1]]
        if k == "kt":
            return ktime(e)
        if k == "pr":
            return prandom(e)
        if k == "bin":
            return BINOPS[o[1]](self.opnd(o[2]), self.opnd(o[3]))
        if k == "neg":
            return -self.opnd(o[1])
        if k == "abs":
            return abs(self.opnd(o[1]))
        if k == "pa":
            return getattr(self.pkt[-1], "p" + o[1])[o[2]]
        if k == "ea":
            return getattr(e, "p" + o[1])[o[2]]
        h, name = self.target(o)
        return getattr(h, name)

    def assign(self, d, value):
        k, e = d[0], self.e
        if k in ("r", "w", "sr", "sw"):
            getattr(e, k)[d[1]] = value
        elif k == "pa":
            getattr(self.pkt[-1], "p" + d[1])[d[2]] = value
        elif k == "ea":
            getattr(e, "p" + d[1])[d[2]] = value
        else:
            h, name = self.target(d)
            setattr(h, name, value)

    def inplace(self, d, value, add):
        x = self.opnd(d)
        if add:
            x += value
        else:
            x -= value
        self.assign(d, x)

    def cond(self, c):
        k = c[0]
        if k == "cmp":
            return CMPS[c[1]](self.opnd(c[2]), self.opnd(c[3]))
        if k == "and":
            return self.cond(c[1]) & self.cond(c[2])
        if k == "or":
            return self.cond(c[1]) | self.cond(c[2])
        if k == "not":
            return ~self.cond(c[1])
        if k == "nz":
            return self.opnd(c[1])
        if k == "mask":
            return self.opnd(c[1]) & c[2]
        raise core.Internal(f"condition {c!r}")

    def emit(self, stmts):
        e = self.e
        for s in stmts:
            k = s[0]
            if k == "set":
                self.assign(s[1], self.opnd(s[2]))
            elif k in ("iadd", "isub"):
                self.inplace(s[1], self.opnd(s[2]), k == "iadd")
            elif k == "if":
                c = self.cond(s[1])
                if s[3] is None:
                    with c:
                        self.emit(s[2])
                else:
                    with c as Else:
                        self.emit(s[2])
                    with Else:
                        self.emit(s[3])
            elif k == "upd":
                e.d.update()
            elif k == "look":
                with e.d.lookup() as (value, Else):
                    self.look.append(value)
                    try:
                        self.emit(s[1])
                    finally:
                        self.look.pop()
                if s[2] is not None:
                    with Else:
                        self.emit(s[2])
            elif k == "sub":
                self.subs[s[1]].program()
            elif k == "psz":
                _, op, n, body, els = s
                cm = {">": lambda: e.packetSize > n,
                      ">=": lambda: e.packetSize >= n,
                      "<": lambda: e.packetSize < n,
                      "<=": lambda: e.packetSize <= n}[op]()
                with cm as p:
                    self.pkt.append(p)
                    try:
                        self.emit(body)
                    finally:
                        self.pkt.pop()
                if els is not None:
                    with p.Else:
                        self.pkt.append(p)
                        try:
                            self.emit(els)
                        finally:
                            self.pkt.pop()
            elif k == "exit":
                e.exit(XDPExitCode(s[1]))
            else:
                raise core.Internal(f"statement {s!r}")


def _b_spec(s, w):
    p = SpecProg(s)
    n = p.declared_bytes()
    if n > 512:
        return p.code, "declared variables exceed the 512-byte stack"
    if n > 512 - 16 and ("amap" in p.cls.__dict__ or "hmap" in p.cls.__dict__):
        # the declarations fit, but leave no room for the temporaries the
        # generator itself puts below them (map keys, spilled values)
        return p.code, None, {"temp-below-512"}
    return p.code


# ---- operand shorthands for the enumerators
def L(i):
    return ["l", i]


def H(i):
    return ["h", i]


def A(i):
    return ["a", i]


def P(i):
    return ["p", i]


def R(n):
    return ["r", n]


def C(v):
    return ["c", v]


def BIN(op, a, b):
    return ["bin", op, a, b]


def CMP(op, a, b):
    return ["cmp", op, a, b]


KT, PR = ["kt"], ["pr"]


# registers the program owns before the statement under test (r1 = context
# is always owned; more than four owned caller-saved registers cannot be
# parked around a helper call and are refused by the generator)
REGCTX_QUICK = [[], [0], [2, 3]]
REGCTX = [[], [0], [2], [0, 2, 3], [2, 3, 4], [6, 8], [0, 5, 6]]


def regctx(regs):
    return {str(n): 7 + n for n in regs}


def mentions(o, kinds):
    """does the statement / operand tree use an operand of these kinds?"""
    if not isinstance(o, list):
        return False
    if o and isinstance(o[0], str) and o[0] in kinds and len(o) > 1 \
            and not isinstance(o[1], list):
        return True
    return any(mentions(x, kinds) for x in o)


def reads_hash(o):
    """does evaluating this operand / condition read a hash-map variable?"""
    if not isinstance(o, list):
        return False
    if o and o[0] == "h":
        return True
    return any(reads_hash(x) for x in o)


# ---- hash-map variables in every position
def fam_hash(ctx):
    hfmts = ["B", "i", "Q"] if ctx.quick else ["B", "h", "I", "i", "Q", "q"]
    ctxs = REGCTX_QUICK if ctx.quick else REGCTX
    tails = [[], [["set", L(3), H(0)]]]
    if not ctx.quick:
        tails.append([["set", ["ea", "B", 1], C(1)],
                      ["if", CMP(">", L(2), C(0)), [["set", L(2), C(3)]],
                       None]])
    layouts = [dict(loc=["B", "H", "I", "Q"], av=["I", "H", "B"],
                    pv=[[0, "I"], [24, "Q"], [30, "H"]]),
               dict(loc=["Q", "I", "H", "B"], av=["Q", "I"],
                    pv=[[0, "I"], [8, "Q"], [16, "H"]]),
               # no packet pointer, no array map: more free registers
               dict(loc=["H", "B", "I", "Q"])]
    h, g = H(0), H(1)
    out = []
    for lay_no, lay in enumerate(layouts):
        for hf in hfmts:
            for regs in ctxs:
                rr = R(regs[-1]) if regs else R(2)
                stmts = []
                # -- as a source
                for i in range(4):
                    stmts.append(["set", L(i), h])
                for d in (R(0), R(2), R(6), ["w", 3], ["sr", 4]):
                    stmts.append(["set", d, h])
                stmts += [["set", A(0), h], ["set", A(1), h],
                          ["set", g, h], ["set", P(0), h],
                          ["set", ["ea", "H", 4], h]]
                for ex in (BIN("+", h, C(1)), BIN("-", C(3), h),
                           BIN("*", h, h), BIN("+", h, g), ["neg", h],
                           BIN("&", h, C(0xf0)), BIN(">>", h, C(2)),
                           BIN("+", h, L(2)), BIN("+", L(2), h),
                           BIN("*", h, rr), BIN("+", rr, h)):
                    stmts.append(["set", L(2), ex])
                stmts.append(["set", rr, BIN("*", h, rr)])
                stmts += [["iadd", A(0), h], ["iadd", P(0), h],
                          ["iadd", L(2), h], ["isub", A(0), h]]
                # -- as a destination
                stmts.append(["set", h, rr])
                stmts.append(["set", h, R(0)])
                for i in range(4):
                    stmts.append(["set", h, L(i)])
                for i in range(len(lay.get("av", ()))):
                    stmts.append(["set", h, A(i)])
                for i in range(3):
                    stmts.append(["set", h, P(i)])
                stmts += [["set", h, BIN("+", h, C(1))], ["iadd", h, C(1)],
                          ["set", h, BIN("+", L(2), C(5))], ["set", h, KT],
                          ["set", h, PR], ["set", h, BIN("*", g, C(3))],
                          ["set", h, g], ["set", h, C(5)],
                          ["set", h, BIN("+", L(2), rr)]]
                # -- in conditions
                body, els = [["set", L(2), C(1)]], [["set", L(2), C(2)]]
                for op in CMPS:
                    stmts.append(["if", CMP(op, h, C(3)), body, None])
                for cnd in (CMP(">", h, C(3)), CMP("==", h, C(0)),
                            CMP("<", h, L(2)), CMP(">=", L(2), h),
                            CMP("!=", h, g), CMP("<=", rr, h),
                            CMP(">", h, C(0x1234567890)), CMP("<", h, C(-1)),
                            ["nz", h], ["mask", h, 4],
                            ["and", CMP(">", h, C(1)), CMP("<", g, C(5))],
                            ["or", CMP(">", h, C(1)), CMP("<", g, C(5))],
                            ["not", CMP("==", h, C(0))],
                            ["and", CMP(">", L(2), C(1)), ["nz", h]]):
                    stmts.append(["if", cnd, body, els])
                stmts.append(["if", CMP(">", h, C(1)), [["set", L(2), h]],
                              [["set", h, L(3)]]])
                stmts.append(["if", CMP(">", L(2), C(1)), [["set", L(3), h]],
                              None])
                for st in stmts:
                    for tail in tails:
                        if lay_no == 1 and tail:
                            continue
                        if lay_no == 2 and (mentions(st, ("a", "p", "ea"))
                                            or mentions(tail, ("ea",))):
                            continue
                        out.append(dict(
                            xdp=True, min=32 if "pv" in lay else None,
                            hv=[hf, "Q"], regs=regctx(regs),
                            body=[st] + tail, **lay))
    return out


MEMORY_KINDS = ("l", "a", "p", "ml", "ma", "sl", "sa", "dk", "dv", "lv",
                "pa", "ea")


def _flat(stmts):
    """every statement of a body, nested ones included"""
    for s in stmts or ():
        yield s
        if s[0] == "if":
            yield from _flat(s[2])
            yield from _flat(s[3])
        elif s[0] == "look":
            yield from _flat(s[1])
            yield from _flat(s[2])
        elif s[0] == "psz":
            yield from _flat(s[3])
            yield from _flat(s[4])


def spec_triggers(spec):
    """structural triggers of the documented defects in a spec program"""
    t = set()
    bodies = [spec.get("body", ())] + [sb.get("body", ())
                                       for sb in spec.get("subs", ())]
    for s in itertools.chain.from_iterable(_flat(b) for b in bodies):
        k = s[0]
        if k in ("set", "iadd", "isub"):
            d, src = s[1], s[2]
            if k != "set" and d[0] in ("p", "pa", "ea"):
                t.add("xadd-pkt")       # in-place add on packet memory
            rd = reads_hash(src) or (k != "set" and d[0] == "h")
            if rd:
                t.add("hash-read")      # a hash-map variable is read
            if rd or d[0] == "h":
                t.add("helper-restore")
            if k == "set" and d[0] == "h" and src[0] in MEMORY_KINDS:
                t.add("hash-set-narrow")    # hashvar = memory variable
        elif k in ("if",) and reads_hash(s[1]):
            t |= {"hash-read", "helper-restore"}
        elif k in ("upd", "look"):
            t |= {"dict-call", "helper-restore"}
        if k in ("if", "look", "psz"):
            body, els = (s[2], s[3]) if k == "if" else \
                (s[1], s[2]) if k == "look" else (s[3], s[4])
            if els is not None and body and body[-1][0] == "exit":
                t.add("exit-then-else")
    return t


# ---- Dict update / lookup
def fam_dict(ctx):
    dicts = [[["I"], ["q"]], [["I", "B"], ["q", "I", "B"]]]
    if not ctx.quick:
        dicts += [[["Q"], ["B"]], [["B", "B", "H", "I"], ["I", "I"]]]
    ctxs = REGCTX_QUICK if ctx.quick else REGCTX
    out = []
    for dd in dicts:
        for dorder in ("last", "first"):
            if ctx.quick and dorder == "first" and dd is not dicts[0]:
                continue
            for regs in ctxs:
                rr = R(regs[-1]) if regs else R(2)
                ksrcs = [C(3), L(1), H(0), KT, ["ea", "I", 0], rr]
                lv0 = ["lv", 0]
                rd = [["set", L(2), lv0]]
                bodies = []
                for ks in ksrcs:
                    kset = [["set", ["dk", 0], ks]]
                    bodies.append(kset + [["upd"]])
                    bodies.append(kset + [["look", rd, None]])
                kset = [["set", ["dk", 0], C(3)]]
                for vs in (C(9), L(2), H(0), KT, rr):
                    bodies.append(kset + [["set", ["dv", 0], vs], ["upd"]])
                bodies.append(kset + [["look", rd, [["set", L(2), C(0)]]]])
                for mod in (["set", lv0, C(7)], ["iadd", lv0, C(1)],
                            ["isub", lv0, C(1)],
                            ["set", lv0, BIN("+", lv0, C(1))],
                            ["set", lv0, KT], ["set", lv0, L(2)],
                            ["set", lv0, H(0)], ["set", lv0, rr],
                            ["set", H(0), lv0], ["set", A(0), lv0],
                            ["set", ["ea", "I", 4], lv0],
                            ["set", R(3), lv0],
                            ["if", CMP(">", lv0, C(3)),
                             [["set", lv0, C(3)]], None],
                            ["if", CMP(">", lv0, L(2)),
                             [["set", L(2), lv0]], [["set", lv0, L(2)]]]):
                    bodies.append(kset + [["look", [mod], None]])
                    bodies.append(kset + [["look", [mod],
                                           [["set", L(2), C(0)]]]])
                bodies.append(kset + [["upd"], ["look", rd, None]])
                bodies.append(kset + [["look", rd, None], ["upd"]])
                bodies.append(kset + [["upd"], ["upd"]])
                bodies.append(kset + [["upd"], ["if", CMP("!=", R(0), C(0)),
                                                [["set", L(2), C(1)]], None]])
                bodies.append(kset + [["if", CMP(">", L(2), C(0)),
                                       [["look", rd, None]], [["upd"]]]])
                bodies.append(kset + [["look", rd, [["upd"]]]])
                tails = [[], [["psz", ">", 40, [["set", L(2),
                                                 ["pa", "I", 36]]], None]],
                         [["set", ["ea", "B", 0], C(1)],
                          ["set", L(3), rr]]]
                if ctx.quick:
                    tails = tails[:2]
                for b in bodies:
                    for tail in tails:
                        out.append(dict(
                            xdp=True, min=32, loc=["B", "H", "I", "Q"],
                            hv=["Q"], av=["I"], dict=dd, dorder=dorder,
                            regs=regctx(regs), body=b + tail))
                    if dorder == "last" and (not ctx.quick or dd is dicts[1]):
                        # locals that leave the stack offset odd before
                        # the Dict's key/value areas are laid out
                        out.append(dict(
                            xdp=True, min=32, loc=["Q", "I", "H", "B"],
                            hv=["Q"], av=["I"], dict=dd, dorder=dorder,
                            regs=regctx(regs), body=b))
    return out


# ---- ktime / prandom
def fam_time(ctx):
    ctxs = REGCTX_QUICK if ctx.quick else REGCTX
    out = []
    for regs in ctxs:
        rr = R(regs[-1]) if regs else R(2)
        exprs = [KT, PR, BIN("+", KT, C(1)), BIN("-", KT, L(2)),
                 BIN("&", PR, C(0xffff)), BIN("*", KT, PR),
                 BIN("+", BIN(">>", KT, C(3)), rr), BIN("+", L(2), KT),
                 BIN("+", rr, KT), BIN("*", rr, KT), BIN("+", KT, KT),
                 ["neg", KT], BIN("%", KT, C(1000)), BIN("//", KT, C(1000)),
                 BIN("-", C(5), KT), BIN("^", PR, PR),
                 BIN("+", BIN("&", PR, C(0xff)), H(0)),
                 BIN("+", H(0), KT)]
        dests = [L(0), L(1), L(2), R(0), R(2), R(6), ["w", 3], A(0), A(1),
                 H(0), P(0), ["ea", "H", 6]]
        tails = [[], [["psz", ">", 40, [["set", L(2), ["pa", "I", 36]]],
                       None], ["set", L(2), rr]]]
        for ex in exprs:
            for d in dests:
                for tail in tails:
                    out.append(dict(regs=regctx(regs),
                                    body=[["set", d, ex]] + tail))
        body, els = [["set", L(2), KT]], [["set", L(1), C(2)]]
        for cnd in (CMP(">", KT, L(2)), CMP("<=", KT, L(2)),
                    CMP("==", KT, C(0)), CMP("<", L(2), KT),
                    CMP("<", BIN("&", PR, C(0xffff)), A(0)),
                    CMP(">", KT, rr), CMP(">", rr, KT),
                    ["mask", PR, 1], ["nz", KT],
                    ["and", CMP(">", KT, L(2)), ["mask", PR, 1]],
                    ["or", CMP(">", KT, L(2)), CMP("<", PR, C(99))],
                    ["not", CMP(">", KT, L(2))],
                    CMP(">", BIN("-", KT, L(2)), A(1))):
            for e2 in (None, els):
                for tail in tails:
                    out.append(dict(regs=regctx(regs),
                                    body=[["if", cnd, body, e2]] + tail))
    full = dict(xdp=True, min=32, loc=["B", "I", "Q"], hv=["Q"],
                av=["I", "Q"], pv=[[0, "I"]])
    light = dict(xdp=True, min=None, loc=["B", "I", "Q"], hv=["Q"])
    res = []
    for sp in out:
        if len(sp["regs"]) <= 1:
            res.append(dict(sp, **full))
        if not mentions(sp["body"], ("a", "p", "ea")):
            res.append(dict(sp, **light))
    return res


# ---- subprograms
def fam_sub(ctx):
    slocs = [[], ["I"], ["B", "q"], ["q", "I", "B"], [[3, 1], "I"]]
    savs = [[], ["I"], ["H", "Q"]]
    mains = [[], ["I"], ["q", "B"]]
    out = []
    for sl in slocs:
        for sa in savs:
            bodies = []
            ml, ma = (["ml", 0] if sl else None), (["ma", 0] if sa else None)
            v = ml or ma
            if v is None:
                bodies.append([])
            else:
                bodies.append([["set", v, C(1) if v != [3, 1] else C(1)]])
                bodies.append([["set", v, BIN("+", v, R(2))]])
                bodies.append([["set", v, H(0)], ["set", H(0), v]])
                bodies.append([["set", v, KT],
                               ["if", CMP(">", v, C(5)), [["set", v, C(5)]],
                                [["set", v, C(0)]]]])
            if ml and ma:
                bodies.append([["set", ml, ma], ["iadd", ma, C(1)],
                               ["if", CMP(">", ml, ma), [["set", ma, ml]],
                                None]])
            if len(sl) > 1:
                bodies.append([["set", ["ml", 1], BIN("+", ["ml", 0],
                                                      ["ml", 1])]])
            for sbody in bodies:
                for inst in (1, 2):
                    for second in (False, True):
                        for mloc in mains:
                            if ctx.quick and second and inst == 2:
                                continue
                            subs = [dict(loc=sl, av=sa, inst=inst,
                                         body=sbody)]
                            if second:
                                subs.append(dict(
                                    loc=["I"], av=["I"], inst=1,
                                    body=[["set", ["ml", 0], ["ma", 0]]]))
                            n = inst + second
                            body = [["sub", k] for k in range(n)]
                            if mloc:
                                body.append(["set", L(0), C(4)])
                                if sl:
                                    body.append(["set", L(0), ["sl", 0, 0]])
                                if sa:
                                    body.append(["set", ["sa", n - 1, 0]
                                                 if not second else
                                                 ["sa", 0, 0], L(0)])
                            out.append(dict(
                                xdp=True, min=32, loc=mloc, hv=["Q"],
                                av=["I"], subs=subs, regs=regctx([2]),
                                body=body))
    return out


# ---- a stack filled up to 512 bytes and beyond
def fam_stack(ctx):
    fills = [["Q"] * n for n in (60, 61, 62, 63, 64, 65)]
    fills.append(["Q"] * 63 + ["I", "H", "B", "B"])          # exactly 512
    fills.append(["Q"] * 63 + ["I", "H", "B", "B", "B"])     # 513
    fills.append(["Q"] * 63 + ["I"])                          # 508
    fills.append(["B"] * 512)
    fills.append(["B"] * 513)
    out = []
    for loc in fills:
        last, first = L(len(loc) - 1), L(0)
        stmts = [[["set", last, C(5)]],
                 [["set", last, BIN("+", first, C(1))]],
                 [["set", last, H(0)]],
                 [["set", H(0), BIN("+", last, C(1))]],
                 [["set", H(0), R(2)]],
                 [["set", last, KT]],
                 [["if", CMP(">", last, C(3)), [["set", first, C(1)]],
                   [["set", first, C(2)]]]],
                 [["if", CMP(">", H(0), last), [["set", first, C(1)]],
                   None]]]
        for st in stmts:
            out.append(dict(xdp=True, min=32, loc=loc, hv=["Q"],
                            regs=regctx([2]), body=st))
        out.append(dict(xdp=True, min=32, loc=loc, av=["I"], regs={},
                        body=[["set", A(0), last]]))
        out.append(dict(xdp=False, loc=loc, regs={},
                        body=[["set", last, first]]))
    for n in (58, 60, 61, 62, 63):
        loc = ["Q"] * n
        for dorder in ("first", "last"):
            out.append(dict(xdp=True, min=32, loc=loc,
                            dict=[["I"], ["q"]], dorder=dorder, regs={"0": 0},
                            body=[["set", ["dk", 0], L(0)], ["upd"],
                                  ["look", [["set", L(1), ["lv", 0]]],
                                   None]]))
        for sl in (["Q"], ["Q", "Q"], ["B"]):
            out.append(dict(xdp=True, min=32, loc=loc, regs={},
                            subs=[dict(loc=sl, inst=2,
                                       body=[["set", ["ml", 0], C(1)]])],
                            body=[["sub", 0], ["sub", 1],
                                  ["set", L(0), ["sl", 1, 0]]]))
            out.append(dict(xdp=True, min=32, loc=loc, hv=["Q"], regs={},
                            subs=[dict(loc=sl, inst=1,
                                       body=[["set", ["ml", 0], H(0)]])],
                            body=[["sub", 0]]))
    return out


# ---- packet-size guards
def fam_pkt(ctx):
    out = []
    sz = {"B": 1, "H": 2, "I": 4, "Q": 8}
    for op in (">", ">=", "<", "<="):
        for n in (14, 20, 64):
            for f in "BHIQ":
                for off in sorted({0, 1, n - sz[f]}):
                    pa = ["pa", f, off]
                    accs = [[["set", L(1), pa]], [["set", R(3), pa]],
                            [["set", pa, C(5)]], [["set", pa, R(2)]],
                            [["set", pa, L(1)]],
                            [["set", pa, BIN("+", pa, C(1))]],
                            [["if", CMP(">", pa, C(3)),
                              [["set", pa, C(3)]], None]],
                            [["set", H(0), BIN("+", pa, C(0))],
                             ["set", pa, H(0)]],
                            [["set", L(1), KT], ["set", pa, L(1)]]]
                    if ctx.quick:
                        accs = accs[:5] + accs[7:]
                    for acc in accs:
                        if op in (">", ">="):
                            st = ["psz", op, n, acc, [["set", L(1), C(0)]]]
                        else:
                            st = ["psz", op, n, [["set", L(1), C(0)]], acc]
                        out.append(dict(body=[st]))
    # nested and sequenced guards, guards after helper calls and in branches
    inner = [["set", L(1), ["pa", "I", 36]]]
    outer_acc = ["set", L(2), ["pa", "H", 12]]
    out.append(dict(body=[["psz", ">", 20, [outer_acc,
                                            ["psz", ">", 40, inner, None]],
                           None]]))
    out.append(dict(body=[["psz", ">", 20, [outer_acc], None],
                          ["psz", ">", 40, inner, None]]))
    out.append(dict(body=[["set", L(2), KT], ["psz", ">", 40, inner, None]]))
    out.append(dict(body=[["set", H(0), R(2)],
                          ["psz", ">", 40, inner, None]]))
    out.append(dict(body=[["set", L(2), H(0)],
                          ["psz", ">", 40, inner, None]]))
    out.append(dict(body=[["if", CMP(">", L(2), C(1)),
                           [["psz", ">", 40, inner, None]],
                           [["psz", ">=", 14, [outer_acc], None]]]]))
    out.append(dict(body=[["psz", "<", 40, [["exit", 1]], inner]]))
    out.append(dict(body=[["psz", ">", 40, inner + [["exit", 3]], None]]))
    for sp in out:
        sp.update(xdp=True, min=None, loc=["B", "I", "Q"], hv=["Q"],
                  regs=regctx([2]))
    # minimumPacketSize with packet variables in other positions
    for f in ("B", "H", ">H", "I", "<i", "Q", "!q"):
        p = P(0)
        for body in ([["if", CMP(">", p, C(3)), [["set", p, C(3)]], None]],
                     [["set", H(0), BIN("+", p, C(0))], ["set", p, H(0)]],
                     [["set", ["dk", 0], p], ["upd"],
                      ["look", [["set", p, ["lv", 0]]], None]],
                     [["if", ["and", CMP("==", p, C(0x88a4)),
                              CMP("!=", ["ea", "B", 16], C(0))],
                       [["set", ["ea", "H", 20], p]], None]]):
            out.append(dict(xdp=True, min=30, loc=["B", "I", "Q"], hv=["Q"],
                            pv=[[12, f]], dict=[["I"], ["q"]],
                            regs={"0": 0}, body=body))
    return out


# ---- boundary values of minimumPacketSize, own exit / defaultExitCode
MIN_SIZES = (0, 1, 13, 14, 15, 1500, 1514)


def fam_minsz(ctx):
    """XDP subclasses with minimumPacketSize at its boundaries (0 = 'any
    non-empty packet': guard packetSize > 0) x every defaultExitCode x the
    way the program ends: 'default' relies on defaultExitCode (falls out of
    the guarded block), 'own' ends with exit(PASS), 'code' with exit(another
    code), 'branch' exits in a branch and otherwise relies on the default;
    x bodies without and with packet accesses (arrays of the guard, a packet
    variable) at the first and at the last bytes the guard promises"""
    codes = [c.value for c in XDPExitCode]
    sz = {"B": 1, "H": 2, "I": 4, "Q": 8}
    out = []
    n = 0
    for m in MIN_SIZES:
        bodies = [[], [["iadd", A(0), C(1)]], [["set", L(1), C(5)]],
                  [["if", CMP(">", A(0), C(3)), [["set", A(0), C(0)]],
                    [["set", L(1), A(0)]]]]]
        for f in "BHIQ":
            if sz[f] > m:
                continue
            for off in sorted({0, m - sz[f]}):
                ea = ["ea", f, off]
                bodies.append([["set", L(2), ea]])
                bodies.append([["set", ea, C(5)]])
                if not ctx.quick or off:
                    bodies.append([["if", CMP("==", ea, C(0x88)),
                                    [["set", ea, L(1)]], None],
                                   ["iadd", A(0), C(1)]])
        pv = []
        if m >= 2:
            pv = [[m - 2, ">H"]]
            bodies.append([["set", L(1), P(0)]])
            bodies.append([["if", CMP("!=", P(0), C(0x88a4)),
                            [["set", P(0), C(0x88a4)]], None]])
        for bi, body in enumerate(bodies):
            for end in ("default", "own", "code", "branch"):
                for dexit in codes:
                    n += 1
                    if ctx.quick and end != "default" and \
                            (n + ctx.seed) % 3:
                        continue
                    other = codes[(codes.index(dexit) + 1 + bi) % len(codes)]
                    if end == "default":
                        b, tail = body, False
                    elif end == "own":
                        b, tail = body, True
                    elif end == "code":
                        b, tail = body + [["exit", other]], False
                    else:
                        b, tail = body + [
                            ["if", CMP(">", L(1), C(bi)),
                             [["exit", other]], None]], False
                    out.append(dict(xdp=True, min=m, dexit=dexit, tail=tail,
                                    loc=["B", "I", "Q"], av=["I"], pv=pv,
                                    body=b))
    return out


# ---- helper calls inside a Dict lookup block, before the value is used
def fam_look(ctx):
    """the looked-up value is addressed through r0: every helper call the
    generator makes inside the with-block (ktime, prandom, hash-map and
    array-map variables) has to preserve r0.  Dict.update() and a second
    lookup() return their own result in r0 and stay excluded.  Second half:
    the same helpers between `r0 = 5` and a later read of r0."""
    ctxs = [[], [0], [2]] if ctx.quick else [[], [0], [2], [6], [2, 3]]
    lv0, lv1 = ["lv", 0], ["lv", 1]
    rnd = BIN("&", PR, C(0xff))
    out = []
    for regs in ctxs:
        rr = R(regs[-1]) if regs and regs[-1] else R(3)
        helpers = [
            [["set", L(2), KT]], [["set", L(3), PR]], [["set", L(2), rnd]],
            [["set", R(2), PR]], [["set", R(3), rnd]], [["set", R(6), PR]],
            [["set", ["w", 3], PR]], [["set", R(2), KT]],
            [["set", L(3), BIN("+", rnd, lv0)]],
            [["set", L(3), BIN("-", KT, lv0)]],
            [["set", L(3), BIN("+", BIN("*", PR, C(3)), KT)]],
            [["set", lv1, PR]], [["set", lv1, rnd]], [["set", lv0, KT]],
            [["set", lv0, BIN("+", lv0, rnd)]],
            [["set", R(3), rnd], ["set", lv1, R(3)]],
            [["set", L(3), H(0)]], [["set", H(0), L(3)]],
            [["set", H(0), lv0]], [["set", H(0), KT]],
            [["set", L(2), A(0)]], [["set", A(0), L(2)]],
            [["set", A(0), lv1]], [["iadd", A(0), C(1)]],
            [["set", A(0), PR]],
            [["if", ["mask", PR, 1], [["set", L(2), C(1)]], None]],
            [["if", CMP(">", KT, L(3)), [["set", L(2), C(1)]],
              [["set", L(2), C(2)]]]],
            [["if", CMP("<", rnd, A(0)), [["set", lv1, C(0)]], None]],
            [["if", CMP(">", H(0), lv0), [["set", L(2), C(1)]], None]],
        ]
        accesses = [[["set", L(2), lv1]], [["set", lv1, C(7)]],
                    [["iadd", lv1, C(1)]],
                    [["set", lv0, BIN("+", lv0, L(3))],
                     ["set", L(2), lv1]]]
        if ctx.quick:
            accesses = accesses[:3]
        for hs in helpers:
            for acc in accesses:
                for els in (None, [["set", L(2), C(0)]]):
                    out.append(dict(
                        xdp=True, min=32, loc=["B", "H", "I", "Q"],
                        hv=["Q"], av=["I"], dict=[["I"], ["q", "I"]],
                        regs=regctx(regs),
                        body=[["set", ["dk", 0], C(3)],
                              ["look", hs + acc, els]]))
        # an explicitly owned r0 across the same helpers
        for hs in helpers:
            if mentions(hs, ("lv",)):
                continue
            for use in ([["set", L(2), R(0)]],
                        [["set", R(0), BIN("+", R(0), C(1))],
                         ["set", ["ea", "I", 4], R(0)]]):
                out.append(dict(
                    xdp=True, min=32, loc=["B", "H", "I", "Q"], hv=["Q"],
                    av=["I"], regs=regctx(sorted(set(regs) | {0})),
                    body=hs + use))
    # with two and more owned registers the packet pointer and the array
    # map leave too few registers to park r0..r5 in: lighter declarations
    res = []
    for sp in out:
        if len(sp["regs"]) < 2:
            res.append(sp)
        elif not mentions(sp["body"], ("a", "ea")):
            res.append(dict(sp, min=None, av=[]))
    return res


SPEC_FAMILIES = {
    "hash": (fam_hash, spec_triggers),
    "dict": (fam_dict, spec_triggers),
    "time": (fam_time, spec_triggers),
    "sub": (fam_sub, spec_triggers),
    "stack": (fam_stack, spec_triggers),
    "pkt": (fam_pkt, spec_triggers),
    "look": (fam_look, spec_triggers),
    "minsz": (fam_minsz, spec_triggers),
}


REGKINDS = ("r", "w", "sr", "sw")


def registers_initialised(spec):
    """side condition 'only initialised variables' for registers: every
    register a statement reads was planted or assigned by an earlier
    top-level statement (RegisterArray.__setitem__ marks the destination
    as owned before the value is computed, so `r2 = r2 + 1` on a fresh r2
    is not refused by the generator)"""
    have = {int(k) for k in spec.get("regs", {})}

    def reads(o):
        if not isinstance(o, list) or not o:
            return set()
        if o[0] in REGKINDS and len(o) == 2 and isinstance(o[1], int):
            return {o[1]}
        out = set()
        for x in o:
            out |= reads(x)
        return out

    def ok(stmts, have):
        for s in stmts or ():
            k = s[0]
            if k == "set":
                if not reads(s[2]) <= have:
                    return False
                if s[1][0] in REGKINDS:
                    have = have | {s[1][1]}
                elif not reads(s[1]) <= have:
                    return False
            elif k in ("iadd", "isub"):
                if not reads(s[1:]) <= have:
                    return False
            elif k == "if":
                if not reads(s[1]) <= have or not ok(s[2], have) \
                        or not ok(s[3], have):
                    return False
            elif k == "look":
                if not ok(s[1], have) or not ok(s[2], have):
                    return False
            elif k == "psz":
                if not ok(s[3], have) or not ok(s[4], have):
                    return False
        return True
    return ok(spec.get("body"), have) and all(
        ok(sb.get("body"), have) for sb in spec.get("subs", ()))


def spec_items(ctx):
    out = []
    for fam, (enum, _) in SPEC_FAMILIES.items():
        out += [(fam, sp) for sp in enum(ctx) if registers_initialised(sp)]
    return out


def _spec_item(item, res):
    fam, spec = item
    submit(res, fam, spec, triggers=SPEC_FAMILIES[fam][1](spec))


# ====================================================================
# 3. the library's own programs
# ====================================================================
def _lib_classes():
    from ebpfcat.ebpfcat import EBPFTerminal, PacketDesc
    from ebpfcat.ethercat import SyncManager
    OUT, IN = SyncManager.OUT, SyncManager.IN

    class T5(EBPFTerminal):
        obit = PacketDesc(OUT, 0, 3)
        obit0 = PacketDesc(OUT, 1, 0)
        oH = PacketDesc(OUT, 2, "H")
        oh = PacketDesc(OUT, 2, "h")
        oI = PacketDesc(OUT, 4, "I")
        oi = PacketDesc(OUT, 4, "i")
        ibit = PacketDesc(IN, 0, 5)
        ibit4 = PacketDesc(IN, 1, 4)
        iH = PacketDesc(IN, 2, "H")
        ih = PacketDesc(IN, 2, "h")
        iI = PacketDesc(IN, 4, "I")
        ii = PacketDesc(IN, 4, "i")
        iq = PacketDesc(IN, 8, "q")
    return T5


DEVICE_VARIANTS = (
    [("AnalogInput", v) for v in ("iH", "ih", "iI", "ii", "ibit")] +
    [("AnalogOutput", v) for v in ("oH", "oh", "oI", "oi", "obit")] +
    [("DigitalInput", v) for v in ("ibit", "iH")] +
    [("DigitalOutput", v) for v in ("obit", "oH")] +
    [("RandomOutput", v) for v in ("obit", "oH")] +
    [("Counter", None)] +
    [("Motor", v) for v in ("ii", "iq")] +
    [("Dummy", None), ("RandomDropper", None)])
DEVICE_KINDS = [("AnalogInput", "iH"), ("AnalogOutput", "oh"),
                ("DigitalInput", "ibit"), ("DigitalOutput", "obit"),
                ("RandomOutput", "obit"), ("Counter", None), ("Motor", "ii"),
                ("Dummy", None), ("RandomDropper", None)]
_T5 = []


def _b_group(s, w):
    from mc import fastsim
    from ebpfcat import devices as D
    from ebpfcat.ebpfcat import FastSyncGroup
    if not _T5:
        _T5.append(_lib_classes())
    fastsim.reset_globals()
    ec = fastsim.new_ec()
    devs = []
    for n, (kind, var) in enumerate(s["devices"]):
        fmmu = {"fmmu": True, "direct": False,
                "mixed": n % 2 == 0}[s["layout"]]
        t = fastsim.fake_terminal(ec, _T5[0], n + 1, 16, 8, fmmu,
                                  in_off=0x1100 + 32 * n,
                                  out_off=0x1000 + 32 * n)
        if kind == "Motor":
            d = D.Motor()
            d.velocity = t.oh
            d.encoder = getattr(t, var)
            d.low_switch = t.ibit
            d.high_switch = t.ibit4
            d.enable = t.obit
        elif kind == "Dummy":
            d = D.Dummy([t])
        elif kind in ("Counter", "RandomDropper"):
            d = getattr(D, kind)()
        else:
            d = getattr(D, kind)(getattr(t, var))
        devs.append(d)
    sg = FastSyncGroup(ec, devs)
    sg.allocate()
    sg.packet_index = s.get("index", 5)
    return sg.assemble()


def _b_dispatcher(s, w):
    from ebpfcat.ebpfcat import EtherXDP, FastEtherCat
    e = EtherXDP()
    e.programs = w.own(kern.map_create(3, 4, 4, FastEtherCat.MAX_PROGS))
    if "rate" in s:
        e.rate = s["rate"]
    return e.assemble()


def fam_lib(ctx):
    out = [("dispatcher", dict()), ("dispatcher", dict(rate=655))]
    layouts = ("fmmu", "direct", "mixed")
    for dv in DEVICE_VARIANTS:
        for lay in layouts[:2]:
            out.append(("group", dict(devices=[list(dv)], layout=lay)))
    pairs = DEVICE_KINDS if ctx.quick else DEVICE_VARIANTS
    for a in pairs:
        for b in pairs:
            for lay in layouts:
                if ctx.quick and lay == "direct":
                    continue
                out.append(("group", dict(devices=[list(a), list(b)],
                                          layout=lay)))
    n = 0
    for a, b, c in itertools.product(DEVICE_KINDS, repeat=3):
        for lay in ("fmmu", "mixed") if not ctx.quick else ("mixed",):
            n += 1
            if ctx.quick and (n + ctx.seed) % 6:
                continue
            out.append(("group", dict(devices=[list(a), list(b), list(c)],
                                      layout=lay)))
    return out


def _lib_item(item, res):
    fam, shape = item
    submit(res, fam, shape)


BUILDERS = {
    "c01": _b_c01, "c02": _b_c02, "c03": _b_c03, "c04": _b_c04,
    "c06": _b_c06, "c07": _b_c07, "c08": _b_c08, "c09": _b_c09,
    "hash": _b_spec, "dict": _b_spec, "time": _b_spec, "sub": _b_spec,
    "stack": _b_spec, "pkt": _b_spec, "look": _b_spec, "minsz": _b_spec,
    "group": _b_group, "dispatcher": _b_dispatcher,
}


# ====================================================================
# driver
# ====================================================================
# slices of the reused enumerations (1/k of ...): c03 plain blocks / c03x
# else-if chains and bodies that exit / c03bf the bit-field comparison
# family; c04 statements on a fresh class / c04in inside a lookup block /
# c04h under a history of the program class; c07 single accesses / c07g
# several guards; c08k<n> n declarations on one map / c08x byte-order
# prefixed formats / c08m two maps
STRIDES = {
    "quick": dict(c01=18, c02=6, c03=9, c03x=3, c03bf=8, c04=48, c04in=56,
                  c04h=60, c06=4, c07=24, c07g=4, c08k2=4, c08k3=40,
                  c08m=16, c08x=2),
    "thorough": dict(c01=10, c02=6, c03=3, c03bf=6, c04=30, c04in=40,
                     c04h=50, c06=2, c07=8, c07g=4, c08k3=4, c08m=5),
}


def work(item, res):
    kind, payload = item
    _stored.clear()
    if kind in REUSE and not _rebound:
        raise core.Internal("C05: the adapters are not in place")
    if kind in REUSE:
        REUSE[kind](payload, res)
    elif kind in SPEC_FAMILIES:
        _spec_item((kind, payload), res)
    else:
        _lib_item((kind, payload), res)


def all_items(ctx):
    items = spec_items(ctx)
    items += fam_lib(ctx)
    items += reuse_items(ctx)
    return items


def run(ctx):
    res = core.Result()
    res.cov["kernel_available"] = kern.available()
    if not kern.available():
        # fallback of the design (mini-verifier with definite-rejection
        # rules) is not implemented: nothing is judged, nothing is claimed
        res.cov.update(evaluations=0, states=0, transitions=0,
                       traces_validated_against_impl=0)
        res.outcomes.add("kernel unavailable")
        res.exhaustive = False
        res.caps_hit.append("bpf() unavailable: no program was judged")
        res.assumptions.append(
            "bpf() is not available in this environment: the real verifier "
            "is the only oracle of this check, so nothing was judged")
        return res
    CFG["stride"] = dict(STRIDES[ctx.tier])
    CFG["seed"] = ctx.seed
    _rebind()
    items = all_items(ctx)
    probe = startup_selftest(items)
    # interleave the families so that every chunk costs about the same
    items = [it for _, it in sorted(
        enumerate(items), key=lambda p: (zlib.crc32(repr(p[0]).encode()),
                                         p[0]))]
    out = core.pmap(ctx, work, items, chunk=8)
    res.merge(out)
    if out.exhaustive:      # (a run stopped by a violation flood saw less)
        final_selftest(res)
    res.cov["selftest"] = dict(
        startup_programs_walked=sum(
            v for k, v in probe.cov.items()
            if k.startswith("yielded:") and "/" not in k),
        families={k[8:]: v for k, v in sorted(res.cov.items())
                  if k.startswith("yielded:")})
    res.cov["kernel_available"] = True
    res.cov["work_items"] = len(items)
    res.cov["states"] = len(res.nontrivial)
    res.cov["slice_1_of_k"] = dict(CFG["stride"])
    res.cov["kernel"] = os.uname().release
    if UNAVAILABLE:
        res.cov["enumerators_unavailable"] = UNAVAILABLE
        res.caps_hit.append("harness modules that could not be imported: "
                            + ", ".join(sorted(UNAVAILABLE)))
    for fam, k in sorted(CFG["stride"].items()):
        if k > 1:
            n = res.cov.get("enumerated:slice:" + fam, 0)
            res.caps_hit.append(f"{fam}: 1/{k} slice of the harness' "
                                f"enumeration (rotated by the seed): {n} "
                                f"programs")
    res.assumptions += [
        "the verdict is that of this kernel's verifier with root "
        "capabilities (XDP program type, GPL licence)",
        "a constant the program text itself gets wrong is outside the side "
        "conditions: a constant shift amount outside [0, width of the "
        "narrowest operand or destination) and division or remainder by the "
        "constant 0 are counted, not judged",
        "'local variables fit the 512-byte stack' is read as: LocalVars, "
        "the key/value areas of a Dict and the deepest subprogram frame "
        "together need at most 512 bytes; programs declaring more are "
        "counted, not judged; stack temporaries the generator adds on its "
        "own are its own business",
        "'packet access inside a packet-size guard': offset + size <= n for "
        "`packetSize > n`, `>= n` and minimumPacketSize = n (body) and for "
        "the Else part of `< n`, `<= n`",
        "minimumPacketSize = 0 is a legal declaration ('any non-empty "
        "packet', guard packetSize > 0, no byte may be accessed); an XDP "
        "class that declares a minimumPacketSize may leave the return value "
        "to defaultExitCode (its program() need not end with exit()), a "
        "class without one has to exit itself (the family 'minsz' never "
        "builds that combination)",
        "programs with several packet-size guards (C07's family): every "
        "guard reloads the packet pointer, and the verifier then only knows "
        "what THAT guard's comparison established; an access that relies on "
        "the promise of an outer guard (or of minimumPacketSize) after an "
        "inner guard was entered - e.g. byte 19 under minimumPacketSize = 20 "
        "inside `with self.packetSize > 16:` - is inside the outer guard "
        "only textually and is read as outside the side condition (the "
        "reading that demands less of the generator): such programs are "
        "loaded and counted (outside:access relies on the promise of an "
        "outer packet-size guard), not judged; all of them are in fact "
        "refused ('R9 offset is outside of the packet'), all others load",
        "a program the reused harnesses build from an invalid declaration "
        "set (a lone re-declaration in C08's prefixed-format family) is not "
        "a program and is skipped",
        "inside a Dict lookup block the looked-up value must stay usable "
        "across every helper call the generator makes on its own (ktime, "
        "prandom, hash-map and array-map variables; family 'look'); only "
        "update() and a second lookup() inside the block, which return their "
        "own result in r0, and an assignment to r0 by the program itself "
        "end its validity and are not followed by an access",
        "whatever exception the generator raises while a program is written "
        "or assembled counts as rejection by the generator, never as a "
        "violation",
    ]
    return res


def replay(ctx, rep):
    res = core.Result()
    if not kern.available():
        raise core.Internal("bpf() unavailable: cannot replay")
    check_signatures()
    c = rep["case"]
    fam, shape = c["family"], c["shape"]
    trig, outside = (), None
    if fam == "c06" and "cfg" in shape:
        # replays written when a C06 configuration was one statement
        kind, fmt, opsym, form = shape["cfg"]
        shape = dict(prog=[kind, fmt, [[opsym, form, 0]]])
    if fam in SPEC_FAMILIES:
        trig = SPEC_FAMILIES[fam][1](shape)
    elif fam == "c01":
        outside = const_trouble(tup(shape["tree"]), c01.width_of(
            tup(shape["tree"]), tup(shape["dest"])))
    elif fam == "c02":
        outside = const_trouble(tup(shape["tree"]), 32)
    elif fam == "c03":
        trig = _c03_triggers(c03.stmts_from_json(shape["stmts"]))
    elif fam == "c04":
        trig = _c04_triggers(tup(shape["stmt"]))
    elif fam == "c06":
        trig = _c06_triggers(shape)
    elif fam == "c07":
        trig = _c07_triggers(shape)
        if "guards" in shape:
            outside = guards_outside(shape["guards"])
    elif fam == "c08":
        trig = _c08_triggers(shape)
    _stored.clear()
    with World() as w:
        try:
            code = BUILDERS[fam](shape, w)
        except _Captured as cap:
            code = cap.code
        if isinstance(code, tuple):
            code = code[0]
        print(bpfvm.disasm(bpfvm.decode(code)))
        verdict = load(code)
    if verdict is None:
        print("the kernel accepts the program")
    else:
        print("verifier log tail:\n" + verdict[1][-1500:])
    submit(res, fam, shape, outside, triggers=trig)
    return res.violations
