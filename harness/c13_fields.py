"""C13 - datagram field encoding and decoding round-trip.

Every combination of up to three format groups (with values; the last one
optionally read-only) and raw data in {None, 0, 3, b"", 1, 3, 40 bytes} goes
through the real EtherCat.roundtrip / sendloop / process_packet on the virtual
loop; the payload on the wire and the returned tuple are compared with an
independent little-endian struct reference.
"""
import asyncio
import itertools
import struct

from mc import core, ecparse, vloop

from ebpfcat.ethercat import ECCmd, EtherCat

PROP = "C13"
LEVEL = "model_checking"
RULE = ("all argument lists: <= 3 (thorough: 4) format groups from the alphabet, each with "
        "values, the last optionally read-only, x raw-data alphabet x 2 "
        "commands; non-trivial = the request was sent; distinct = distinct "
        "argument list")

GROUPS = [("B", (0xA1,)), ("H", (0xB2C3,)), ("I", (0xD4E5F607,)),
          ("H2xH", (0x1122, 0x3344)), ("4s", (b"wxyz",)),
          ("HBB", (0x5566, 0x77, 0x88)), ("BI", (0x99, 0xA0B0C0D0)),
          ("8s", (b"12345678",)), ("h", (-2,)), ("q", (-3,)),
          ("BQ", (1, 0x0102030405060708))]
DATA = [None, 0, 3, b"", b"\x01", b"abc", bytes(range(100, 140))]


def resp_bytes(n):
    return bytes((i * 13 + 5) & 0xff for i in range(n))


class EchoTransport:
    def __init__(self, loop, ec):
        self.loop, self.ec = loop, ec
        self.sent = []

    def sendto(self, data, addr=None):
        self.sent.append(bytes(data))
        _, dgs = ecparse.parse(data)
        out = bytearray(data)
        for d in dgs[1:]:
            out[d.data_pos:d.wkc_pos] = resp_bytes(d.length)
            out[d.wkc_pos:d.wkc_pos + 2] = b"\1\0"
        self.loop.call_soon(self.ec.datagram_received, bytes(out), None)


def run_case(case, res):
    groups, readonly, data, cmd = case
    args = []
    sent_exp = b""
    offs = []
    for i, (fmt, vals) in enumerate(groups):
        args.append(fmt)
        size = struct.calcsize("<" + fmt)
        offs.append((fmt, len(sent_exp)))
        if readonly and i == len(groups) - 1:
            sent_exp += bytes(size)
        else:
            args.extend(vals)
            sent_exp += struct.pack("<" + fmt, *vals)
    fmt_len = len(sent_exp)
    if isinstance(data, int):
        sent_exp += bytes(data)
    elif data is not None:
        sent_exp += data
    R = resp_bytes(len(sent_exp))
    decoded = ()
    for fmt, o in offs:
        decoded += struct.unpack_from("<" + fmt, R, o)
    if data is None:
        accept = [decoded]
    elif groups:
        accept = [decoded + (R[fmt_len:],)]
    else:
        accept = [R, (R,)]
    jcase = dict(args=[a if not isinstance(a, bytes) else a.hex()
                       for a in args], data=data, cmd=cmd)
    res.count("evaluations")
    loop = vloop.VLoop()
    with loop:
        ec = EtherCat("sim")
        ec.send_queue = asyncio.Queue()
        tp = ec.transport = EchoTransport(loop, ec)
        st = asyncio.ensure_future(ec.sendloop())
        t = asyncio.ensure_future(ec.roundtrip(ECCmd(cmd), 7, 0x120, *args,
                                               data=data, idx=3))
        try:
            loop.settle(2000)
        except RuntimeError:
            pass
        if not t.done():
            out = ("pending",)
        elif t.exception() is not None:
            out = ("error", type(t.exception()).__name__)
        else:
            out = ("result", t.result())
        sent = list(tp.sent)
        loop.shutdown()
    kf = None
    zero_raw = groups and data is not None and \
        (data == 0 or (not isinstance(data, int) and len(data) == 0))
    if not sent:
        res.outcomes.add("not sent " + out[-1] if out[0] == "error"
                         else "not sent")
        res.violation(jcase, "request sent", out, sig="notsent" + str(out),
                      note="request not sent")
        return
    res.nontrivial.add(core.digest(jcase))
    res.count("transitions", 2)
    _, dgs = ecparse.parse(sent[0])
    d = dgs[1]
    if d.data != sent_exp or (d.cmd, d.adp, d.ado, d.idx) != \
            (cmd, 7, 0x120, 3):
        res.violation(jcase, sent_exp.hex(), d.data.hex(),
                      sig=core.digest(["payload", readonly, data is None]),
                      note="payload on the wire differs from the reference "
                           "encoding")
    ok = out[0] == "result" and any(
        type(out[1]) is type(a) and out[1] == a for a in accept)
    res.outcomes.add((out[0], ok))
    if not ok:
        if zero_raw:
            kf = "C13-empty-raw-data"
        res.violation(jcase, accept[0], out[1:], kf=kf,
                      sig=core.digest(["ret", readonly, bool(groups),
                                       repr(data)[:6], str(kf)]),
                      note="returned value differs from the reference "
                           "decoding")


def cases(ctx):
    out = []
    gl = GROUPS
    for n in range(0, 4 if ctx.quick else 5):
        for groups in itertools.product(gl if n < 4 else GROUPS[::2],
                                        repeat=n):
            if ctx.quick and n == 3 and len({g[0] for g in groups}) < 2:
                continue
            for readonly in ((False, True) if n else (False,)):
                for data in DATA:
                    if n == 0 and data is None:
                        continue
                    for cmd in ((4, 5) if n <= 1 else (4,)):
                        out.append((groups, readonly, data, cmd))
    return out


def run(ctx):
    items = cases(ctx)
    res = core.pmap(ctx, run_case, items)
    res.cov["states"] = len(res.nontrivial)
    res.cov["traces_validated_against_impl"] = res.cov.get("evaluations", 0)
    res.sample(dict(args=["H", 0xB2C3, "4s"], data="b''",
                    meaning="one written H, a read-only 4s, empty raw data"))
    res.assumptions += [
        "only the last format may be read-only (a format without values "
        "elsewhere is rejected by struct)",
        "with raw data and no formats either the raw bytes or a 1-tuple of "
        "them is accepted as the return value"]
    return res


def replay(ctx, rep):
    res = core.Result()
    c = rep["case"]
    byfmt = dict(GROUPS)
    groups, ro = [], False
    args = c["args"]
    i = 0
    while i < len(args):
        fmt = args[i]
        i += 1
        n = len(byfmt[fmt])
        if i >= len(args) or isinstance(args[i], str) and args[i] in byfmt \
                and not (fmt.endswith("s") and i + n <= len(args)
                         and len(args[i]) == 2 * struct.calcsize(fmt)):
            ro = True
        else:
            i += n
        groups.append((fmt, byfmt[fmt]))
    data = c["data"]
    if isinstance(data, str):
        data = bytes.fromhex(data)
    run_case((tuple(groups), ro, data, c["cmd"]), res)
    return res.violations
